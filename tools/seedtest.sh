#!/bin/sh
# tools/seedtest.sh <patch.diff> <ID> [tier]  — apply a seeded change to /repo, run one check, undo.
# Prints the check's verdict lines; exit code = the check's exit code (1 = detected).
P=$1; ID=$2; TIER=${3:-quick}
cd /verif
if ! git -C /repo diff --quiet; then echo "/repo has local modifications; refusing" >&2; exit 9; fi
if ! git -C /repo apply "$P" 2>/dev/null; then
  if ! git -C /repo apply -3 "$P" 2>/dev/null; then echo "patch does not apply" >&2; git -C /repo checkout -- . ; exit 8; fi
  git -C /repo reset -q
fi
VERIF_SEED=${VERIF_SEED:-1} ./check "$ID" --tier "$TIER" 2>&1 | grep -v '^  ' | tail -${LINES_OUT:-6}
rc=$?
git -C /repo checkout -- .
git -C /repo clean -fdq
exit $rc
