#!/bin/sh
# tools/seedtest.sh <patch.diff> <ID> [tier]  — apply a seeded change to /repo, run one check, undo.
# Prints the check's verdict lines; exit code = the check's exit code (1 = detected).
P=$1; ID=$2; TIER=${3:-quick}
cd /verif
if [ -n "$(git -C /repo status --porcelain)" ]; then echo "/repo has local modifications; refusing" >&2; exit 9; fi
if ! git -C /repo apply "$P" 2>/dev/null; then
  if ! (cd /repo && patch -p1 -s -F3 --no-backup-if-mismatch < "$P" >/dev/null 2>&1); then
    echo "patch does not apply" >&2; git -C /repo reset -q --hard HEAD; git -C /repo clean -fdq; exit 8
  fi
fi
VERIF_SEED=${VERIF_SEED:-1} ./check "$ID" --tier "$TIER" 2>&1 | grep -v '^  ' | tail -${LINES_OUT:-6}
git -C /repo reset -q --hard HEAD
git -C /repo clean -fdq
