#!/usr/bin/env python3
"""tools/seedmatrix.py [name-prefix] [--tier quick|thorough] [--checks C01,C02]
Applies each /verif/seeded/<name>/patch.diff to /repo, runs the property's check (or the given checks),
undoes the patch, and records the outcome in the seed's meta.json."""
import json, os, re, subprocess, sys
args = sys.argv[1:]
tier, prefix, checks = "quick", "", None
i = 0
while i < len(args):
    if args[i] == "--tier": tier = args[i+1]; i += 2
    elif args[i] == "--checks": checks = args[i+1].split(","); i += 2
    else: prefix = args[i]; i += 1
root = "/verif/seeded"
if subprocess.run("git -C /repo status --porcelain", shell=True, capture_output=True, text=True).stdout.strip():
    sys.exit("/repo has local modifications")
for name in sorted(os.listdir(root)):
    d = os.path.join(root, name)
    if not name.startswith(prefix) or not os.path.exists(os.path.join(d, "meta.json")):
        continue
    meta = json.load(open(os.path.join(d, "meta.json")))
    todo = checks or [meta["property"]]
    if subprocess.run(f"git -C /repo apply {d}/patch.diff", shell=True).returncode != 0:
        print(name, "PATCH DOES NOT APPLY"); continue
    try:
        for c in todo:
            p = subprocess.run(f"./check {c} --tier {tier}", shell=True, cwd="/verif", capture_output=True, text=True)
            sigs = sorted(set(re.findall(r"^  ([^ ]+): ", p.stdout, re.M)))
            res = {"tier": tier, "seed": int(os.environ.get("VERIF_SEED", "1")), "exit": p.returncode, "detected": p.returncode == 1, "signatures": sigs[:8],
                   "summary": (re.findall(r"^C\d+ \w+ seed.*$", p.stdout, re.M) or [""])[-1]}
            meta.setdefault("check_results", {})[c] = res
            print(name, c, "DETECTED" if res["detected"] else f"missed (exit {p.returncode})", sigs[:3])
    finally:
        subprocess.run("git -C /repo reset -q --hard HEAD; git -C /repo clean -fdq", shell=True)
    meta["what_ran"] = "git -C /repo apply seeded/<name>/patch.diff; ./check <ID> --tier " + tier + "; git -C /repo reset --hard"
    json.dump(meta, open(os.path.join(d, "meta.json"), "w"), indent=1)
