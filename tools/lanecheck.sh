#!/bin/sh
# tools/lanecheck.sh <seed-name> [check-id]  — runs a check against a seeded change WITHOUT touching /repo:
# scratch worktree /tmp/lc/wt with the patch applied, VERIF_REPO pointing at it.
n=$1; c=${2:-$(jq -r .property /verif/seeded/$n/meta.json)}
mkdir -p /tmp/lc
[ -d /tmp/lc/wt ] || git -C /repo worktree add -q -f --detach /tmp/lc/wt HEAD
git -C /tmp/lc/wt reset -q --hard HEAD; git -C /tmp/lc/wt clean -fdq
git -C /tmp/lc/wt apply /verif/seeded/$n/patch.diff || { echo "$n: patch does not apply"; exit 3; }
cd /verif && VERIF_REPO=/tmp/lc/wt ./check $c > /tmp/lc/out.txt 2>&1; rc=$?
sigs=$(grep -E "^  [^ ]+: " /tmp/lc/out.txt | sed -E 's/^  ([^ ]+): .*/\1/' | sort -u | head -4 | tr '\n' ' ')
[ $rc = 1 ] && echo "$n $c DETECTED $sigs" || echo "$n $c missed (exit $rc) $(tail -1 /tmp/lc/out.txt | cut -c1-120)"
git -C /tmp/lc/wt reset -q --hard HEAD; git -C /tmp/lc/wt clean -fdq
