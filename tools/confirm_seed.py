#!/usr/bin/env python3
"""tools/confirm_seed.py <seed-dir> <property-id> <name>  — confirm a seeded change in a scratch worktree of /repo:
(1) the patch applies to /repo's HEAD, (2) the four-module suite still passes with it, (3) the demonstration fails
with it and (4) passes without it. Writes /verif/seeded/<name>/{patch.diff, demo files, README.md, meta.json}."""
import json, os, re, shutil, subprocess, sys, time

seed, pid, name = sys.argv[1], sys.argv[2], sys.argv[3]
WT = "/tmp/wt-confirm-" + name
env = dict(os.environ, GOFLAGS="-mod=mod", GOPROXY="off")
env.pop("GOSUMDB", None); env.pop("GOTOOLCHAIN", None)
def sh(cmd, cwd=None, timeout=900):
    p = subprocess.run(cmd, shell=True, cwd=cwd, env=env, stdout=subprocess.PIPE, stderr=subprocess.STDOUT, text=True, timeout=timeout)
    return p.returncode, p.stdout
subprocess.run(f"git -C /repo worktree remove --force {WT} 2>/dev/null; git -C /repo worktree add -f --detach {WT} HEAD", shell=True, stdout=subprocess.DEVNULL, stderr=subprocess.DEVNULL)
meta = {"property": pid, "name": name, "repo_head": subprocess.check_output("git -C /repo rev-parse --short HEAD", shell=True, text=True).strip(), "confirmed_at": time.strftime("%Y-%m-%dT%H:%M:%SZ", time.gmtime())}
try:
    patch = os.path.join(seed, "patch.diff")
    rc, out = sh(f"git apply {patch}", WT)
    if rc != 0:
        rc, out = sh(f"patch -p1 -s -F3 --no-backup-if-mismatch < {patch}", WT)
    meta["patch_applies"] = rc == 0
    if rc != 0:
        raise SystemExit("patch does not apply: " + out[-500:])
    # rebased patch against HEAD
    rebased = subprocess.check_output("git add -A && git diff --cached HEAD", shell=True, cwd=WT, text=True)  # (--cached: new files too)
    subprocess.run("git reset -q", shell=True, cwd=WT)
    new_files = re.findall(r"^diff --git a/(\S+) b/\S+\nnew file mode", rebased, re.M)
    # (2) suite with the patch (the known-flaky test is skipped: it hangs ~2% of runs on the unmodified tree too)
    suite_ok, suite_out = True, ""
    for m in [".", "otel", "stores/durablestream", "stores/sqlite"]:
        rc, out = sh("go test -vet=off -count=1 -skip 'TestAsyncSequentialHandlerContextCancelled' ./...", os.path.join(WT, m))
        suite_out += out[-400:]
        suite_ok = suite_ok and rc == 0
    meta["suite_passes_with_patch"] = suite_ok
    # (3)/(4) demos
    demos = [f for f in os.listdir(seed) if f.endswith(".go")]
    results = []
    pkgdir = {"eventbus": ".", "eventbus_test": ".", "state": "state", "state_test": "state", "sqlite": "stores/sqlite", "sqlite_test": "stores/sqlite",
              "otel": "otel", "otel_test": "otel", "durablestream": "stores/durablestream", "durablestream_test": "stores/durablestream", "ebuotel": "otel", "ebuotel_test": "otel"}
    for d in demos:
        src = open(os.path.join(seed, d)).read()
        pk = re.search(r"^package (\w+)", src, re.M).group(1)
        if pk not in pkgdir:
            results.append({"demo": d, "error": "unknown package " + pk}); continue
        tests = re.findall(r"^func (Test\w+)\(", src, re.M)
        target = os.path.join(WT, pkgdir[pk], "zz_seed_" + re.sub(r"\W", "_", d[:-3]) + "_test.go")
        shutil.copy(os.path.join(seed, d), target)
        race = "-race" if (os.environ.get("FORCE_RACE") or ("-race" in open(os.path.join(seed, "README.md")).read() and pid == "C03" and name.endswith("a"))) else ""
        cmd = f"go test {race} -vet=off -count=1 -timeout 300s -run '^({'|'.join(tests)})$' ."
        rc1, out1 = sh(cmd, os.path.dirname(target))
        results.append({"demo": d, "dir": pkgdir[pk], "cmd": cmd, "fails_with_patch": rc1 != 0, "with_patch_tail": out1[-600:]})
    sh("git checkout -- . ", WT)
    for nf in new_files:
        os.remove(os.path.join(WT, nf))
    for r in results:
        if "cmd" in r:
            rc2, out2 = sh(r["cmd"], os.path.join(WT, r["dir"]))
            r["passes_without_patch"] = rc2 == 0
            if rc2 != 0:
                r["without_patch_tail"] = out2[-600:]
    meta["demos"] = results
    meta["confirmed"] = bool(suite_ok and results and all(r.get("fails_with_patch") and r.get("passes_without_patch") for r in results))
    dest = os.path.join("/verif/seeded", name)
    os.makedirs(dest, exist_ok=True)
    open(os.path.join(dest, "patch.diff"), "w").write(rebased)
    for d in demos:
        shutil.copy(os.path.join(seed, d), os.path.join(dest, d))
    if os.path.exists(os.path.join(seed, "README.md")):
        shutil.copy(os.path.join(seed, "README.md"), os.path.join(dest, "README.md"))
    json.dump(meta, open(os.path.join(dest, "meta.json"), "w"), indent=1)
    print(name, "confirmed" if meta["confirmed"] else "NOT CONFIRMED", {k: meta[k] for k in ("patch_applies", "suite_passes_with_patch")}, [(r.get("fails_with_patch"), r.get("passes_without_patch")) for r in results])
finally:
    subprocess.run(f"git -C /repo worktree remove --force {WT}", shell=True, stdout=subprocess.DEVNULL, stderr=subprocess.DEVNULL)
