#!/usr/bin/env python3
"""tools/regress.py <lanes> [name-regex]  — re-runs the property's own quick check against every seeded change,
in parallel lanes that never touch /repo or /verif: each lane has its own scratch worktree of /repo and its own copy
of /verif under /tmp/rg (removed at the end). Results: /tmp/rg-results.jsonl (one line per seed); nothing is written
to the seeds' meta.json."""
import json, os, re, subprocess, sys, threading, shutil
lanes = int(sys.argv[1]); rx = re.compile(sys.argv[2] if len(sys.argv) > 2 else ".")
root = "/verif/seeded"; base = "/tmp/rg"
names = sorted(n for n in os.listdir(root) if rx.search(n) and os.path.exists(f"{root}/{n}/meta.json"))
out = open("/tmp/rg-results.jsonl", "a"); lock = threading.Lock()
def sh(cmd, **kw): return subprocess.run(cmd, shell=True, stdout=subprocess.PIPE, stderr=subprocess.STDOUT, text=True, **kw)
def lane(k):
    d = f"{base}/lane{k}"; wt = f"{d}/wt"; vf = f"{d}/verif"
    os.makedirs(d, exist_ok=True)
    sh(f"git -C /repo worktree remove --force {wt}; git -C /repo worktree add -f --detach {wt} HEAD")
    sh(f"rsync -a --exclude .git --exclude .build --exclude seeded --exclude evidence/replays /verif/ {vf}/")
    for n in names[k::lanes]:
        meta = json.load(open(f"{root}/{n}/meta.json")); pid = meta["property"]
        sh(f"git -C {wt} reset -q --hard HEAD; git -C {wt} clean -fdq")
        if sh(f"git -C {wt} apply {root}/{n}/patch.diff").returncode != 0:
            res = {"name": n, "applies": False}
        else:
            p = sh(f"./check {pid}", cwd=vf, env=dict(os.environ, VERIF_REPO=wt))
            sigs = sorted(set(re.findall(r"^  ([^ ]+): ", p.stdout, re.M)))
            res = {"name": n, "property": pid, "applies": True, "exit": p.returncode, "detected": p.returncode == 1, "signatures": sigs[:5]}
        with lock:
            out.write(json.dumps(res) + "\n"); out.flush()
            print(n, "DETECTED" if res.get("detected") else res, flush=True)
    sh(f"git -C /repo worktree remove --force {wt}"); shutil.rmtree(d, ignore_errors=True)
ts = [threading.Thread(target=lane, args=(k,)) for k in range(lanes)]
[t.start() for t in ts]; [t.join() for t in ts]
sh("git -C /repo worktree prune")
