#!/usr/bin/env python3
"""tools/regress.py <lanes> [name-regex] [--meta] [--checks=C01,C02]  — re-runs the property's own quick check against every seeded change,
in parallel lanes that never touch /repo or /verif: each lane has its own scratch worktree of /repo and its own copy
of /verif under /tmp/rg (removed at the end). Results: /tmp/rg-results.jsonl (one line per seed); nothing is written
to the seeds' meta.json."""
import json, os, re, subprocess, sys, threading, shutil
args = [a for a in sys.argv[1:] if not a.startswith("--")]
write_meta = "--meta" in sys.argv  # also record the outcome in the seed's meta.json (as tools/seedmatrix.py does)
checks = next((a.split("=", 1)[1].split(",") for a in sys.argv if a.startswith("--checks=")), None)
lanes = int(args[0]); rx = re.compile(args[1] if len(args) > 1 else ".")
root = "/verif/seeded"; base = "/tmp/rg"
names = sorted(n for n in os.listdir(root) if rx.search(n) and os.path.exists(f"{root}/{n}/meta.json"))
out = open("/tmp/rg-results.jsonl", "a"); lock = threading.Lock()
def sh(cmd, **kw): return subprocess.run(cmd, shell=True, stdout=subprocess.PIPE, stderr=subprocess.STDOUT, text=True, **kw)
def lane(k):
    d = f"{base}/lane{k}"; wt = f"{d}/wt"; vf = f"{d}/verif"
    os.makedirs(d, exist_ok=True)
    sh(f"git -C /repo worktree remove --force {wt}; git -C /repo worktree add -f --detach {wt} HEAD")
    sh(f"rsync -a --delete --exclude .git --exclude .build --exclude seeded --exclude evidence/replays /verif/ {vf}/")
    for n in names[k::lanes]:
        meta = json.load(open(f"{root}/{n}/meta.json")); pid = meta["property"]
        sh(f"git -C {wt} reset -q --hard HEAD; git -C {wt} clean -fdq")
        if sh(f"git -C {wt} apply {root}/{n}/patch.diff").returncode != 0:
            res = {"name": n, "applies": False}
        else:
            for c in (checks or [pid]):
                p = sh(f"./check {c}", cwd=vf, env=dict(os.environ, VERIF_REPO=wt))
                sigs = sorted(set(re.findall(r"^  ([^ ]+): ", p.stdout, re.M)))
                res = {"name": n, "property": pid, "check": c, "applies": True, "exit": p.returncode, "detected": p.returncode == 1, "signatures": sigs[:5]}
                if write_meta:
                    with lock:
                        meta = json.load(open(f"{root}/{n}/meta.json"))
                        meta.setdefault("check_results", {})[c] = {"tier": "quick", "seed": int(os.environ.get("VERIF_SEED", "1")), "exit": p.returncode, "detected": p.returncode == 1, "signatures": sigs[:8],
                                                                 "summary": (re.findall(r"^C\d+ \w+ seed.*$", p.stdout, re.M) or [""])[-1]}
                        meta["what_ran"] = "scratch worktree of /repo with seeded/<name>/patch.diff applied; VERIF_REPO=<worktree> ./check <ID> (tools/regress.py)"
                        json.dump(meta, open(f"{root}/{n}/meta.json", "w"), indent=1)
        with lock:
            out.write(json.dumps(res) + "\n"); out.flush()
            print(n, "DETECTED" if res.get("detected") else res, flush=True)
    sh(f"git -C /repo worktree remove --force {wt}"); shutil.rmtree(d, ignore_errors=True)
ts = [threading.Thread(target=lane, args=(k,)) for k in range(lanes)]
[t.start() for t in ts]; [t.join() for t in ts]
sh("git -C /repo worktree prune")
