//go:build verif

// C15 — One type name per event type, everywhere. Full cross product of event-type shapes x APIs
// that derive a type name x stores.
package c15

import (
	"context"
	"encoding/json"
	"fmt"
	"os"
	"reflect"
	"strconv"
	"testing"
	"time"

	ebu "github.com/jilio/ebu"
	"github.com/jilio/ebu/state"

	"verif/harness/internal/stores"
	"verif/harness/internal/vk"
)

type plain struct{ ID int }
type ptrOnly struct{ ID int }
type namedVal struct{ ID int }

func (namedVal) EventTypeName() string { return "c15.named-by-value.v1" }

type namedPtr struct{ ID int }

func (*namedPtr) EventTypeName() string { return "c15.named-by-pointer.v1" }

type namedStr string

type namedStrCustom string

func (namedStrCustom) EventTypeName() string { return "c15.named-string" }

// marked writes a schema marker that its struct does not declare (read back, it is ignored).
type marked struct{ ID int }

func (m marked) MarshalJSON() ([]byte, error) {
	return json.Marshal(map[string]int{"ID": m.ID, "schema": 2})
}

type upTo struct{ ID int }
type upFrom struct{ ID int }
type upFrom0 struct{ ID int }

type entity struct{ N int }

func chg(id int) state.ChangeMessage {
	m, err := state.Insert(strconv.Itoa(id), entity{N: id})
	if err != nil {
		panic(err)
	}
	return *m
}

type caseCtx struct {
	run     *vk.Run
	scratch string
}

func shapeCase[T any](c *caseCtx, shape string, mk func(int) T, idOf func(T) int, customName bool) {
	for _, kind := range []string{"memory", "sqlite-mem", "memory-paged", "sqlite-batch2"} {
		for _, api := range []string{"persist-name", "replay-eventtype-compare", "subscribe-replay-phase", "subscribe-live-phase", "upcast-as-source", "upcast-rename-only", "upcast-as-target", "upcast-target-into-subscription", "upcast-chain-into-subscription", "name-after-upcasting-replay", "clear-upcasts-for-type"} {
			sig := fmt.Sprintf("%s|%s|%s", shape, api, kind)
			msg := apiCase(c, kind, api, mk, idOf)
			c.run.Case(sig, customName)
			if msg != "" {
				c.run.Violation("typename:"+api+":"+shape, fmt.Sprintf("event shape %q, API route %s, store %s: %s", shape, api, kind, msg), map[string]any{"shape": shape, "api": api, "store": kind, "go_type": reflect.TypeOf((*T)(nil)).Elem().String(), "event_type_name": ebu.EventType(mk(1))})
			}
		}
	}
}

func apiCase[T any](c *caseCtx, kind, api string, mk func(int) T, idOf func(T) int) string {
	st, err := stores.Open(kind, c.scratch)
	if err != nil {
		panic(err)
	}
	defer st.Close()
	sub := st.Sub
	newBus := func() *ebu.EventBus { return ebu.New(ebu.WithStore(st.Store), ebu.WithSubscriptionStore(sub)) }
	ctx := context.Background()
	bus := newBus()
	name := ebu.EventType(mk(1))
	readAll := func() []*ebu.StoredEvent {
		evs, _, err := st.Store.Read(ctx, ebu.OffsetOldest, 0)
		if err != nil {
			panic(err)
		}
		return evs
	}
	switch api {
	case "persist-name":
		ebu.Publish(bus, mk(1))
		evs := readAll()
		if len(evs) != 1 {
			return fmt.Sprintf("%d records after one publish", len(evs))
		}
		if evs[0].Type != name {
			return fmt.Sprintf("persisted under %q, EventType reports %q", evs[0].Type, name)
		}
	case "replay-eventtype-compare":
		ebu.Publish(bus, mk(1))
		ebu.Publish(bus, upTo{ID: 9})
		matched := 0
		if err := bus.Replay(ctx, ebu.OffsetOldest, func(e *ebu.StoredEvent) error {
			if e.Type == ebu.EventType(mk(0)) {
				matched++
			}
			return nil
		}); err != nil {
			return "Replay: " + err.Error()
		}
		if matched != 1 {
			return fmt.Sprintf("comparing StoredEvent.Type with EventType(value) matched %d of 1 persisted events", matched)
		}
	case "subscribe-replay-phase":
		ebu.Publish(bus, mk(1))
		ebu.Publish(bus, upTo{ID: 9})
		ebu.Publish(bus, mk(2))
		bus2 := newBus()
		var got []int
		if err := ebu.SubscribeWithReplay(ctx, bus2, "s", func(e T) { got = append(got, idOf(e)) }); err != nil {
			return "SubscribeWithReplay: " + err.Error()
		}
		if fmt.Sprint(got) != "[1 2]" {
			return fmt.Sprintf("SubscribeWithReplay[T] replayed %v of the persisted events [1 2] of its type (persisted as %q)", got, name)
		}
	case "subscribe-live-phase":
		var got []int
		if err := ebu.SubscribeWithReplay(ctx, bus, "s", func(e T) { got = append(got, idOf(e)) }); err != nil {
			return "SubscribeWithReplay: " + err.Error()
		}
		ebu.Publish(bus, mk(5))
		if fmt.Sprint(got) != "[5]" {
			return fmt.Sprintf("live phase delivered %v, want [5]", got)
		}
	case "upcast-as-source":
		ebu.Publish(bus, mk(3))
		if err := ebu.RegisterUpcast(bus, func(t T) upTo { return upTo{ID: idOf(t) + 100} }); err != nil {
			return "RegisterUpcast: " + err.Error()
		}
		var seen []string
		if err := bus.ReplayWithUpcast(ctx, ebu.OffsetOldest, func(e *ebu.StoredEvent) error {
			seen = append(seen, e.Type+":"+string(e.Data))
			return nil
		}); err != nil {
			return "ReplayWithUpcast: " + err.Error()
		}
		want := ebu.EventType(upTo{}) + `:{"ID":103}`
		if len(seen) != 1 || seen[0] != want {
			return fmt.Sprintf("upcaster registered with RegisterUpcast[T, To] was not applied to the persisted T event: callback saw %v, want [%s]", seen, want)
		}
	case "upcast-rename-only":
		// a migration that only renames the type: the upcast output is byte-identical to the stored data
		ebu.Publish(bus, mk(3))
		stored := readAll()
		if err := ebu.RegisterUpcast(bus, func(t T) json.RawMessage { return append(json.RawMessage{}, stored[0].Data...) }); err != nil {
			return "RegisterUpcast: " + err.Error()
		}
		var types []string
		if err := bus.ReplayWithUpcast(ctx, ebu.OffsetOldest, func(e *ebu.StoredEvent) error {
			types = append(types, e.Type)
			return nil
		}); err != nil {
			return "ReplayWithUpcast: " + err.Error()
		}
		if want := ebu.EventType(json.RawMessage{}); len(types) != 1 || types[0] != want {
			return fmt.Sprintf("a rename-only upcast (output bytes equal the stored data) was handed out as %v, want type %q", types, want)
		}
	case "upcast-as-target":
		ebu.Publish(bus, upFrom{ID: 4})
		if err := ebu.RegisterUpcast(bus, func(f upFrom) T { return mk(f.ID + 200) }); err != nil {
			return "RegisterUpcast: " + err.Error()
		}
		var types []string
		if err := bus.ReplayWithUpcast(ctx, ebu.OffsetOldest, func(e *ebu.StoredEvent) error {
			types = append(types, e.Type)
			return nil
		}); err != nil {
			return "ReplayWithUpcast: " + err.Error()
		}
		if len(types) != 1 || types[0] != name {
			return fmt.Sprintf("RegisterUpcast[From, T] produced type name %v, but T is persisted as %q", types, name)
		}
	case "upcast-target-into-subscription":
		ebu.Publish(bus, upFrom{ID: 4})
		ebu.Publish(bus, mk(6))
		bus2 := newBus()
		if err := ebu.RegisterUpcast(bus2, func(f upFrom) T { return mk(f.ID + 200) }); err != nil {
			return "RegisterUpcast: " + err.Error()
		}
		var got []int
		if err := ebu.SubscribeWithReplay(ctx, bus2, "s2", func(e T) { got = append(got, idOf(e)) }); err != nil {
			return "SubscribeWithReplay: " + err.Error()
		}
		if fmt.Sprint(got) != "[204 6]" {
			return fmt.Sprintf("SubscribeWithReplay[T] received %v, want [204 6] (an upcast old event and a native one)", got)
		}
	case "upcast-chain-into-subscription":
		// two typed hops (upFrom0 -> upFrom -> T): the oldest version, persisted under its own name, must
		// reach the typed subscription of the newest
		ebu.Publish(bus, upFrom0{ID: 4})
		ebu.Publish(bus, upFrom{ID: 5})
		ebu.Publish(bus, mk(6))
		bus2 := newBus()
		if err := ebu.RegisterUpcast(bus2, func(f upFrom0) upFrom { return upFrom{ID: f.ID + 1000} }); err != nil {
			return "RegisterUpcast: " + err.Error()
		}
		if err := ebu.RegisterUpcast(bus2, func(f upFrom) T { return mk(f.ID + 200) }); err != nil {
			return "RegisterUpcast: " + err.Error()
		}
		var got []int
		if err := ebu.SubscribeWithReplay(ctx, bus2, "s3", func(e T) { got = append(got, idOf(e)) }); err != nil {
			return "SubscribeWithReplay: " + err.Error()
		}
		if fmt.Sprint(got) != "[1204 205 6]" {
			return fmt.Sprintf("SubscribeWithReplay[T] behind a chain of two typed upcasts received %v, want [1204 205 6] (two-hop, one-hop and native event)", got)
		}
	case "name-after-upcasting-replay":
		// an upcasting replay hands out renamed events; the persisted name of T stays what EventType says
		ebu.Publish(bus, mk(1))
		if err := ebu.RegisterUpcast(bus, func(t T) upTo { return upTo{ID: idOf(t) + 100} }); err != nil {
			return "RegisterUpcast: " + err.Error()
		}
		if err := bus.ReplayWithUpcast(ctx, ebu.OffsetOldest, func(*ebu.StoredEvent) error { return nil }); err != nil {
			return "ReplayWithUpcast: " + err.Error()
		}
		var viaSub []int
		ebu.SubscribeWithReplay(ctx, bus, "s4", func(e upTo) { viaSub = append(viaSub, e.ID) })
		if evs := readAll(); len(evs) != 1 || evs[0].Type != name {
			return fmt.Sprintf("after an upcasting replay (and an upcasting replay subscription) the record of T is stored under %q, EventType reports %q", evs[0].Type, name)
		}
		bus2 := newBus()
		var got []int
		if err := ebu.SubscribeWithReplay(ctx, bus2, "s5", func(e T) { got = append(got, idOf(e)) }); err != nil {
			return "SubscribeWithReplay: " + err.Error()
		}
		if fmt.Sprint(got) != "[1]" {
			return fmt.Sprintf("after an upcasting replay on another bus, SubscribeWithReplay[T] replayed %v of the persisted events [1]", got)
		}
	case "clear-upcasts-for-type":
		// the upcaster of T is withdrawn with ClearUpcastsForType(EventType(T)) after a replay has
		// already used it: from then on T is handed out, and selected, under its own name again
		ebu.Publish(bus, mk(1))
		if err := ebu.RegisterUpcast(bus, func(t T) upTo { return upTo{ID: idOf(t) + 100} }); err != nil {
			return "RegisterUpcast: " + err.Error()
		}
		var before []string
		bus.ReplayWithUpcast(ctx, ebu.OffsetOldest, func(e *ebu.StoredEvent) error { before = append(before, e.Type); return nil })
		bus.ClearUpcastsForType(name)
		var after []string
		bus.ReplayWithUpcast(ctx, ebu.OffsetOldest, func(e *ebu.StoredEvent) error { after = append(after, e.Type); return nil })
		var got []int
		if err := ebu.SubscribeWithReplay(ctx, bus, "s6", func(e T) { got = append(got, idOf(e)) }); err != nil {
			return "SubscribeWithReplay: " + err.Error()
		}
		if fmt.Sprint(before) != fmt.Sprint([]string{ebu.EventType(upTo{})}) || fmt.Sprint(after) != fmt.Sprint([]string{name}) || fmt.Sprint(got) != "[1]" {
			return fmt.Sprintf("with the upcaster registered the event was handed out as %v; after ClearUpcastsForType(%q) as %v (want [%s]), and SubscribeWithReplay[T] replayed %v (want [1])", before, name, after, name, got)
		}
	}
	return ""
}

func TestC15(t *testing.T) {
	run := vk.New("C15", "matrix")
	defer run.Finish()
	scratch := os.Getenv("VERIF_SCRATCH")
	if scratch == "" {
		scratch = t.TempDir()
	}
	c := &caseCtx{run: run, scratch: scratch}
	shapeCase(c, "plain struct by value", func(i int) plain { return plain{i} }, func(e plain) int { return e.ID }, false)
	shapeCase(c, "pointer to plain struct", func(i int) *ptrOnly { return &ptrOnly{i} }, func(e *ptrOnly) int { return e.ID }, false)
	shapeCase(c, "TypeNamer on value receiver, by value", func(i int) namedVal { return namedVal{i} }, func(e namedVal) int { return e.ID }, true)
	shapeCase(c, "TypeNamer on value receiver, by pointer", func(i int) *namedVal { return &namedVal{i} }, func(e *namedVal) int { return e.ID }, true)
	shapeCase(c, "TypeNamer on pointer receiver, by pointer", func(i int) *namedPtr { return &namedPtr{i} }, func(e *namedPtr) int { return e.ID }, true)
	shapeCase(c, "TypeNamer on pointer receiver, by value", func(i int) namedPtr { return namedPtr{i} }, func(e namedPtr) int { return e.ID }, false)
	shapeCase(c, "state.ChangeMessage by value", chg, func(e state.ChangeMessage) int { n, _ := strconv.Atoi(e.Key); return n }, true)
	shapeCase(c, "*state.ChangeMessage", func(i int) *state.ChangeMessage { m := chg(i); return &m }, func(e *state.ChangeMessage) int { n, _ := strconv.Atoi(e.Key); return n }, true)
	shapeCase(c, "state.ControlMessage by value", func(i int) state.ControlMessage { return *state.SnapshotStart(strconv.Itoa(i)) }, func(e state.ControlMessage) int { n, _ := strconv.Atoi(e.Headers.Offset); return n }, true)
	shapeCase(c, "*state.ControlMessage", func(i int) *state.ControlMessage { return state.Reset(strconv.Itoa(i)) }, func(e *state.ControlMessage) int { n, _ := strconv.Atoi(e.Headers.Offset); return n }, true)
	shapeCase(c, "named string", func(i int) namedStr { return namedStr(strconv.Itoa(i)) }, func(e namedStr) int { n, _ := strconv.Atoi(string(e)); return n }, false)
	shapeCase(c, "named string with TypeNamer", func(i int) namedStrCustom { return namedStrCustom(strconv.Itoa(i)) }, func(e namedStrCustom) int { n, _ := strconv.Atoi(string(e)); return n }, true)
	shapeCase(c, "struct whose MarshalJSON adds an undeclared key", func(i int) marked { return marked{i} }, func(e marked) int { return e.ID }, false)
	shapeCase(c, "pointer to a struct whose MarshalJSON adds an undeclared key", func(i int) *marked { return &marked{i} }, func(e *marked) int { return e.ID }, false)
	crossShape(c)
	sameName(c)
	queuedNames(c)
	afterUndecodable(c)
	hookStamped(c)
	blankNames(c)
	routedThenTyped(c)
	oneNameSeveralTypes(c)
	run.Sample(map[string]any{"shape": "*state.ChangeMessage", "event_type_name": ebu.EventType(&state.ChangeMessage{}), "go_type": "*state.ChangeMessage", "apis": []string{"persist-name", "replay-eventtype-compare", "subscribe-replay-phase", "subscribe-live-phase", "upcast-as-source", "upcast-as-target", "upcast-target-into-subscription"}})
	run.Exhaustive(true)
	_ = json.Valid
}

// two Go revisions of an event that keep one custom name (also T and *T do): a typed upcast between
// them is an upcast of a name to itself
type sameV1 struct{ ID int }
type sameV2 struct{ ID, Extra int }

func (sameV1) EventTypeName() string { return "c15.same-name" }
func (sameV2) EventTypeName() string { return "c15.same-name" }

// sameName: RegisterUpcast derives both names with EventType; when they are equal the registration
// is refused (source equals target) - it is never filed under other names, where it could not match
// what was persisted.
func sameName(c *caseCtx) {
	bus := ebu.New(ebu.WithStore(ebu.NewMemoryStore()))
	ebu.Publish(bus, sameV1{ID: 1})
	err1 := ebu.RegisterUpcast(bus, func(a sameV1) sameV2 { return sameV2{ID: a.ID, Extra: 1} })
	err2 := ebu.RegisterUpcast(bus, func(a plain) *plain { return &a })
	c.run.Case("typed-upcast-between-equal-names", true)
	if err1 == nil {
		c.run.Violation("typename:typed-upcast-between-equal-names", "RegisterUpcast between two Go types whose EventType name is the same (\"c15.same-name\") was accepted: an upcaster of a name to itself, or one filed under names other than the ones events are persisted with", nil)
	}
	_ = err2 // plain and *plain have different names ("c15.plain" / "*c15.plain"): either answer is fine here
}

// writeBehind is a store that queues the *Event it is handed and reads its fields only when it
// writes the queue out.
type writeBehind struct{ queue []*ebu.Event }

func (s *writeBehind) Append(_ context.Context, e *ebu.Event) (ebu.Offset, error) {
	s.queue = append(s.queue, e)
	return ebu.Offset(fmt.Sprintf("%020d", len(s.queue))), nil
}
func (s *writeBehind) Read(context.Context, ebu.Offset, int) ([]*ebu.StoredEvent, ebu.Offset, error) {
	return nil, "", nil
}

// queuedNames: events of several types queued in a write-behind store are each written under the
// name EventType reports for them.
func queuedNames(c *caseCtx) {
	st := &writeBehind{}
	bus := ebu.New(ebu.WithStore(st))
	ebu.Publish(bus, plain{1})
	ebu.Publish(bus, namedVal{2})
	ebu.Publish(bus, &namedPtr{3})
	ebu.Publish(bus, chg(4))
	ebu.Publish(bus, plain{5})
	want := []string{ebu.EventType(plain{}), ebu.EventType(namedVal{}), ebu.EventType(&namedPtr{}), ebu.EventType(chg(4)), ebu.EventType(plain{})}
	var got []string
	for _, e := range st.queue {
		got = append(got, e.Type)
	}
	c.run.Case("persist-name|write-behind store", true)
	if fmt.Sprint(got) != fmt.Sprint(want) {
		c.run.Violation("typename:persist-name:write-behind-store", fmt.Sprintf("five events of four types queued in a write-behind store carry the names %v when it writes them out, EventType reports %v", got, want), nil)
	}
}

type undecV1 struct{ ID int }
type undecV2 struct {
	ID  int
	Tag string
}

// afterUndecodable: a record of the source type that does not decode (so its typed upcast fails and
// it stays what it was) says nothing about the records of that name that follow: they are matched
// by the typed upcaster and by the typed replay subscription of the target type.
func afterUndecodable(c *caseCtx) {
	ctx := context.Background()
	store := ebu.NewMemoryStore()
	for _, d := range []string{`{"ID":1}`, `{"ID":"not a number"}`, `{"ID":3}`, `{"ID":4}`} {
		store.Append(ctx, &ebu.Event{Type: ebu.EventType(undecV1{}), Data: json.RawMessage(d), Timestamp: time.Unix(1, 0)})
	}
	for _, first := range []int{0, 1} { // a fresh bus and subscription id each time
		bus := ebu.New(ebu.WithStore(store), ebu.WithSubscriptionStore(ebu.NewMemoryStore()), ebu.WithUpcastErrorHandler(func(string, json.RawMessage, error) {}))
		ebu.RegisterUpcast(bus, func(a undecV1) undecV2 { return undecV2{ID: a.ID, Tag: "up"} })
		var got []int
		err := ebu.SubscribeWithReplay(ctx, bus, fmt.Sprintf("after-undecodable-%d", first), func(v undecV2) { got = append(got, v.ID) })
		want := "[1 3 4]"
		c.run.Case(fmt.Sprintf("typed-upcast-after-undecodable-record|%d", first), true)
		if err != nil || fmt.Sprint(got) != want {
			c.run.Violation("typename:typed-upcast-after-undecodable-record", fmt.Sprintf("log of four %q records, the second of which does not decode: SubscribeWithReplay of the upcast target received %v (err %v), the records the typed upcaster matches are %s", ebu.EventType(undecV1{}), got, err, want), nil)
		}
	}
}

// stamped names itself after a field that a before-publish hook fills in.
type stamped struct {
	N      int
	Tenant string
}

func (s *stamped) EventTypeName() string { return "c15.stamped/" + s.Tenant }

// hookStamped: the name a record is stored under is the name EventType reports for the event as it
// was stored - also when a before-publish hook completes the event first.
func hookStamped(c *caseCtx) {
	for _, ctxHook := range []bool{false, true} {
		store := ebu.NewMemoryStore()
		var opt ebu.Option
		if ctxHook {
			opt = ebu.WithBeforePublishContext(func(_ context.Context, _ reflect.Type, e any) {
				if s, ok := e.(*stamped); ok {
					s.Tenant = "acme"
				}
			})
		} else {
			opt = ebu.WithBeforePublish(func(_ reflect.Type, e any) {
				if s, ok := e.(*stamped); ok {
					s.Tenant = "acme"
				}
			})
		}
		bus := ebu.New(ebu.WithStore(store), opt)
		ev := &stamped{N: 7}
		ebu.Publish(bus, ev)
		evs, _, err := store.Read(context.Background(), ebu.OffsetOldest, 0)
		c.run.Case(fmt.Sprintf("persist-name|event completed by a before-publish hook|ctx%v", ctxHook), true)
		if err != nil || len(evs) != 1 {
			c.run.Violation("typename:persist-name:hook-completed-event", fmt.Sprintf("one publish left %d records (err %v)", len(evs), err), nil)
			continue
		}
		var back stamped
		json.Unmarshal(evs[0].Data, &back)
		if evs[0].Type != ebu.EventType(&back) {
			c.run.Violation("typename:persist-name:hook-completed-event", fmt.Sprintf("an event completed by a before-publish hook was stored as %s under the name %q; EventType reports %q for that event", evs[0].Data, evs[0].Type, ebu.EventType(&back)), nil)
		}
	}
}

type envelope[T any] struct {
	ID   int
	Body T
}
type envelopeV2 struct {
	ID   int
	Kind string
}

// blankNames: Go's own names for some perfectly ordinary event types contain blanks and punctuation
// ("map[string]interface {}", "c15.envelope[interface {}]"). They are persisted under those names,
// so typed upcast registrations and typed replay subscriptions have to accept and use them too.
func blankNames(c *caseCtx) {
	ctx := context.Background()
	bus := ebu.New(ebu.WithStore(ebu.NewMemoryStore()), ebu.WithSubscriptionStore(ebu.NewMemoryStore()))
	ebu.Publish(bus, envelope[any]{ID: 1, Body: "text"})
	ebu.Publish(bus, map[string]any{"ID": 2.0})
	ebu.Publish(bus, envelope[any]{ID: 3, Body: nil})
	err1 := ebu.RegisterUpcast(bus, func(e envelope[any]) envelopeV2 { return envelopeV2{ID: e.ID, Kind: "envelope"} })
	err2 := ebu.RegisterUpcast(bus, func(m map[string]any) envelopeV2 {
		id, _ := m["ID"].(float64)
		return envelopeV2{ID: int(id), Kind: "map"}
	})
	var got []string
	err3 := ebu.SubscribeWithReplay(ctx, bus, "blank-names", func(v envelopeV2) { got = append(got, fmt.Sprintf("%d:%s", v.ID, v.Kind)) })
	var same []int
	err4 := ebu.SubscribeWithReplay(ctx, bus, "blank-names-same-type", func(v envelope[any]) { same = append(same, v.ID) })
	c.run.Case("type names with blanks|typed upcast and replay subscription", true)
	if err1 != nil || err2 != nil || err3 != nil || fmt.Sprint(got) != "[1:envelope 2:map 3:envelope]" {
		c.run.Violation("typename:names-with-blanks", fmt.Sprintf("events persisted as %q and %q: RegisterUpcast returned %v / %v, SubscribeWithReplay of the target %v and received %v (want [1:envelope 2:map 3:envelope])", ebu.EventType(envelope[any]{}), ebu.EventType(map[string]any{}), err1, err2, err3, got), nil)
	}
	if err4 != nil || len(same) != 0 {
		// every stored envelope is upcast before it is matched: none is left for its own type
		c.run.Violation("typename:names-with-blanks", fmt.Sprintf("SubscribeWithReplay[%s] after the upcaster was registered returned %v and received %v (the stored envelopes are all upcast)", ebu.EventType(envelope[any]{}), err4, same), nil)
	}
}

type placedV1 struct{ ID int }
type cancelledV1 struct{ ID int }
type placedV2 struct {
	ID int
	V  int
}
type cancelledV2 struct {
	ID int
	V  int
}

// routedThenTyped: a raw upcaster converts one legacy stored name into events of two Go types (it
// names the type each event now carries); the typed upcasters registered for those two types are
// matched by that name, and so are the typed replay subscriptions of their targets.
func routedThenTyped(c *caseCtx) {
	ctx := context.Background()
	store := ebu.NewMemoryStore()
	for i, k := range []string{"placed", "cancelled", "cancelled", "placed"} {
		store.Append(ctx, &ebu.Event{Type: "c15.legacy-order-event", Data: json.RawMessage(fmt.Sprintf(`{"kind":%q,"ID":%d}`, k, i+1)), Timestamp: time.Unix(1, 0)})
	}
	bus := ebu.New(ebu.WithStore(store), ebu.WithSubscriptionStore(ebu.NewMemoryStore()))
	ebu.RegisterUpcastFunc(bus, "c15.legacy-order-event", ebu.EventType(placedV1{}), func(d json.RawMessage) (json.RawMessage, string, error) {
		var l struct {
			Kind string `json:"kind"`
			ID   int
		}
		json.Unmarshal(d, &l)
		if l.Kind == "cancelled" {
			out, _ := json.Marshal(cancelledV1{ID: l.ID})
			return out, ebu.EventType(cancelledV1{}), nil
		}
		out, _ := json.Marshal(placedV1{ID: l.ID})
		return out, ebu.EventType(placedV1{}), nil
	})
	ebu.RegisterUpcast(bus, func(p placedV1) placedV2 { return placedV2{ID: p.ID, V: 2} })
	ebu.RegisterUpcast(bus, func(p cancelledV1) cancelledV2 { return cancelledV2{ID: p.ID, V: 2} })
	ebu.Publish(bus, cancelledV1{ID: 5}) // one persisted directly under its own name
	var placed, cancelled []int
	e1 := ebu.SubscribeWithReplay(ctx, bus, "routed-placed", func(v placedV2) { placed = append(placed, v.ID) })
	e2 := ebu.SubscribeWithReplay(ctx, bus, "routed-cancelled", func(v cancelledV2) { cancelled = append(cancelled, v.ID) })
	c.run.Case("typed upcasters behind a routing raw upcaster", true)
	if e1 != nil || e2 != nil || fmt.Sprint(placed) != "[1 4]" || fmt.Sprint(cancelled) != "[2 3 5]" {
		c.run.Violation("typename:typed-upcast-after-routing-upcaster", fmt.Sprintf("legacy records routed by a raw upcaster to %q / %q, typed upcasters registered for both: the subscription of the placed target received %v (err %v, want [1 4]), that of the cancelled target %v (err %v, want [2 3 5])", ebu.EventType(placedV1{}), ebu.EventType(cancelledV1{}), placed, e1, cancelled, e2), nil)
	}
}

type shared struct{ ID int }

func (shared) EventTypeName() string { return "c15.one-name" }

type sharedTwin struct{ ID int }

func (sharedTwin) EventTypeName() string { return "c15.one-name" }

// oneNameSeveralTypes: a typed replay subscription selects stored events by the name of its type.
// Several Go types may have that name - the value and the pointer shape of a type that names itself,
// or two structs that agree on a name - and each of their subscriptions replays every event stored
// under it, in whatever order the subscriptions are made.
func oneNameSeveralTypes(c *caseCtx) {
	ctx := context.Background()
	for order := 0; order < 2; order++ {
		bus := ebu.New(ebu.WithStore(ebu.NewMemoryStore()), ebu.WithSubscriptionStore(ebu.NewMemoryStore()))
		ebu.Publish(bus, shared{1})
		ebu.Publish(bus, &shared{2})
		ebu.Publish(bus, sharedTwin{3})
		var val, ptr, twin []int
		subs := []func() error{
			func() error {
				return ebu.SubscribeWithReplay(ctx, bus, "by-value", func(e shared) { val = append(val, e.ID) })
			},
			func() error {
				return ebu.SubscribeWithReplay(ctx, bus, "by-pointer", func(e *shared) { ptr = append(ptr, e.ID) })
			},
			func() error {
				return ebu.SubscribeWithReplay(ctx, bus, "twin", func(e sharedTwin) { twin = append(twin, e.ID) })
			},
		}
		if order == 1 {
			subs[0], subs[2] = subs[2], subs[0]
		}
		var errs []error
		for _, f := range subs {
			errs = append(errs, f())
		}
		c.run.Case(fmt.Sprintf("one event name, several Go types|order%d", order), true)
		if fmt.Sprint(val) != "[1 2 3]" || fmt.Sprint(ptr) != "[1 2 3]" || fmt.Sprint(twin) != "[1 2 3]" || errs[0] != nil || errs[1] != nil || errs[2] != nil {
			c.run.Violation("typename:one-name-several-types", fmt.Sprintf("three events stored under %q (published as a value, as a pointer, and as a second struct with the same name); the replay subscriptions of the value type, the pointer type and the second struct received %v, %v, %v (want [1 2 3] each; errors %v)", ebu.EventType(shared{}), val, ptr, twin, errs), nil)
		}
	}
}

type versioned struct{ ID, V int }

func (v versioned) EventTypeName() string { return fmt.Sprintf("c15.versioned.v%d", v.V) }

// crossShape: shapes whose names differ must stay apart when they share one store, and a name that
// depends on the value is persisted per event.
func crossShape(c *caseCtx) {
	for _, kind := range []string{"memory", "sqlite-mem", "memory-paged"} {
		st, err := stores.Open(kind, c.scratch)
		if err != nil {
			panic(err)
		}
		ctx := context.Background()
		bus := ebu.New(ebu.WithStore(st.Store), ebu.WithSubscriptionStore(st.Sub))
		ebu.Publish(bus, plain{1})
		ebu.Publish(bus, &plain{2})
		ebu.Publish(bus, plain{3})
		ebu.Publish(bus, namedPtr{4})
		ebu.Publish(bus, &namedPtr{5})
		ebu.Publish(bus, versioned{ID: 6, V: 1})
		ebu.Publish(bus, versioned{ID: 7, V: 2})
		ebu.Publish(bus, versioned{ID: 8, V: 1})
		bus2 := ebu.New(ebu.WithStore(st.Store), ebu.WithSubscriptionStore(st.Sub))
		var byVal, byPtr, npVal, npPtr []int
		ebu.SubscribeWithReplay(ctx, bus2, "cs1", func(e plain) { byVal = append(byVal, e.ID) })
		ebu.SubscribeWithReplay(ctx, bus2, "cs2", func(e *plain) { byPtr = append(byPtr, e.ID) })
		ebu.SubscribeWithReplay(ctx, bus2, "cs3", func(e namedPtr) { npVal = append(npVal, e.ID) })
		ebu.SubscribeWithReplay(ctx, bus2, "cs4", func(e *namedPtr) { npPtr = append(npPtr, e.ID) })
		got := fmt.Sprint(byVal, byPtr, npVal, npPtr)
		want := "[1 3] [2] [4] [5]"
		c.run.Case("cross-shape-isolation|"+kind, true)
		if got != want {
			c.run.Violation("typename:cross-shape-isolation", fmt.Sprintf("store %s: value and pointer events of one struct share a store; SubscribeWithReplay for plain / *plain / namedPtr / *namedPtr received %s, want %s (each typed subscription selects exactly the events persisted under its EventType name)", kind, got, want), map[string]any{"store": kind})
		}
		evs, _, _ := st.Store.Read(ctx, ebu.OffsetOldest, 0)
		c.run.Case("value-dependent-name|"+kind, true)
		for i, w := range []string{"c15.versioned.v1", "c15.versioned.v2", "c15.versioned.v1"} {
			if len(evs) != 8 || evs[5+i].Type != w {
				c.run.Violation("typename:persist-name:value-dependent", fmt.Sprintf("store %s: an event whose EventTypeName depends on its value was persisted as %q, EventType reports %q", kind, evs[min(5+i, len(evs)-1)].Type, w), map[string]any{"store": kind})
				break
			}
		}
		st.Close()
	}
}
