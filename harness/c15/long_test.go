//go:build verif

package c15

import (
	"context"
	"fmt"
	"testing"

	ebu "github.com/jilio/ebu"

	"verif/harness/internal/evt"
	"verif/harness/internal/stores"
	"verif/harness/internal/vk"
)

// V is one revision of an event type per tag type: forty revisions, thirty-nine typed upcasts.
type V[Tag any] struct{ ID int }

func hop[A, B any](bus *ebu.EventBus) error {
	return ebu.RegisterUpcast(bus, func(a V[A]) V[B] { return V[B]{ID: a.ID + 1} })
}

// TestC15LongTypedChain: an event persisted under the name of the oldest of forty revisions is matched
// by the typed subscription of the newest one (and of one in the middle), through thirty-nine
// upcasters registered with RegisterUpcast — every hop uses the EventType name of its Go types.
func TestC15LongTypedChain(t *testing.T) {
	run := vk.New("C15", "long-typed-chain")
	defer run.Finish()
	scratch := t.TempDir()
	ctx := context.Background()
	for ki, kind := range []string{"memory", "sqlite-mem", "memory-paged", "sqlite-batch2"} {
		if !run.Mine(ki) {
			continue
		}
		st, err := stores.Open(kind, scratch)
		if err != nil {
			t.Fatal(err)
		}
		pub := ebu.New(ebu.WithStore(st.Store), ebu.WithSubscriptionStore(st.Sub))
		ebu.Publish(pub, V[evt.T00]{ID: 0})
		ebu.Publish(pub, V[evt.T20]{ID: 1000})
		ebu.Publish(pub, V[evt.T39]{ID: 5000})
		bus := ebu.New(ebu.WithStore(st.Store), ebu.WithSubscriptionStore(st.Sub))
		for i, herr := range []error{
			hop[evt.T00, evt.T01](bus),
			hop[evt.T01, evt.T02](bus),
			hop[evt.T02, evt.T03](bus),
			hop[evt.T03, evt.T04](bus),
			hop[evt.T04, evt.T05](bus),
			hop[evt.T05, evt.T06](bus),
			hop[evt.T06, evt.T07](bus),
			hop[evt.T07, evt.T08](bus),
			hop[evt.T08, evt.T09](bus),
			hop[evt.T09, evt.T10](bus),
			hop[evt.T10, evt.T11](bus),
			hop[evt.T11, evt.T12](bus),
			hop[evt.T12, evt.T13](bus),
			hop[evt.T13, evt.T14](bus),
			hop[evt.T14, evt.T15](bus),
			hop[evt.T15, evt.T16](bus),
			hop[evt.T16, evt.T17](bus),
			hop[evt.T17, evt.T18](bus),
			hop[evt.T18, evt.T19](bus),
			hop[evt.T19, evt.T20](bus),
			hop[evt.T20, evt.T21](bus),
			hop[evt.T21, evt.T22](bus),
			hop[evt.T22, evt.T23](bus),
			hop[evt.T23, evt.T24](bus),
			hop[evt.T24, evt.T25](bus),
			hop[evt.T25, evt.T26](bus),
			hop[evt.T26, evt.T27](bus),
			hop[evt.T27, evt.T28](bus),
			hop[evt.T28, evt.T29](bus),
			hop[evt.T29, evt.T30](bus),
			hop[evt.T30, evt.T31](bus),
			hop[evt.T31, evt.T32](bus),
			hop[evt.T32, evt.T33](bus),
			hop[evt.T33, evt.T34](bus),
			hop[evt.T34, evt.T35](bus),
			hop[evt.T35, evt.T36](bus),
			hop[evt.T36, evt.T37](bus),
			hop[evt.T37, evt.T38](bus),
			hop[evt.T38, evt.T39](bus),
		} {
			if herr != nil {
				t.Fatalf("hop %d: %v", i, herr)
			}
		}
		var newest []int
		if err := ebu.SubscribeWithReplay(ctx, bus, "newest", func(e V[evt.T39]) { newest = append(newest, e.ID) }); err != nil {
			run.Violation("typename:long-typed-chain", "SubscribeWithReplay: "+err.Error(), nil)
		}
		var names []string
		bus.ReplayWithUpcast(ctx, ebu.OffsetOldest, func(e *ebu.StoredEvent) error { names = append(names, e.Type); return nil })
		want := ebu.EventType(V[evt.T39]{})
		if fmt.Sprint(newest) != "[39 1019 5000]" || len(names) != 3 || names[0] != want || names[1] != want || names[2] != want {
			run.Violation("typename:long-typed-chain", fmt.Sprintf("store %s: events persisted as revisions 0, 20 and 39 of a type behind 39 typed upcasts: SubscribeWithReplay for the newest revision received %v (want [39 1019 5000]); ReplayWithUpcast handed them out as %v (want 3 x %q)", kind, newest, names, want), map[string]any{"store": kind})
		}
		run.Case("long-typed-chain|"+kind, true)
		st.Close()
	}
	run.Exhaustive(true)
}
