//go:build verif

// C02 — Subscribe, unsubscribe and publish stay consistent under every interleaving.
// (a) gate scenarios: a publisher parked at a user-code yield point while another complete
// operation runs; (b) stress: many short concurrent histories with noise. Both are judged by the
// interval oracle of internal/conc on the recorded history.
package c02

import (
	"context"
	"fmt"
	"math/rand/v2"
	"os"
	"reflect"
	"runtime"
	"strings"
	"sync"
	"testing"
	"time"
	"verif/harness/internal/watchdog"

	ebu "github.com/jilio/ebu"

	"verif/harness/internal/conc"
	"verif/harness/internal/evt"
	"verif/harness/internal/vk"
)

func quiesce(w *conc.World, nTypes int) *conc.Quiescent {
	w.Bus.Wait()
	q := &conc.Quiescent{Counts: map[int]int{}, Probe: map[int]uint64{}}
	for t := 0; t < nTypes; t++ {
		q.Counts[t] = w.Drivers[t].Count(w.Bus)
	}
	for t := 0; t < nTypes; t++ {
		id := w.NextEID()
		if id%2 == 1 {
			id = w.NextEID()
		}
		q.Probe[t] = id
		w.PublishID(99, t, nil, id)
	}
	w.Bus.Wait()
	return q
}

func TestC02Stress(t *testing.T) {
	run := vk.New("C02", "stress")
	defer run.Finish()
	if err := evt.SelfTest(); err != nil {
		t.Fatal(err)
	}
	all := evt.Drivers()
	n := run.Scale(1500, 25000)
	procs := []int{1, 2, 4, 16}
	defer runtime.GOMAXPROCS(runtime.GOMAXPROCS(0))
	var cur string
	dog := watchdog.Start(20*time.Second, func(v watchdog.Verdict) {
		if !v.Deadlock {
			run.Count("watchdog_slow_windows", 1)
			return
		}
		run.Violation("stress:hang", "the workload / the quiescent probe stopped making progress with goroutines parked below ebu frames: "+cur, map[string]any{"case": cur, "dump": v.Dump[:min(len(v.Dump), 20000)]})
		run.Finish()
		watchdog.Exit()
	})
	defer dog.Stop()
	for i := 0; i < n; i++ {
		rng := run.Rand(uint64(i))
		cur = fmt.Sprintf("history %d", i)
		dog.Tick()
		runtime.GOMAXPROCS(procs[i%len(procs)])
		w, plans, nT := conc.StressHistory(rng, all, true)
		G := len(plans)
		q := quiesce(w, nT)
		h := conc.Index(w.Log)
		fs := conc.CheckIntervals(w, h, q, w.Cancelled)
		for _, f := range fs {
			run.Violation(f.Sig, f.Desc, map[string]any{"case": i, "gomaxprocs": procs[i%len(procs)], "plans": plans, "history": w.Log})
		}
		sig, mut := conc.OverlapSignature(w.Log)
		run.Case(fmt.Sprintf("G%d|%s", G, sig), mut)
		run.SetAdd("interleaving_signatures", sig)
		run.Count("history_events", int64(len(w.Log)))
		run.Count("deliveries", int64(len(h.Deliv)))
		if mut {
			run.Count("histories_with_mutation_overlapping_publish", 1)
		}
		if i < 1 && run.Shard == 0 {
			run.Sample(map[string]any{"plans": plans, "history_len": len(w.Log), "overlaps": sig})
		}
	}
}

// ---------------------------------------------------------------------------------------------
// gate scenarios

type gateCtl struct {
	point   string
	reg     int // registration id to park at (0: hook points)
	eid     uint64
	nth     int // for "hstart": park at the n-th OnHandlerStart of the target publish
	seen    int
	parked  chan struct{}
	release chan struct{}
	once    sync.Once
	mu      sync.Mutex
}

func (g *gateCtl) gate(point string, reg int, eid uint64) {
	if point != g.point || eid != g.eid {
		return
	}
	if g.point == "hstart" {
		g.mu.Lock()
		g.seen++
		hit := g.seen == g.nth
		g.mu.Unlock()
		if !hit {
			return
		}
	} else if reg != g.reg {
		return
	}
	fired := false
	g.once.Do(func() { fired = true })
	if !fired {
		return
	}
	close(g.parked)
	<-g.release
}

type gateObs struct {
	w *conc.World
}

type eidKey struct{}

func (o *gateObs) OnPublishStart(ctx context.Context, _ string, ev any) context.Context {
	for _, d := range o.w.Drivers {
		if id, ok := d.IDOf(ev); ok && reflect.TypeOf(ev) == d.RType() {
			return context.WithValue(ctx, eidKey{}, id)
		}
	}
	return ctx
}
func (o *gateObs) OnPublishComplete(context.Context, string) {}
func (o *gateObs) OnHandlerStart(ctx context.Context, _ string, _ bool) context.Context {
	if id, ok := ctx.Value(eidKey{}).(uint64); ok && o.w.Gate != nil {
		o.w.Gate("hstart", 0, id)
	}
	return ctx
}
func (o *gateObs) OnHandlerComplete(context.Context, time.Duration, error)               {}
func (o *gateObs) OnPersistStart(ctx context.Context, _ string, _ int64) context.Context { return ctx }
func (o *gateObs) OnPersistComplete(context.Context, time.Duration, error)               {}

func TestC02Gates(t *testing.T) {
	run := vk.New("C02", "gates")
	defer run.Finish()
	all := evt.Drivers()
	kinds := []string{"plain", "once", "async", "filtered"}
	interposed := []string{"sub", "unsub0", "unsub1", "unsub2", "clear", "clearall", "pub-same", "pub-other", "count"}
	points := []string{"before", "filter", "hstart", "body", "after"}
	idx := 0
	notReached := 0
	// handler lists of length 3 over kinds (4^3 = 64), park position 0..2
	for l := 0; l < 64; l++ {
		list := []string{kinds[l%4], kinds[(l/4)%4], kinds[(l/16)%4]}
		for _, point := range points {
			for pos := 0; pos < 3; pos++ {
				if (point == "before" || point == "after") && pos > 0 {
					continue
				}
				if point == "filter" && list[pos] != "filtered" {
					continue
				}
				for _, ip := range interposed {
					idx++
					if !run.Mine(idx) {
						continue
					}
					if !run.Thorough() && idx%3 != int(run.Seed%3) {
						continue // quick: a seed-determined third of the grid
					}
					drivers := conc.SameShardTypes(all, 2, uint64(idx))
					var w *conc.World
					obs := &gateObs{}
					w = conc.NewWorld(drivers, uint64(idx), true,
						ebu.WithObservability(obs),
						ebu.WithBeforePublish(func(_ reflect.Type, ev any) {
							if id, ok := drivers[0].IDOf(ev); ok && w.Gate != nil {
								w.Gate("before", 0, id)
							}
						}),
						ebu.WithAfterPublish(func(_ reflect.Type, ev any) {
							if id, ok := drivers[0].IDOf(ev); ok && w.Gate != nil {
								w.Gate("after", 0, id)
							}
						}))
					obs.w = w
					regs := make([]*conc.Reg, 3)
					for k, kind := range list {
						regs[k] = &conc.Reg{T: 0, Class: k, Once: kind == "once", Async: kind == "async", Filter: kind == "filtered"}
						w.Subscribe(90, regs[k])
					}
					other := &conc.Reg{T: 1, Class: 0}
					w.Subscribe(90, other)
					target := uint64(2) // even: accepted by filters
					for w.NextEID() < 10 {
					}
					ctl := &gateCtl{point: point, eid: target, parked: make(chan struct{}), release: make(chan struct{})}
					switch point {
					case "filter", "body":
						ctl.reg = regs[pos].ID
					case "hstart":
						ctl.nth = pos + 1
					}
					w.Gate = ctl.gate
					done := make(chan struct{})
					go func() {
						w.PublishID(0, 0, context.Background(), target)
						w.Bus.Wait()
						close(done)
					}()
					reached := false
					select {
					case <-ctl.parked:
						reached = true
					case <-done:
					}
					if reached {
						switch ip {
						case "sub":
							w.Subscribe(1, &conc.Reg{T: 0, Class: 5})
						case "unsub0", "unsub1", "unsub2":
							w.Unsubscribe(1, regs[int(ip[5]-'0')])
						case "clear":
							w.Clear(1, 0)
						case "clearall":
							w.ClearAll(1)
						case "pub-same":
							w.PublishID(1, 0, context.Background(), 4)
						case "pub-other":
							w.PublishID(1, 1, context.Background(), 6)
						case "count":
							w.Count(1, 0)
						}
						close(ctl.release)
						<-done
					}
					w.Gate = nil
					q := quiesce(w, 2)
					h := conc.Index(w.Log)
					for _, f := range conc.CheckIntervals(w, h, q, nil) {
						run.Violation("gate:"+f.Sig, f.Desc, map[string]any{"list": list, "point": point, "pos": pos, "interposed": ip, "history": w.Log})
					}
					sig := fmt.Sprintf("%v|%s@%d|%s", list, point, pos, ip)
					if !reached {
						notReached++
						run.Case(sig, false)
						continue
					}
					run.Case(sig, true)
					run.Count("gate_scenarios_reached", 1)
					if run.WantSample() && idx%97 == 0 {
						run.Sample(map[string]any{"handlers": list, "parked_at": fmt.Sprintf("%s of handler %d", point, pos), "interposed": ip, "history": w.Log})
					}
				}
			}
		}
	}
	run.Count("gate_scenarios_gate_not_reached", int64(notReached))
	run.Count("gate_grid_size", int64(idx))
	_ = rand.Int
	_ = os.Getenv
}

// TestC02UnsubStorm: 18 registrations of one type (every handler class), removed concurrently by 2-3
// goroutines from a barrier while a publisher runs: every Unsubscribe must find exactly its own
// registration — the lookup and the removal have no user code between them, so only repetition
// reaches that window.
func TestC02UnsubStorm(t *testing.T) {
	run := vk.New("C02", "unsubscribe-storm")
	defer run.Finish()
	all := evt.Drivers()
	n := run.Scale(1500, 40000)
	procs := []int{2, 4, 16, 3}
	defer runtime.GOMAXPROCS(runtime.GOMAXPROCS(0))
	for i := 0; i < n; i++ {
		rng := run.Rand(uint64(i))
		runtime.GOMAXPROCS(procs[i%len(procs)])
		w := conc.NewWorld(conc.SameShardTypes(all, 1, rng.Uint64()), rng.Uint64(), true)
		w.NoisePct = 0
		var regs []*conc.Reg
		for c := 0; c < evt.NumPlain; c++ {
			regs = append(regs, &conc.Reg{T: 0, Class: c})
		}
		for c := 0; c < evt.NumCtx; c++ {
			regs = append(regs, &conc.Reg{T: 0, Class: c, Ctx: true})
		}
		rng.Shuffle(len(regs), func(a, b int) { regs[a], regs[b] = regs[b], regs[a] })
		for _, r := range regs {
			w.Subscribe(90, r)
		}
		G := 2 + rng.IntN(2)
		var wg sync.WaitGroup
		start := make(chan struct{})
		for g := 0; g < G; g++ {
			var mine []*conc.Reg
			for k, r := range regs {
				if k%G == g {
					mine = append(mine, r)
				}
			}
			wg.Add(1)
			go func(g int, mine []*conc.Reg) {
				defer wg.Done()
				<-start
				for _, r := range mine {
					w.Unsubscribe(g, r)
				}
			}(g, mine)
		}
		wg.Add(1)
		go func() {
			defer wg.Done()
			<-start
			for k := 0; k < 3; k++ {
				w.Publish(50, 0, nil)
			}
		}()
		close(start)
		wg.Wait()
		q := quiesce(w, 1)
		h := conc.Index(w.Log)
		for _, f := range conc.CheckIntervals(w, h, q, nil) {
			run.Violation("storm:"+f.Sig, f.Desc, map[string]any{"case": i, "goroutines": G, "gomaxprocs": procs[i%len(procs)], "history": w.Log})
		}
		// first use of a fresh bus from several goroutines at once (same routing shard): no successful
		// subscription may be lost
		{
			fw := conc.NewWorld(conc.SameShardTypes(all, 3, rng.Uint64()), rng.Uint64(), true)
			fw.NoisePct = 0
			var fwg sync.WaitGroup
			go1 := make(chan struct{})
			for g := 0; g < 4; g++ {
				fwg.Add(1)
				go func(g int) {
					defer fwg.Done()
					<-go1
					if g == 3 {
						fw.Has(g, 0)
						fw.Publish(g, 1, nil)
						return
					}
					fw.Subscribe(g, &conc.Reg{T: g, Class: 0})
				}(g)
			}
			close(go1)
			fwg.Wait()
			fq := quiesce(fw, 3)
			for _, f := range conc.CheckIntervals(fw, conc.Index(fw.Log), fq, nil) {
				run.Violation("first-use:"+f.Sig, f.Desc, map[string]any{"case": i, "gomaxprocs": procs[i%len(procs)], "history": fw.Log})
			}
			run.Count("first_use_rounds", 1)
		}
		sig, _ := conc.OverlapSignature(w.Log)
		ov := strings.Contains(sig, "unsub~unsub")
		run.Case(fmt.Sprintf("G%d ov%v p%d", G, ov, procs[i%len(procs)]), ov)
		if ov {
			run.Count("rounds_with_overlapping_unsubscribes", 1)
		}
		if i == 0 {
			run.Sample(map[string]any{"goroutines": G, "registrations": len(regs), "overlaps": sig})
		}
	}
}

// ---------------------------------------------------------------------------------------------
// scheduled interleavings: 2-3 publishers advanced one user-code yield point at a time by a
// controller that also runs complete registry operations in between — a serial schedule chosen by
// the PRNG, i.e. one interleaving at yield-point granularity per case, reproducible from the seed.

type schedWorker struct {
	id      int
	eid     uint64
	release chan struct{}
	done    bool
}

type schedMsg struct {
	w      *schedWorker
	point  string
	finish bool
}

func TestC02Schedules(t *testing.T) {
	run := vk.New("C02", "schedules")
	defer run.Finish()
	all := evt.Drivers()
	n := run.Scale(2500, 80000)
	for i := 0; i < n; i++ {
		rng := run.Rand(uint64(i))
		drivers := conc.SameShardTypes(all, 2, rng.Uint64())
		var w *conc.World
		obs := &gateObs{}
		idOf := func(ev any) (uint64, bool) {
			for _, d := range drivers {
				if reflect.TypeOf(ev) == d.RType() {
					return d.IDOf(ev)
				}
			}
			return 0, false
		}
		w = conc.NewWorld(drivers, uint64(i), true,
			ebu.WithObservability(obs),
			ebu.WithBeforePublish(func(_ reflect.Type, ev any) {
				if id, ok := idOf(ev); ok && w.Gate != nil {
					w.Gate("before", 0, id)
				}
			}),
			ebu.WithAfterPublishContext(func(_ context.Context, _ reflect.Type, ev any) {
				if id, ok := idOf(ev); ok && w.Gate != nil {
					w.Gate("after", 0, id)
				}
			}))
		obs.w = w
		// registry: 2-4 synchronous handlers per type (plain / once / filtered / context-aware)
		alloc := map[[2]int]int{}
		mk := func(tt int) *conc.Reg {
			ctxAware := rng.IntN(4) == 0
			k := [2]int{tt, 0}
			if ctxAware {
				k[1] = 1
			}
			if ctxAware && alloc[k] >= evt.NumCtx {
				ctxAware, k = false, [2]int{tt, 0} // out of context-handler classes: a plain one
			}
			if !ctxAware && alloc[k] >= evt.NumPlain {
				return nil // out of classes for this type
			}
			c := alloc[k]
			alloc[k] = c + 1
			return &conc.Reg{T: tt, Class: c, Ctx: ctxAware, Once: rng.IntN(3) == 0, Filter: rng.IntN(3) == 0}
		}
		var pre []*conc.Reg
		for tt := 0; tt < 2; tt++ {
			for k := 2 + rng.IntN(3); k > 0; k-- {
				if r := mk(tt); r != nil {
					pre = append(pre, r)
					w.Subscribe(90, r)
				}
			}
		}
		for w.NextEID() < 20 {
		}
		// workers
		W := 2 + rng.IntN(2)
		msgs := make(chan schedMsg)
		workers := make([]*schedWorker, W)
		byEID := map[uint64]*schedWorker{}
		for k := range workers {
			wk := &schedWorker{id: k, eid: uint64(2 * (k + 1)), release: make(chan struct{})} // even ids: accepted by filters
			if rng.IntN(4) == 0 {
				wk.eid++ // an odd id: rejected by the filtered handlers
			}
			workers[k] = wk
			byEID[wk.eid] = wk
		}
		w.Gate = func(point string, reg int, eid uint64) {
			wk := byEID[eid]
			if wk == nil {
				return
			}
			msgs <- schedMsg{w: wk, point: point}
			<-wk.release
		}
		cancelled := map[uint64]bool{}
		for _, wk := range workers {
			wk := wk
			tt := rng.IntN(2)
			dead := rng.IntN(6) == 0
			if dead {
				cancelled[wk.eid] = true
			}
			go func() {
				msgs <- schedMsg{w: wk, point: "start"}
				<-wk.release
				var ctx context.Context = context.Background()
				if dead {
					c, cancel := context.WithCancel(ctx)
					cancel()
					ctx = c
				}
				w.PublishID(wk.id, tt, &conc.NoisyCtx{Context: ctx, W: w, EID: wk.eid}, wk.eid)
				msgs <- schedMsg{w: wk, finish: true}
			}()
		}
		parked := map[*schedWorker]bool{}
		for range workers {
			m := <-msgs
			parked[m.w] = true
		}
		// registry operations the controller interposes
		nOps := 1 + rng.IntN(5)
		var sched []string
		live := W
		for live > 0 || nOps > 0 {
			if nOps > 0 && (live == 0 || rng.IntN(3) == 0) {
				nOps--
				tt := rng.IntN(2)
				switch x := rng.IntN(10); {
				case x < 4:
					if r := mk(tt); r != nil {
						w.Subscribe(80, r)
						sched = append(sched, "sub")
					}
				case x < 8 && len(pre) > 0:
					j := rng.IntN(len(pre))
					w.Unsubscribe(80, pre[j])
					pre = append(pre[:j], pre[j+1:]...)
					sched = append(sched, "unsub")
				case x < 9:
					w.Clear(80, tt)
					sched = append(sched, "clear")
				default:
					w.Count(80, tt)
					sched = append(sched, "count")
				}
				continue
			}
			// advance one parked publisher to its next yield point
			var cand []*schedWorker
			for _, wk := range workers {
				if parked[wk] && !wk.done {
					cand = append(cand, wk)
				}
			}
			wk := cand[rng.IntN(len(cand))]
			parked[wk] = false
			wk.release <- struct{}{}
			m := <-msgs
			if m.finish {
				m.w.done = true
				live--
				sched = append(sched, fmt.Sprintf("w%d.", m.w.id))
			} else {
				parked[m.w] = true
				sched = append(sched, fmt.Sprintf("w%d@%s", m.w.id, m.point))
			}
		}
		w.Gate = nil
		q := quiesce(w, 2)
		h := conc.Index(w.Log)
		for _, f := range conc.CheckIntervals(w, h, q, cancelled) {
			run.Violation("schedule:"+f.Sig, f.Desc, map[string]any{"case": i, "schedule": sched, "history": w.Log})
		}
		_, mut := conc.OverlapSignature(w.Log)
		run.Case(strings.Join(sched, " "), mut)
		run.Count("schedule_steps", int64(len(sched)))
		if i == 0 {
			run.Sample(map[string]any{"schedule": sched, "publishers": W})
		}
	}
}
