// Package conc is the concurrent-history harness: goroutines drive the real bus while every API
// call (call / return stamps) and every callback the bus makes (filter, handler enter / exit,
// hooks) is stamped by one logical clock. Oracles are evaluated offline on the recorded history and
// use only the fact "A returned before B was called" (A.ret < B.call).
package conc

import (
	"context"
	"math/rand/v2"
	"runtime"
	"sync"
	"sync/atomic"
	"time"

	ebu "github.com/jilio/ebu"

	"verif/harness/internal/evt"
)

// Reg is a registration made by a workload.
type Reg struct {
	ID     int  `json:"id"`
	T      int  `json:"t"`
	Class  int  `json:"class"`
	Ctx    bool `json:"ctx,omitempty"`
	Once   bool `json:"once,omitempty"`
	Async  bool `json:"async,omitempty"`
	Seq    bool `json:"seq,omitempty"`
	Filter bool `json:"filter_even,omitempty"` // accepts even event ids only

	inBody atomic.Int32
	Body   func(w *World, r *Reg, ctx context.Context, eid uint64) `json:"-"`
}

// Ev is one record of the history.
type Ev struct {
	St   uint64 `json:"st"`             // stamp (return stamp for API calls)
	Call uint64 `json:"call,omitempty"` // call stamp for API calls
	G    int    `json:"g"`              // workload goroutine (-1: callback on an unknown goroutine)
	K    string `json:"k"`
	T    int    `json:"t,omitempty"`
	Reg  int    `json:"reg,omitempty"`
	EID  uint64 `json:"eid,omitempty"`
	Res  int    `json:"res,omitempty"` // result (count, 1 = error / true ...)
	Par  uint64 `json:"par,omitempty"` // nested publish: event id being handled by the publishing handler
}

// World is one bus under a concurrent workload.
type World struct {
	Bus     *ebu.EventBus
	Drivers []evt.Driver
	Record  bool // false: recorder-free race-hunting mode (callbacks touch only local state)

	mu    sync.Mutex
	clock uint64
	Log   []Ev

	noiseSeed uint64
	noiseCtr  atomic.Uint64
	NoisePct  int // percentage of yield points at which noise is injected

	eid atomic.Uint64

	regMu sync.Mutex
	Regs  []*Reg

	Gate func(point string, reg int, eid uint64) // deterministic window scenarios; nil in stress runs

	cmu       sync.Mutex
	Cancelled map[uint64]bool // publishes made with an already cancelled context (no delivery owed)
}

var deadCtx = func() context.Context { c, cancel := context.WithCancel(context.Background()); cancel(); return c }()

// expiredCtx has ended through a deadline in the past (Err() == DeadlineExceeded).
var expiredCtx = func() context.Context {
	c, cancel := context.WithDeadline(context.Background(), time.Unix(1, 0))
	_ = cancel
	<-c.Done()
	return c
}()

// PublishCancelled publishes a fresh event of type t with a context that has already ended
// (cancelled for odd event ids, deadline expired for even ones).
func (w *World) PublishCancelled(g, t int) uint64 {
	id := w.NextEID()
	w.cmu.Lock()
	if w.Cancelled == nil {
		w.Cancelled = map[uint64]bool{}
	}
	w.Cancelled[id] = true
	w.cmu.Unlock()
	dead := deadCtx
	if id%2 == 0 {
		dead = expiredCtx
	}
	return w.PublishID(g, t, &NoisyCtx{Context: dead, W: w, EID: id}, id)
}

// NewWorld creates a world over the given drivers; opts are extra bus options.
func NewWorld(drivers []evt.Driver, seed uint64, record bool, opts ...ebu.Option) *World {
	w := &World{Drivers: drivers, Record: record, noiseSeed: seed, NoisePct: 35}
	w.Bus = ebu.New(opts...)
	if seed%4 == 1 {
		// a subscriber for the empty interface type (it only ever receives events whose own type is
		// that): to every other type's registry it is a bystander
		ebu.Subscribe(w.Bus, func(any) {})
	}
	return w
}

// Tick returns a fresh stamp (0 in recorder-free mode: no synchronisation of the harness's own).
func (w *World) Tick() uint64 {
	if !w.Record {
		return 0
	}
	w.mu.Lock()
	w.clock++
	c := w.clock
	w.mu.Unlock()
	return c
}

// Rec appends a stamped record and returns its stamp.
func (w *World) Rec(e Ev) uint64 {
	if !w.Record {
		return 0
	}
	w.mu.Lock()
	w.clock++
	e.St = w.clock
	w.Log = append(w.Log, e)
	w.mu.Unlock()
	return e.St
}

// NextEID allocates an event id.
func (w *World) NextEID() uint64 { return w.eid.Add(1) }

// Noise is called at every yield point: a PRNG-chosen Gosched / spin / short sleep.
func (w *World) Noise() {
	if !w.Record {
		// recorder-free (race-hunting) mode: the runtime's per-thread PRNG, no atomics
		switch x := rand.Uint32() % 100; {
		case int(x) >= w.NoisePct:
		case x%3 == 0:
			time.Sleep(time.Duration(x%30+1) * time.Microsecond)
		default:
			runtime.Gosched()
		}
		return
	}
	n := w.noiseCtr.Add(1)
	x := (n*0x9E3779B97F4A7C15 ^ w.noiseSeed) * 0xBF58476D1CE4E5B9
	x ^= x >> 31
	r := int(x % 100)
	if r >= w.NoisePct {
		return
	}
	switch {
	case r < w.NoisePct*6/10:
		runtime.Gosched()
	case r < w.NoisePct*9/10:
		k := int((x>>8)%400) + 20
		s := 0
		for i := 0; i < k; i++ {
			s += i
		}
		_ = s
		runtime.Gosched()
	default:
		time.Sleep(time.Duration((x>>8)%40+1) * time.Microsecond)
	}
}

func (w *World) yield(point string, reg int, eid uint64) {
	if w.Gate != nil {
		w.Gate(point, reg, eid)
		return
	}
	w.Noise()
}

// EndBody is called by a Body that is about to panic (the normal exit bookkeeping will not run).
func (r *Reg) EndBody() { r.inBody.Add(-1) }

// Subscribe registers r (allocating its id) and records the call.
func (w *World) Subscribe(g int, r *Reg) error {
	w.regMu.Lock()
	r.ID = len(w.Regs) + 1
	w.Regs = append(w.Regs, r)
	w.regMu.Unlock()
	o := evt.SubOpts{Once: r.Once, Async: r.Async, Seq: r.Seq}
	if r.Filter {
		o.Filter = func(id uint64) bool {
			w.yield("filter", r.ID, id)
			return id%2 == 0
		}
	}
	cb := func(ctx context.Context, id uint64, ok bool) {
		if !w.Record {
			w.yield("body", r.ID, id)
			if r.Body != nil {
				r.Body(w, r, ctx, id)
			}
			return
		}
		if n := r.inBody.Add(1); n > 1 && r.Seq {
			w.Rec(Ev{G: -1, K: "seq.overlap", Reg: r.ID, EID: id})
		}
		res := 0
		if !ok {
			res = 1
		}
		w.Rec(Ev{G: -1, K: "h.enter", Reg: r.ID, T: r.T, EID: id, Res: res})
		w.yield("body", r.ID, id)
		if r.Body != nil {
			r.Body(w, r, ctx, id)
		}
		w.Rec(Ev{G: -1, K: "h.exit", Reg: r.ID, T: r.T, EID: id})
		r.inBody.Add(-1)
	}
	call := w.Tick()
	err := w.Drivers[r.T].Subscribe(w.Bus, r.Class, r.Ctx, o, cb)
	res := 0
	if err != nil {
		res = 1
	}
	w.Rec(Ev{G: g, K: "sub", Call: call, Reg: r.ID, T: r.T, Res: res})
	return err
}

// Unsubscribe removes r by its class.
func (w *World) Unsubscribe(g int, r *Reg) error {
	call := w.Tick()
	err := w.Drivers[r.T].Unsubscribe(w.Bus, r.Class, r.Ctx)
	res := 0
	if err != nil {
		res = 1
	}
	w.Rec(Ev{G: g, K: "unsub", Call: call, Reg: r.ID, T: r.T, Res: res})
	return err
}

// Clear clears type t.
func (w *World) Clear(g, t int) {
	call := w.Tick()
	w.Drivers[t].Clear(w.Bus)
	w.Rec(Ev{G: g, K: "clear", Call: call, T: t})
}

// ClearAll clears every type.
func (w *World) ClearAll(g int) {
	call := w.Tick()
	ebu.ClearAll(w.Bus)
	w.Rec(Ev{G: g, K: "clearall", Call: call})
}

// Publish publishes a fresh event of type t (ctx == nil: Publish, else PublishContext).
func (w *World) Publish(g, t int, ctx context.Context) uint64 {
	return w.PublishID(g, t, ctx, w.NextEID())
}

// PublishID publishes event id.
func (w *World) PublishID(g, t int, ctx context.Context, id uint64) uint64 {
	return w.PublishNested(g, t, ctx, id, 0, 0)
}

// PublishNested publishes from inside a handler (parent registration / event recorded).
func (w *World) PublishNested(g, t int, ctx context.Context, id uint64, parReg int, parEID uint64) uint64 {
	call := w.Rec(Ev{G: g, K: "pub.call", T: t, EID: id, Reg: parReg, Par: parEID})
	if !w.Record {
		call = 0
	}
	if ctx == nil {
		w.Drivers[t].Publish(w.Bus, id)
	} else {
		w.Drivers[t].PublishContext(w.Bus, ctx, id)
	}
	w.Rec(Ev{G: g, K: "pub", Call: call, T: t, EID: id, Reg: parReg, Par: parEID})
	return id
}

// Count records HandlerCount.
func (w *World) Count(g, t int) int {
	call := w.Tick()
	n := w.Drivers[t].Count(w.Bus)
	w.Rec(Ev{G: g, K: "count", Call: call, T: t, Res: n})
	return n
}

// Has records HasHandlers.
func (w *World) Has(g, t int) bool {
	call := w.Tick()
	b := w.Drivers[t].Has(w.Bus)
	n := 0
	if b {
		n = 1
	}
	w.Rec(Ev{G: g, K: "has", Call: call, T: t, Res: n})
	return b
}

// Wait records bus.Wait.
func (w *World) Wait(g int) {
	call := w.Tick()
	w.Bus.Wait()
	w.Rec(Ev{G: g, K: "wait", Call: call})
}

// Shutdown records bus.Shutdown with an unbounded context as a wait (same obligations when it returns nil).
func (w *World) Shutdown(g int) error {
	call := w.Tick()
	err := w.Bus.Shutdown(context.Background())
	if err == nil {
		w.Rec(Ev{G: g, K: "wait", Call: call, Res: 1})
	}
	return err
}

// SameShardTypes returns up to n driver indices that share one routing shard (falls back on
// arbitrary types when no shard holds n).
func SameShardTypes(all []evt.Driver, n int, pick uint64) []evt.Driver {
	by := map[int][]evt.Driver{}
	for _, d := range all {
		by[d.Shard()] = append(by[d.Shard()], d)
	}
	var groups [][]evt.Driver
	for s := 0; s < 32; s++ {
		if len(by[s]) >= 2 {
			groups = append(groups, by[s])
		}
	}
	g := groups[int(pick%uint64(len(groups)))]
	out := append([]evt.Driver{}, g...)
	if len(out) > n {
		out = out[:n]
	}
	for i := 0; len(out) < n; i++ {
		d := all[int((pick+uint64(i)*7)%uint64(len(all)))]
		dup := false
		for _, x := range out {
			if x == d {
				dup = true
			}
		}
		if !dup {
			out = append(out, d)
		}
	}
	return out
}

// NoisyCtx wraps a context so that the bus's calls to Done / Err — user code, like any other
// callback — become yield points (noise in stress runs, gates in scenarios).
type NoisyCtx struct {
	context.Context
	W   *World
	EID uint64
}

func (c *NoisyCtx) Done() <-chan struct{} {
	c.W.yield("ctx.done", 0, c.EID)
	return c.Context.Done()
}

func (c *NoisyCtx) Err() error {
	c.W.yield("ctx.err", 0, c.EID)
	return c.Context.Err()
}
