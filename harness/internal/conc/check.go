package conc

import (
	"fmt"
	"sort"
)

// Finding is one oracle failure.
type Finding struct{ Sig, Desc string }

type opIv struct {
	call, ret uint64
	res       int
	ok        bool
}

// History is the indexed form of a recorded log.
type History struct {
	Sub    map[int]opIv // by reg id
	Unsub  map[int]opIv
	Clears []struct {
		T         int // -1 = ClearAll
		Call, Ret uint64
	}
	Pubs map[uint64]struct {
		T         int
		Call, Ret uint64
		G         int
	}
	Deliv   map[[2]uint64]int // (reg, eid) -> invocations
	Enter   map[[2]uint64][]uint64
	Exit    map[[2]uint64][]uint64
	BadVal  int
	Overlap []Ev
	Waits   []opIv
}

// Index builds a History from the log.
func Index(log []Ev) *History {
	h := &History{Sub: map[int]opIv{}, Unsub: map[int]opIv{}, Deliv: map[[2]uint64]int{}, Enter: map[[2]uint64][]uint64{}, Exit: map[[2]uint64][]uint64{},
		Pubs: map[uint64]struct {
			T         int
			Call, Ret uint64
			G         int
		}{}}
	for _, e := range log {
		switch e.K {
		case "sub":
			h.Sub[e.Reg] = opIv{e.Call, e.St, e.Res, true}
		case "unsub":
			h.Unsub[e.Reg] = opIv{e.Call, e.St, e.Res, true}
		case "clear":
			h.Clears = append(h.Clears, struct {
				T         int
				Call, Ret uint64
			}{e.T, e.Call, e.St})
		case "clearall":
			h.Clears = append(h.Clears, struct {
				T         int
				Call, Ret uint64
			}{-1, e.Call, e.St})
		case "pub":
			h.Pubs[e.EID] = struct {
				T         int
				Call, Ret uint64
				G         int
			}{e.T, e.Call, e.St, e.G}
		case "h.enter":
			k := [2]uint64{uint64(e.Reg), e.EID}
			h.Deliv[k]++
			h.Enter[k] = append(h.Enter[k], e.St)
			if e.Res != 0 {
				h.BadVal++
			}
		case "h.exit":
			k := [2]uint64{uint64(e.Reg), e.EID}
			h.Exit[k] = append(h.Exit[k], e.St)
		case "seq.overlap":
			h.Overlap = append(h.Overlap, e)
		case "wait":
			h.Waits = append(h.Waits, opIv{e.Call, e.St, 0, true})
		}
	}
	return h
}

// Quiescent is what was observed after every goroutine finished and bus.Wait returned.
type Quiescent struct {
	Counts map[int]int    // HandlerCount per type, read before the probes
	Probe  map[int]uint64 // probe event id per type (even: accepted by every filter)
}

// CheckIntervals evaluates the C02 statement literally on a recorded history. cancelled lists
// publishes whose context was not live (no MUST obligations from them).
func CheckIntervals(w *World, h *History, q *Quiescent, cancelled map[uint64]bool) []Finding {
	var out []Finding
	add := func(sig, f string, a ...any) { out = append(out, Finding{sig, fmt.Sprintf(f, a...)}) }
	if h.BadVal > 0 {
		add("interval:wrong-value", "%d deliveries carried a value different from the published one", h.BadVal)
	}
	probe := map[uint64]bool{}
	if q != nil {
		for _, id := range q.Probe {
			probe[id] = true
		}
	}
	total := map[int]int{}      // non-probe deliveries per reg
	firstBy := map[int]uint64{} // a non-probe publish that delivered to reg
	for k, n := range h.Deliv {
		r := w.Regs[k[0]-1]
		p, ok := h.Pubs[k[1]]
		if !ok {
			add("interval:unknown-event", "registration #%d received event %d that was never published", r.ID, k[1])
			continue
		}
		if p.T != r.T {
			add("interval:wrong-type", "registration #%d of type %d received event %d published as type %d", r.ID, r.T, k[1], p.T)
		}
		if n > 1 {
			add("interval:duplicate-delivery", "registration #%d received event %d %d times", r.ID, k[1], n)
		}
		if !probe[k[1]] {
			total[r.ID] += n
			firstBy[r.ID] = k[1]
		}
	}
	var eids []uint64
	for id := range h.Pubs {
		eids = append(eids, id)
	}
	sort.Slice(eids, func(i, j int) bool { return eids[i] < eids[j] })
	for _, r := range w.Regs {
		s, ok := h.Sub[r.ID]
		if !ok || s.res != 0 {
			continue
		}
		u, hasU := h.Unsub[r.ID]
		if r.Once && total[r.ID] > 1 {
			add("interval:once-twice", "once registration #%d ran %d times", r.ID, total[r.ID])
		}
		for _, eid := range eids {
			p := h.Pubs[eid]
			if p.T != r.T || probe[eid] {
				continue
			}
			n := h.Deliv[[2]uint64{uint64(r.ID), eid}]
			eligible := !r.Filter || eid%2 == 0
			if n > 0 && !eligible {
				add("interval:filter-ignored", "registration #%d received event %d which its filter rejects", r.ID, eid)
			}
			// NEVER: subscription called after the publish returned
			if s.call > p.Ret && n > 0 {
				add("interval:delivered-before-subscribe", "registration #%d received event %d although Subscribe was called after that publish had returned", r.ID, eid)
			}
			// NEVER: a removal that certainly removed r returned before the publish was called
			removedBefore := hasU && u.res == 0 && u.ret < p.Call
			anyRemovalBeforeRet := hasU && u.call < p.Ret
			for _, c := range h.Clears {
				if c.T != -1 && c.T != r.T {
					continue
				}
				if c.Ret < s.call {
					continue // finished before r's Subscribe was even called
				}
				if c.Call < p.Ret {
					anyRemovalBeforeRet = true
				}
				if s.ret < c.Call && c.Ret < p.Call {
					removedBefore = true
				}
			}
			if removedBefore && n > 0 {
				add("interval:delivered-after-removal", "registration #%d received event %d although its removal had returned before that publish was called", r.ID, eid)
			}
			// MUST: subscribed before the publish was called, no removal started before it returned
			if s.ret < p.Call && !anyRemovalBeforeRet && eligible && !cancelled[eid] {
				if r.Once {
					if total[r.ID] != 1 {
						add("interval:once-not-fired", "once registration #%d was subscribed throughout eligible publish %d but ran %d times overall", r.ID, eid, total[r.ID])
					}
				} else if n != 1 {
					add("interval:missing-delivery", "registration #%d was subscribed before publish %d was called and not removed before it returned, but received it %d times", r.ID, eid, n)
				}
			}
		}
	}
	if q == nil {
		return out
	}
	// quiescent registry: probe-delivered set vs must / may survive, and HandlerCount
	for t, id := range q.Probe {
		delivered := 0
		for _, r := range w.Regs {
			if r.T != t {
				continue
			}
			s, ok := h.Sub[r.ID]
			if !ok || s.res != 0 {
				continue
			}
			n := h.Deliv[[2]uint64{uint64(r.ID), id}]
			delivered += n
			u, hasU := h.Unsub[r.ID]
			certainlyRemoved := hasU && u.res == 0
			attempted := hasU
			for _, c := range h.Clears {
				if c.T != -1 && c.T != t {
					continue
				}
				if c.Call > s.ret {
					certainlyRemoved = true
				}
				if c.Ret > s.call {
					attempted = true
				}
			}
			fired := r.Once && total[r.ID] >= 1
			if fired {
				certainlyRemoved = true
			}
			if hasU && u.res != 0 && s.ret < u.call && !attemptedClear(h, t, s) && !fired {
				add("quiescent:unsubscribe-not-found", "Unsubscribe of registration #%d returned 'not found' although its Subscribe had returned and nothing else removed it", r.ID)
			}
			if n > 0 && certainlyRemoved {
				add("quiescent:removed-still-subscribed", "registration #%d (removed / fired) still received the probe publish", r.ID)
			}
			if n == 0 && !attempted && !fired {
				add("quiescent:subscription-lost", "registration #%d was never removed but did not receive the probe publish after quiescence", r.ID)
			}
		}
		if q.Counts[t] != delivered {
			add("quiescent:handlercount", "HandlerCount for type %d is %d after quiescence, but the probe publish reached %d registrations", t, q.Counts[t], delivered)
		}
	}
	return out
}

func attemptedClear(h *History, t int, s opIv) bool {
	for _, c := range h.Clears {
		if (c.T == -1 || c.T == t) && c.Ret > s.call {
			return true
		}
	}
	return false
}

// OverlapSignature: a compact signature of which kinds of operations overlapped in logical time.
func OverlapSignature(log []Ev) (sig string, mutOverlapsPub bool) {
	type iv struct {
		k         string
		call, ret uint64
	}
	var ivs []iv
	for _, e := range log {
		switch e.K {
		case "sub", "unsub", "clear", "clearall", "pub", "count", "has", "wait":
			ivs = append(ivs, iv{e.K, e.Call, e.St})
		}
	}
	pairs := map[string]struct{}{}
	for i := range ivs {
		for j := i + 1; j < len(ivs); j++ {
			a, b := ivs[i], ivs[j]
			if a.call < b.ret && b.call < a.ret {
				x, y := a.k, b.k
				if x > y {
					x, y = y, x
				}
				pairs[x+"~"+y] = struct{}{}
				if (x == "pub" && (y == "sub" || y == "unsub")) || ((x == "clear" || x == "clearall") && y == "pub") {
					mutOverlapsPub = true
				}
			}
		}
	}
	var l []string
	for p := range pairs {
		l = append(l, p)
	}
	sort.Strings(l)
	return fmt.Sprint(l), mutOverlapsPub
}
