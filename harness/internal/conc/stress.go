package conc

import (
	"context"
	"math/rand/v2"
	"sync"

	"verif/harness/internal/evt"
)

// PlanOp is one planned operation of a workload goroutine.
type PlanOp struct {
	K   string `json:"k"`
	T   int    `json:"t"`
	Reg *Reg   `json:"reg,omitempty"`
	Ctx bool   `json:"ctx,omitempty"`
}

type classAlloc struct{ plain, ctx map[int]int }

func (c *classAlloc) next(t int, ctx bool) (int, bool) {
	if ctx {
		n := c.ctx[t]
		if n >= evt.NumCtx {
			return 0, false
		}
		c.ctx[t] = n + 1
		return n, true
	}
	n := c.plain[t]
	if n >= evt.NumPlain {
		return 0, false
	}
	c.plain[t] = n + 1
	return n, true
}

// StressHistory builds a world over 2-3 types that share a shard, pre-registers a few handlers,
// plans 2-4 goroutines x 3-8 registry / publish operations (unique handler class per registration, except for one twin pair in every third world)
// and runs them from a barrier with noise at every yield point. record=false is the recorder-free
// race-hunting variant (no stamps, no harness synchronisation inside callbacks).
func StressHistory(rng *rand.Rand, all []evt.Driver, record bool) (w *World, plans [][]PlanOp, nT int) {
	nT = 2 + rng.IntN(2)
	drivers := SameShardTypes(all, nT, rng.Uint64())
	w = NewWorld(drivers, rng.Uint64(), record)
	w.NoisePct = 20 + rng.IntN(50)
	alloc := &classAlloc{plain: map[int]int{}, ctx: map[int]int{}}
	mkReg := func(t int) *Reg {
		ctxAware := rng.IntN(3) == 0
		c, ok := alloc.next(t, ctxAware)
		if !ok {
			return nil
		}
		return &Reg{T: t, Class: c, Ctx: ctxAware, Once: rng.IntN(5) == 0, Async: rng.IntN(5) == 0, Filter: rng.IntN(4) == 0, Seq: rng.IntN(5) == 0}
	}
	G := 2 + rng.IntN(3)
	owned := make([][]*Reg, G)
	pre := rng.IntN(5)
	for k := 0; k < pre; k++ {
		if r := mkReg(rng.IntN(nT)); r != nil {
			w.Subscribe(90, r)
			owned[k%G] = append(owned[k%G], r)
		}
	}
	// every third world: one handler function registered twice (second registration with other
	// options); only the first registration is ever unsubscribed, which must leave the second alone
	if rng.IntN(3) == 0 {
		if a := mkReg(rng.IntN(nT)); a != nil {
			a.Once = false
			b := &Reg{T: a.T, Class: a.Class, Ctx: a.Ctx, Async: rng.IntN(4) == 0, Filter: rng.IntN(4) == 0, Seq: rng.IntN(4) == 0}
			w.Subscribe(90, a)
			w.Subscribe(90, b)
			g := rng.IntN(G)
			owned[g] = append(owned[g], a)
		}
	}
	plans = make([][]PlanOp, G)
	for g := 0; g < G; g++ {
		m := 3 + rng.IntN(6)
		mine := append([]*Reg{}, owned[g]...)
		for k := 0; k < m; k++ {
			x := rng.IntN(100)
			tt := rng.IntN(nT)
			switch {
			case x < 28:
				if r := mkReg(tt); r != nil {
					plans[g] = append(plans[g], PlanOp{K: "sub", T: tt, Reg: r})
					mine = append(mine, r)
				}
			case x < 45:
				if len(mine) > 0 {
					j := rng.IntN(len(mine))
					plans[g] = append(plans[g], PlanOp{K: "unsub", T: mine[j].T, Reg: mine[j]})
					mine = append(mine[:j], mine[j+1:]...)
				}
			case x < 50:
				plans[g] = append(plans[g], PlanOp{K: "clear", T: tt})
			case x < 52:
				plans[g] = append(plans[g], PlanOp{K: "clearall"})
			case x < 84:
				plans[g] = append(plans[g], PlanOp{K: "pub", T: tt, Ctx: rng.IntN(2) == 0})
			case x < 90:
				plans[g] = append(plans[g], PlanOp{K: "pub-cancelled", T: tt})
			default:
				plans[g] = append(plans[g], PlanOp{K: []string{"count", "has"}[rng.IntN(2)], T: tt})
			}
		}
	}
	var wg sync.WaitGroup
	start := make(chan struct{})
	for g := 0; g < G; g++ {
		wg.Add(1)
		go func(g int) {
			defer wg.Done()
			<-start
			for _, o := range plans[g] {
				w.Noise()
				switch o.K {
				case "sub":
					w.Subscribe(g, o.Reg)
				case "unsub":
					w.Unsubscribe(g, o.Reg)
				case "clear":
					w.Clear(g, o.T)
				case "clearall":
					w.ClearAll(g)
				case "pub":
					if o.Ctx {
						id := w.NextEID()
						w.PublishID(g, o.T, &NoisyCtx{Context: context.Background(), W: w, EID: id}, id)
					} else {
						w.Publish(g, o.T, nil)
					}
				case "pub-cancelled":
					w.PublishCancelled(g, o.T)
				case "count":
					w.Count(g, o.T)
				case "has":
					w.Has(g, o.T)
				}
			}
		}(g)
	}
	close(start)
	wg.Wait()
	return w, plans, nT
}
