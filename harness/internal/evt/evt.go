// Package evt provides many distinct event types (more than the bus has shards) behind one
// data-driven Driver interface, and handler "classes" with distinct code pointers (Unsubscribe
// identifies a handler by code pointer; closures of one literal share it).
package evt

import (
	"context"
	"fmt"
	"hash/fnv"
	"reflect"
	"slices"
	"strconv"
	"strings"
	"sync"
	"sync/atomic"

	ebu "github.com/jilio/ebu"
)

// Ev is the generic event: Tag only makes the Go type distinct.
type Ev[Tag any] struct {
	ID uint64
	S  string
}

// Identified is implemented by the generic event types: a filter may be declared on it.
type Identified interface{ EvID() uint64 }

func (e Ev[Tag]) EvID() uint64 { return e.ID }

func payload(id uint64) string { return "p" + strconv.FormatUint(id*2654435761%1000003, 36) }

// Other shapes of event type.
type StrEv string
type IntEv uint64
type PtrEv struct {
	ID uint64
	S  string
}
type SliceEv []uint64

// ChanEv has no JSON encoding (channel field): on a persistent bus its persistence fails, the
// publish must still be delivered.
type ChanEv struct {
	ID uint64
	S  string
	C  chan int
}

// RoutedEv provides its own type name, and that name depends on the value (a topic): handlers are
// registered for the Go type and must receive every value of it.
type RoutedEv struct {
	ID uint64
	S  string
}

func (e RoutedEv) EventTypeName() string { return "routed.topic-" + strconv.FormatUint(e.ID%7, 10) }

// HandlerCB is what a subscribed handler calls: ctx is nil for plain handlers.
type HandlerCB func(ctx context.Context, id uint64, payloadOK bool)

// SubOpts are the subscription options as data.
type SubOpts struct {
	Once, Async, Seq bool
	Filter           func(id uint64) bool // nil = no filter
}

// Driver exposes the generic API for one event type as data-driven calls.
type Driver interface {
	Name() string
	RType() reflect.Type
	HandlerType(ctxAware bool) reflect.Type
	Subscribe(bus *ebu.EventBus, class int, ctxAware bool, o SubOpts, cb HandlerCB) error
	Unsubscribe(bus *ebu.EventBus, class int, ctxAware bool) error
	// SubscribeReplay registers through SubscribeWithReplay (plain handlers only).
	SubscribeReplay(bus *ebu.EventBus, ctx context.Context, subID string, o SubOpts, cb HandlerCB) error
	Publish(bus *ebu.EventBus, id uint64)
	PublishContext(bus *ebu.EventBus, ctx context.Context, id uint64)
	Clear(bus *ebu.EventBus)
	Has(bus *ebu.EventBus) bool
	Count(bus *ebu.EventBus) int
	Make(id uint64) any
	IDOf(ev any) (uint64, bool)
	Shard() int
}

type drv[T any] struct {
	filterN atomic.Int64
	name    string
	mk      func(uint64) T
	id      func(T) (uint64, bool)
}

func newDrv[T any](name string, mk func(uint64) T, id func(T) (uint64, bool)) Driver {
	return &drv[T]{name: name, mk: mk, id: id}
}

func (d *drv[T]) Name() string        { return d.name }
func (d *drv[T]) RType() reflect.Type { return reflect.TypeOf((*T)(nil)).Elem() }
func (d *drv[T]) HandlerType(ctxAware bool) reflect.Type {
	if ctxAware {
		return reflect.TypeOf(ebu.ContextHandler[T](nil))
	}
	return reflect.TypeOf(ebu.Handler[T](nil))
}
func (d *drv[T]) Make(id uint64) any { return d.mk(id) }
func (d *drv[T]) IDOf(ev any) (uint64, bool) {
	t, ok := ev.(T)
	if !ok {
		return 0, false
	}
	return d.id(t)
}

// Shard recomputes the bus's routing (FNV-32a of Type.String(), 32 shards) — used only to REPORT
// which collisions a workload exercised, never for a verdict.
func (d *drv[T]) Shard() int {
	h := fnv.New32a()
	h.Write([]byte(d.RType().String()))
	return int(h.Sum32() & 31)
}

// optCache: applications keep option values (and whole option slices) around and pass the same ones
// to many Subscribe calls; so does the harness for every filterless option combination.
var optCache sync.Map // [4]bool -> []ebu.SubscribeOption

func (d *drv[T]) opts(o SubOpts) []ebu.SubscribeOption {
	// options are independent of each other: for half of the event types they are given in the
	// reverse order (Sequential before Async before Once)
	h := fnv.New32a()
	h.Write([]byte(d.name))
	reversed := h.Sum32()%2 == 1
	if o.Filter == nil {
		key := [4]bool{o.Once, o.Async, o.Seq, reversed}
		if v, ok := optCache.Load(key); ok {
			return v.([]ebu.SubscribeOption)
		}
		var shared []ebu.SubscribeOption
		if o.Once {
			shared = append(shared, ebu.Once())
		}
		if o.Async {
			shared = append(shared, ebu.Async())
		}
		if o.Seq {
			shared = append(shared, ebu.Sequential())
		}
		if reversed {
			slices.Reverse(shared)
		}
		v, _ := optCache.LoadOrStore(key, shared)
		return v.([]ebu.SubscribeOption)
	}
	var r []ebu.SubscribeOption
	if o.Once {
		r = append(r, ebu.Once())
	}
	if o.Async {
		r = append(r, ebu.Async())
	}
	if o.Seq {
		r = append(r, ebu.Sequential())
	}
	if o.Filter != nil {
		f := o.Filter
		var zero T
		if _, ok := any(zero).(Identified); ok && d.filterN.Add(1)%2 == 0 {
			// every other filter of these event types is declared on an interface the event implements
			// (one predicate shared by a family of event types) instead of on the event type itself
			r = append(r, ebu.WithFilter(func(e Identified) bool { return f(e.EvID()) }))
		} else {
			r = append(r, ebu.WithFilter(func(e T) bool { id, _ := d.id(e); return f(id) }))
		}
	}
	return r
}

func (d *drv[T]) Subscribe(bus *ebu.EventBus, class int, ctxAware bool, o SubOpts, cb HandlerCB) error {
	if ctxAware {
		f := func(ctx context.Context, e T) { id, ok := d.id(e); cb(ctx, id, ok) }
		return ebu.SubscribeContext(bus, mkCtx[T](class, f), d.opts(o)...)
	}
	f := func(e T) { id, ok := d.id(e); cb(nil, id, ok) }
	return ebu.Subscribe(bus, mkPlain[T](class, f), d.opts(o)...)
}

func (d *drv[T]) SubscribeReplay(bus *ebu.EventBus, ctx context.Context, subID string, o SubOpts, cb HandlerCB) error {
	f := func(e T) { id, ok := d.id(e); cb(nil, id, ok) }
	return ebu.SubscribeWithReplay(ctx, bus, subID, ebu.Handler[T](f), d.opts(o)...)
}

func (d *drv[T]) Unsubscribe(bus *ebu.EventBus, class int, ctxAware bool) error {
	if ctxAware {
		return ebu.Unsubscribe[T](bus, mkCtx[T](class, nil))
	}
	return ebu.Unsubscribe[T](bus, mkPlain[T](class, nil))
}

// ViaAny says which publishes hand the event over as an interface value (Publish[any]): a
// forwarder that received the event from a chan any / []any. The bus routes by the event's dynamic
// type, so nothing else may change.
func ViaAny(id uint64) bool { return id%5 == 3 }

func (d *drv[T]) Publish(bus *ebu.EventBus, id uint64) {
	if ViaAny(id) {
		ebu.Publish[any](bus, d.mk(id))
		return
	}
	ebu.Publish(bus, d.mk(id))
}
func (d *drv[T]) PublishContext(bus *ebu.EventBus, ctx context.Context, id uint64) {
	if ViaAny(id) {
		ebu.PublishContext[any](bus, ctx, d.mk(id))
		return
	}
	ebu.PublishContext(bus, ctx, d.mk(id))
}
func (d *drv[T]) Clear(bus *ebu.EventBus)    { ebu.Clear[T](bus) }
func (d *drv[T]) Has(bus *ebu.EventBus) bool { return ebu.HasHandlers[T](bus) }
func (d *drv[T]) Count(bus *ebu.EventBus) int {
	return ebu.HandlerCount[T](bus)
}

// NumPlain / NumCtx are the numbers of handler classes.
const (
	NumPlain = 12
	NumCtx   = 6
)

// Distinct source-level factories: each literal has its own code pointer.
func mkPlain[T any](class int, f func(T)) ebu.Handler[T] {
	switch class {
	case 0:
		return func(e T) { f(e) }
	case 1:
		return func(e T) { f(e); _ = 1 }
	case 2:
		return func(e T) { f(e); _ = 2 }
	case 3:
		return func(e T) { f(e); _ = 3 }
	case 4:
		return func(e T) { f(e); _ = 4 }
	case 5:
		return func(e T) { f(e); _ = 5 }
	case 6:
		return func(e T) { f(e); _ = 6 }
	case 7:
		return func(e T) { f(e); _ = 7 }
	case 8:
		return func(e T) { f(e); _ = 8 }
	case 9:
		return func(e T) { f(e); _ = 9 }
	case 10:
		return func(e T) { f(e); _ = 10 }
	case 11:
		return func(e T) { f(e); _ = 11 }
	}
	panic("evt: plain class out of range")
}

func mkCtx[T any](class int, f func(context.Context, T)) ebu.ContextHandler[T] {
	switch class {
	case 0:
		return func(c context.Context, e T) { f(c, e) }
	case 1:
		return func(c context.Context, e T) { f(c, e); _ = 1 }
	case 2:
		return func(c context.Context, e T) { f(c, e); _ = 2 }
	case 3:
		return func(c context.Context, e T) { f(c, e); _ = 3 }
	case 4:
		return func(c context.Context, e T) { f(c, e); _ = 4 }
	case 5:
		return func(c context.Context, e T) { f(c, e); _ = 5 }
	}
	panic("evt: ctx class out of range")
}

// SelfTest asserts that handler classes have pairwise distinct code pointers (and that two
// closures of one class share theirs) — the assumption behind modelling Unsubscribe.
func SelfTest() error {
	seen := map[uintptr]int{}
	for c := 0; c < NumPlain; c++ {
		p := reflect.ValueOf(mkPlain[Ev[T00]](c, nil)).Pointer()
		q := reflect.ValueOf(mkPlain[Ev[T00]](c, func(Ev[T00]) {})).Pointer()
		if p != q {
			return fmt.Errorf("plain class %d: two closures differ", c)
		}
		if o, dup := seen[p]; dup {
			return fmt.Errorf("plain classes %d and %d share a code pointer", o, c)
		}
		seen[p] = c
	}
	for c := 0; c < NumCtx; c++ {
		p := reflect.ValueOf(mkCtx[Ev[T00]](c, nil)).Pointer()
		if o, dup := seen[p]; dup {
			return fmt.Errorf("ctx class %d shares a code pointer with %d", c, o)
		}
		seen[p] = 100 + c
	}
	return nil
}

// Drivers returns all event-type drivers: 40 generic struct types plus four other shapes.
func Drivers() []Driver {
	ds := genericDrivers()
	ds = append(ds,
		newDrv[StrEv]("StrEv", func(id uint64) StrEv { return StrEv(strconv.FormatUint(id, 10) + ":" + payload(id)) },
			func(e StrEv) (uint64, bool) {
				a, b, ok := strings.Cut(string(e), ":")
				id, err := strconv.ParseUint(a, 10, 64)
				return id, ok && err == nil && b == payload(id)
			}),
		newDrv[IntEv]("IntEv", func(id uint64) IntEv { return IntEv(id) }, func(e IntEv) (uint64, bool) { return uint64(e), true }),
		newDrv[*PtrEv]("*PtrEv", func(id uint64) *PtrEv { return &PtrEv{ID: id, S: payload(id)} },
			func(e *PtrEv) (uint64, bool) {
				if e == nil {
					return 0, false
				}
				return e.ID, e.S == payload(e.ID)
			}),
		newDrv[SliceEv]("SliceEv", func(id uint64) SliceEv { return SliceEv{id, id ^ 0xabcdef} },
			func(e SliceEv) (uint64, bool) {
				if len(e) != 2 {
					return 0, false
				}
				return e[0], e[1] == e[0]^0xabcdef
			}),
		newDrv[RoutedEv]("RoutedEv(value-dependent type name)", func(id uint64) RoutedEv { return RoutedEv{ID: id, S: payload(id)} },
			func(e RoutedEv) (uint64, bool) { return e.ID, e.S == payload(e.ID) }),
		newDrv[ChanEv]("ChanEv(unencodable)", func(id uint64) ChanEv { return ChanEv{ID: id, S: payload(id), C: make(chan int)} },
			func(e ChanEv) (uint64, bool) { return e.ID, e.S == payload(e.ID) && e.C != nil }),
	)
	return ds
}
