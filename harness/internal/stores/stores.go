// Package stores opens the bundled stores in the configurations the checks need (memory,
// memory with the streamer hidden, SQLite on a file / in memory / with stream batching,
// durable-streams against the reference in-memory server in-process) and provides the
// fault-injecting wrappers (fail / crash / gate / count) in the four interface shapes the bus
// type-switches on.
package stores

import (
	"context"
	"fmt"
	"io"
	"iter"
	"net/http"
	"net/http/httptest"
	"os"
	"path/filepath"
	"regexp"
	"strconv"
	"strings"
	"sync"
	"sync/atomic"
	"time"

	dsserver "github.com/ahimsalabs/durable-streams-go/durablestream"
	"github.com/ahimsalabs/durable-streams-go/durablestream/memorystorage"
	ebu "github.com/jilio/ebu"
	ds "github.com/jilio/ebu/stores/durablestream"
	"github.com/jilio/ebu/stores/sqlite"
)

// Opened is an opened store.
type Opened struct {
	Kind   string
	Store  ebu.EventStore
	Sub    ebu.SubscriptionStore // nil when the store has none (durable-streams)
	Close  func()
	Reopen func() (*Opened, error) // a new store object on the same durable state (nil for memory)
	Path   string
	// LostAckNext (durable-streams only): the next n appends are committed by the server but answered
	// with 503, as when the reply is lost on the way back.
	LostAckNext func(n int)
	// RejectNext (durable-streams only): the next n appends are answered 503 by a gateway and never
	// reach the server.
	RejectNext func(n int)
}

var (
	dsOnce   sync.Once
	dsURL    = map[int]string{}
	dsMu     sync.Mutex
	dsStream atomic.Int64
)

// durableURL returns the base URL of an in-process reference server with the given chunk size
// (0 = the server's default of 1 MB).
func durableURL(chunk int) string {
	dsMu.Lock()
	defer dsMu.Unlock()
	if u, ok := dsURL[chunk]; ok {
		return u
	}
	storage := memorystorage.New()
	var cfg *dsserver.HandlerConfig
	if chunk > 0 {
		cfg = &dsserver.HandlerConfig{ChunkSize: chunk}
	}
	h := dsserver.NewHandler(storage, cfg)
	mux := http.NewServeMux()
	mux.Handle("/v1/stream/", http.StripPrefix("/v1/stream/", h))
	srv := httptest.NewServer(lostAckProxy(mux))
	dsURL[chunk] = srv.URL + "/v1/stream"
	return dsURL[chunk]
}

// lostAck: armed per stream name — the next n append requests (POST) for that stream are carried
// out by the server, but the client is answered "503 Service Unavailable" (the reply got lost
// behind a proxy / the server was restarted after committing).
var lostAck sync.Map // stream name -> *atomic.Int32

// rejectPost: the next n append requests for that stream are answered 503 without reaching the server.
var rejectPost sync.Map

var (
	strictOffsets sync.Map // stream name -> true: read offsets are validated
	validOffset   = regexp.MustCompile(`^(-1|[0-9A-Za-z_]+)$`)
)

func lostAckProxy(next http.Handler) http.Handler {
	return http.HandlerFunc(func(w http.ResponseWriter, r *http.Request) {
		name := r.URL.Path[strings.LastIndex(r.URL.Path, "/")+1:]
		if _, strict := strictOffsets.Load(name); strict && r.Method == http.MethodGet {
			// a server that validates read offsets: absent, "-1" or a numeric token it handed out (the
			// bare reference handler parses with Sscanf("%d") and ignores trailing text)
			if off := r.URL.Query().Get("offset"); off != "" && !validOffset.MatchString(off) {
				http.Error(w, "invalid offset", http.StatusBadRequest)
				return
			}
		}
		if r.Method == http.MethodPost {
			if v, ok := rejectPost.Load(name); ok && v.(*atomic.Int32).Add(-1) >= 0 {
				// the request never reaches the server: a gateway answers for it
				http.Error(w, "verif: upstream unavailable", http.StatusServiceUnavailable)
				return
			}
			if v, ok := lostAck.Load(name); ok && v.(*atomic.Int32).Add(-1) >= 0 {
				rec := httptest.NewRecorder()
				next.ServeHTTP(rec, r)
				if rec.Code >= 200 && rec.Code < 300 {
					http.Error(w, "verif: reply lost after the append was committed", http.StatusServiceUnavailable)
					return
				}
				for k, vs := range rec.Header() {
					w.Header()[k] = vs
				}
				w.WriteHeader(rec.Code)
				w.Write(rec.Body.Bytes())
				return
			}
		}
		next.ServeHTTP(w, r)
	})
}

// Kinds lists every configuration name Open understands.
func Kinds() []string {
	return []string{"memory", "memory-paged", "sqlite-file", "sqlite-mem", "sqlite-batch1", "sqlite-batch2", "sqlite-batch3", "sqlite-batch5", "sqlite-batch1000", "sqlite-hooks-batch4", "sqlite-nomigrate", "sqlite-mem-batch2", "durable", "durable-chunk400"}
}

var fileSeq atomic.Int64

// Open opens a fresh, empty store of the given kind. scratch is a directory for database files.
func Open(kind, scratch string) (*Opened, error) {
	switch {
	case kind == "memory":
		m := ebu.NewMemoryStore()
		return &Opened{Kind: kind, Store: m, Sub: m, Close: func() {}}, nil
	case kind == "memory-paged":
		m := ebu.NewMemoryStore()
		return &Opened{Kind: kind, Store: &Paged{Inner: m}, Sub: m, Close: func() {}}, nil
	case kind == "memory-capped":
		m := ebu.NewMemoryStore()
		return &Opened{Kind: kind, Store: &Capped{Inner: m, Cap: 2}, Sub: m, Close: func() {}}, nil
	case kind == "sqlite-paged":
		// the SQLite store behind an Append/Read-only wrapper: Replay takes the paged path over
		// unpadded decimal offsets
		o, err := Open("sqlite-file", scratch)
		if err != nil {
			return nil, err
		}
		o.Kind, o.Store, o.Reopen = kind, &Paged{Inner: o.Store}, nil
		return o, nil
	case strings.HasPrefix(kind, "sqlite"):
		var opts []sqlite.Option
		if i := strings.Index(kind, "batch"); i >= 0 {
			n, _ := strconv.Atoi(kind[i+5:])
			opts = append(opts, sqlite.WithStreamBatchSize(n))
		}
		if strings.Contains(kind, "hooks") {
			// logger and metrics hook set: the instrumented paths must behave the same
			opts = append(opts, sqlite.WithLogger(nopLogger{}), sqlite.WithMetricsHook(nopMetrics{}), sqlite.WithBusyTimeout(200*time.Millisecond))
		}
		path := ":memory:"
		if !strings.HasPrefix(kind, "sqlite-mem") {
			if err := os.MkdirAll(scratch, 0o755); err != nil {
				return nil, err
			}
			path = filepath.Join(scratch, fmt.Sprintf("db-%d-%d.sqlite", os.Getpid(), fileSeq.Add(1)))
		}
		if kind == "sqlite-nomigrate" {
			// an existing database opened with automatic migration switched off
			first, err := sqlite.New(path)
			if err != nil {
				return nil, err
			}
			first.Close()
			opts = append(opts, sqlite.WithAutoMigrate(false))
		}
		return openSQLite(kind, path, opts)
	case strings.HasPrefix(kind, "durable"):
		chunk := 0
		if i := strings.Index(kind, "chunk"); i >= 0 {
			chunk, _ = strconv.Atoi(kind[i+5:])
		}
		base := durableURL(chunk)
		name := fmt.Sprintf("s-%d-%d", os.Getpid(), dsStream.Add(1))
		s, err := ds.New(base, name)
		if err != nil {
			return nil, err
		}
		o := &Opened{Kind: kind, Store: s, Close: func() {}}
		if strings.Contains(kind, "strict") {
			strictOffsets.Store(name, true)
		}
		ctr := &atomic.Int32{}
		lostAck.Store(name, ctr)
		o.LostAckNext = func(n int) { ctr.Store(int32(n)) }
		rej := &atomic.Int32{}
		rejectPost.Store(name, rej)
		o.RejectNext = func(n int) { rej.Store(int32(n)) }
		o.Reopen = func() (*Opened, error) {
			s2, err := ds.New(base, name)
			if err != nil {
				return nil, err
			}
			return &Opened{Kind: kind, Store: s2, Close: func() {}, Reopen: o.Reopen}, nil
		}
		return o, nil
	}
	return nil, fmt.Errorf("unknown store kind %q", kind)
}

func openSQLite(kind, path string, opts []sqlite.Option) (*Opened, error) {
	s, err := sqlite.New(path, opts...)
	if err != nil {
		return nil, err
	}
	o := &Opened{Kind: kind, Store: s, Sub: s, Path: path}
	o.Close = func() {
		s.Close()
	}
	if path != ":memory:" {
		o.Reopen = func() (*Opened, error) { return openSQLite(kind, path, opts) }
	}
	return o, nil
}

// Remove deletes the database files of a file-backed store.
func (o *Opened) Remove() {
	if o.Path != "" && o.Path != ":memory:" {
		os.Remove(o.Path)
		os.Remove(o.Path + "-wal")
		os.Remove(o.Path + "-shm")
	}
}

type nopLogger struct{}

func (nopLogger) Debug(string, ...any) {}
func (nopLogger) Info(string, ...any)  {}
func (nopLogger) Error(string, ...any) {}

type nopMetrics struct{}

func (nopMetrics) OnAppend(time.Duration, error)     {}
func (nopMetrics) OnRead(time.Duration, int, error)  {}
func (nopMetrics) OnSaveOffset(time.Duration, error) {}
func (nopMetrics) OnLoadOffset(time.Duration, error) {}

// Paged hides the optional interfaces of a store (Replay then takes the paged path).
type Paged struct{ Inner ebu.EventStore }

func (p *Paged) Append(ctx context.Context, e *ebu.Event) (ebu.Offset, error) {
	return p.Inner.Append(ctx, e)
}
func (p *Paged) Read(ctx context.Context, from ebu.Offset, limit int) ([]*ebu.StoredEvent, ebu.Offset, error) {
	return p.Inner.Read(ctx, from, limit)
}

// Capped is a paged store whose server caps every page at Cap events (it returns the correct next
// offset, so a chain of reads still reproduces the log).
type Capped struct {
	Inner ebu.EventStore
	Cap   int
}

func (c *Capped) Append(ctx context.Context, e *ebu.Event) (ebu.Offset, error) {
	return c.Inner.Append(ctx, e)
}
func (c *Capped) Read(ctx context.Context, from ebu.Offset, limit int) ([]*ebu.StoredEvent, ebu.Offset, error) {
	if limit <= 0 || limit > c.Cap {
		limit = c.Cap
	}
	return c.Inner.Read(ctx, from, limit)
}

// ---------------------------------------------------------------------------------------------
// fault injection

// Action at a store operation.
type Action int

const (
	None    Action = iota
	Fail           // return an error instead of performing the operation
	Crash          // perform the operation, then the process "dies": every later operation is a no-op error
	Gate           // park before the operation until released
	LostAck        // perform the operation, then report an error (the acknowledgement is lost)
	FailCtx        // like Fail, but the error wraps context.DeadlineExceeded (a store-internal deadline, not the caller's context)
	FailEOF        // like Fail, but the error wraps io.EOF (a connection that was dropped in the middle of a response)
)

func isFail(a Action) bool { return a == Fail || a == FailCtx || a == FailEOF }

// ErrConnDropped is the error of FailEOF (what net/http reports when the peer closes the connection).
var ErrConnDropped = fmt.Errorf("verif: Get \"http://store/events\": %w", io.EOF)

// ErrStoreDeadline is the error of FailCtx.
var ErrStoreDeadline = fmt.Errorf("verif: store-internal read deadline: %w", context.DeadlineExceeded)

func injected(a Action) error {
	if a == FailCtx {
		return ErrStoreDeadline
	}
	if a == FailEOF {
		return ErrConnDropped
	}
	return ErrInjected
}

// OpRec is one logged store operation.
type OpRec struct {
	N    int    `json:"n"`
	Kind string `json:"kind"` // append, read, stream, yield, save, load
	Arg  string `json:"arg,omitempty"`
	Res  string `json:"res,omitempty"`
	Err  bool   `json:"err,omitempty"`
	Dead bool   `json:"dead,omitempty"`
	Own  string `json:"own_error,omitempty"` // the error text when the operation failed although no fault was injected into it
}

// Faults controls and records the operations of a wrapped store.
type Faults struct {
	mu     sync.Mutex
	n      int
	Plan   map[int]Action            // by global operation index
	ByKind map[string]map[int]Action // by per-kind index, e.g. ByKind["append"][2]
	kindN  map[string]int
	Dead   bool
	Log    []OpRec
	OnGate func(rec OpRec) // called (unlocked) when an operation is gated; returns when released
	OnOp   func(rec OpRec) // observer, called before the operation is performed
}

// NewFaults returns an empty plan.
func NewFaults() *Faults {
	return &Faults{Plan: map[int]Action{}, ByKind: map[string]map[int]Action{}, kindN: map[string]int{}}
}

// ErrInjected is returned by failed operations; ErrDead by operations after a crash.
var (
	ErrInjected = fmt.Errorf("verif: injected store failure")
	ErrDead     = fmt.Errorf("verif: process is dead (crash point passed)")
)

// begin registers an operation; returns the action and the record index.
func (f *Faults) begin(kind, arg string) (Action, int, bool) {
	f.mu.Lock()
	if f.Dead {
		f.Log = append(f.Log, OpRec{N: f.n, Kind: kind, Arg: arg, Dead: true})
		f.n++
		f.mu.Unlock()
		return None, -1, true
	}
	n := f.n
	f.n++
	kn := f.kindN[kind]
	f.kindN[kind] = kn + 1
	a := f.Plan[n]
	if a == None {
		if m := f.ByKind[kind]; m != nil {
			a = m[kn]
		}
	}
	rec := OpRec{N: n, Kind: kind, Arg: arg}
	f.Log = append(f.Log, rec)
	idx := len(f.Log) - 1
	onOp, onGate := f.OnOp, f.OnGate
	f.mu.Unlock()
	if onOp != nil {
		onOp(rec)
	}
	if a == Gate {
		if onGate != nil {
			onGate(rec)
		}
		a = None
	}
	return a, idx, false
}

func (f *Faults) end(idx int, res string, err error, a Action) {
	f.mu.Lock()
	if idx >= 0 && idx < len(f.Log) {
		f.Log[idx].Res = res
		f.Log[idx].Err = err != nil
		if err != nil && a == None {
			f.Log[idx].Own = err.Error()
		}
	}
	if a == Crash {
		f.Dead = true
	}
	f.mu.Unlock()
}

// Revive ends dead mode (the "process" restarts on the same durable state).
func (f *Faults) Revive() { f.mu.Lock(); f.Dead = false; f.mu.Unlock() }

// IsDead reports whether the crash point has been passed.
func (f *Faults) IsDead() bool { f.mu.Lock(); defer f.mu.Unlock(); return f.Dead }

// ClearPlan removes every planned action (the log and counters are kept).
func (f *Faults) ClearPlan() {
	f.mu.Lock()
	f.Plan = map[int]Action{}
	f.ByKind = map[string]map[int]Action{}
	f.OnGate = nil
	f.mu.Unlock()
}

// Ops returns the number of operations begun so far.
func (f *Faults) Ops() int { f.mu.Lock(); defer f.mu.Unlock(); return f.n }

// Snapshot returns a copy of the log.
func (f *Faults) Snapshot() []OpRec {
	f.mu.Lock()
	defer f.mu.Unlock()
	return append([]OpRec{}, f.Log...)
}

type base struct {
	f     *Faults
	inner ebu.EventStore
}

func (b *base) Append(ctx context.Context, e *ebu.Event) (ebu.Offset, error) {
	arg := e.Type + " " + string(e.Data)
	if len(arg) > 160 {
		arg = arg[:160]
	}
	a, idx, dead := b.f.begin("append", arg)
	if dead {
		return "", ErrDead
	}
	if a == Fail {
		b.f.end(idx, "", ErrInjected, a)
		return "", ErrInjected
	}
	off, err := b.inner.Append(ctx, e)
	if a == LostAck && err == nil {
		b.f.end(idx, string(off), ErrInjected, a)
		return "", ErrInjected
	}
	b.f.end(idx, string(off), err, a)
	return off, err
}

func (b *base) Read(ctx context.Context, from ebu.Offset, limit int) ([]*ebu.StoredEvent, ebu.Offset, error) {
	a, idx, dead := b.f.begin("read", fmt.Sprintf("%s/%d", from, limit))
	if dead {
		return nil, from, ErrDead
	}
	if isFail(a) {
		b.f.end(idx, "", injected(a), a)
		return nil, from, injected(a)
	}
	evs, next, err := b.inner.Read(ctx, from, limit)
	b.f.end(idx, fmt.Sprintf("%d->%s", len(evs), next), err, a)
	return evs, next, err
}

type streamer struct{ *base }

func (s streamer) ReadStream(ctx context.Context, from ebu.Offset) iter.Seq2[*ebu.StoredEvent, error] {
	in := s.inner.(ebu.EventStoreStreamer)
	return func(yield func(*ebu.StoredEvent, error) bool) {
		a, idx, dead := s.f.begin("stream", string(from))
		if dead {
			yield(nil, ErrDead)
			return
		}
		if isFail(a) {
			s.f.end(idx, "", injected(a), a)
			yield(nil, injected(a))
			return
		}
		s.f.end(idx, "", nil, a)
		for ev, err := range in.ReadStream(ctx, from) {
			arg := ""
			if ev != nil {
				arg = string(ev.Offset)
			}
			a, idx, dead := s.f.begin("yield", arg)
			if dead {
				yield(nil, ErrDead)
				return
			}
			if isFail(a) {
				s.f.end(idx, "", injected(a), a)
				yield(nil, injected(a))
				return
			}
			s.f.end(idx, "", err, a)
			if !yield(ev, err) {
				return
			}
		}
		// end of stream is an operation too (gates for "stream exhausted")
		a, idx, dead = s.f.begin("stream-end", string(from))
		if !dead {
			s.f.end(idx, "", nil, a)
		}
	}
}

type subs struct {
	f     *Faults
	inner ebu.SubscriptionStore
}

func (s subs) SaveOffset(ctx context.Context, id string, off ebu.Offset) error {
	a, idx, dead := s.f.begin("save", id+"="+string(off))
	if dead {
		return ErrDead
	}
	if a == Fail {
		s.f.end(idx, "", ErrInjected, a)
		return ErrInjected
	}
	err := s.inner.SaveOffset(ctx, id, off)
	s.f.end(idx, "", err, a)
	return err
}

func (s subs) LoadOffset(ctx context.Context, id string) (ebu.Offset, error) {
	a, idx, dead := s.f.begin("load", id)
	if dead {
		return "", ErrDead
	}
	if a == Fail {
		s.f.end(idx, "", ErrInjected, a)
		return "", ErrInjected
	}
	off, err := s.inner.LoadOffset(ctx, id)
	s.f.end(idx, string(off), err, a)
	return off, err
}

type wPlain struct{ *base }
type wStream struct {
	*base
	streamer
}
type wSub struct {
	*base
	subs
}
type wStreamSub struct {
	*base
	streamer
	subs
}

// Wrap returns a fault-injecting wrapper with exactly the optional interfaces of inner.
func Wrap(inner ebu.EventStore, f *Faults) ebu.EventStore {
	b := &base{f: f, inner: inner}
	_, isStream := inner.(ebu.EventStoreStreamer)
	ss, isSub := inner.(ebu.SubscriptionStore)
	switch {
	case isStream && isSub:
		return &wStreamSub{base: b, streamer: streamer{b}, subs: subs{f, ss}}
	case isStream:
		return &wStream{base: b, streamer: streamer{b}}
	case isSub:
		return &wSub{base: b, subs: subs{f, ss}}
	}
	return &wPlain{b}
}

// WrapSub wraps a separate subscription store.
func WrapSub(inner ebu.SubscriptionStore, f *Faults) ebu.SubscriptionStore { return subs{f, inner} }
