// Package watchdog implements the progress / deadlock oracle (DESIGN §4.8): a hang is declared a
// deadlock only if goroutine dumps show the workload goroutines parked below an ebu frame; otherwise
// the case is inconclusive.
package watchdog

import (
	"os"
	"regexp"
	"runtime"
	"strings"
	"sync/atomic"
	"time"
)

// Dog watches a progress counter.
type Dog struct {
	progress atomic.Int64
	stop     chan struct{}
	current  atomic.Value // string: description of the running case
}

// Verdict of a hang.
type Verdict struct {
	Deadlock bool
	Dump     string
	Case     string
}

// Start starts a watchdog that calls onHang when the counter has not moved for `window` twice in a
// row. With v.Deadlock set (two goroutine dumps show workload goroutines parked below ebu frames and
// none runnable) onHang is expected to record the violation and end the process; otherwise the
// machine is merely slow: onHang should only count it, and the watchdog keeps watching.
func Start(window time.Duration, onHang func(Verdict)) *Dog {
	d := &Dog{stop: make(chan struct{})}
	d.current.Store("")
	go func() {
		last := int64(-1)
		still := 0
		t := time.NewTicker(window)
		defer t.Stop()
		for {
			select {
			case <-d.stop:
				return
			case <-t.C:
				cur := d.progress.Load()
				if cur == last {
					still++
				} else {
					still = 0
					last = cur
				}
				if still >= 2 {
					d1 := dump()
					time.Sleep(500 * time.Millisecond)
					d2 := dump()
					v := Verdict{Dump: d2, Case: d.current.Load().(string)}
					v.Deadlock = d.progress.Load() == cur && blockedUnderEbu(d1) && blockedUnderEbu(d2)
					onHang(v)
					if v.Deadlock {
						return
					}
					// not a deadlock by the dump rule (slow machine, runnable goroutines): keep watching
					still = 0
				}
			}
		}
	}()
	return d
}

// Tick records progress.
func (d *Dog) Tick() { d.progress.Add(1) }

// Case names the case about to run (so that a hang is attributable).
func (d *Dog) Case(s string) { d.current.Store(s) }

// Stop ends the watchdog.
func (d *Dog) Stop() { close(d.stop) }

func dump() string {
	buf := make([]byte, 4<<20)
	n := runtime.Stack(buf, true)
	return string(buf[:n])
}

var hdr = regexp.MustCompile(`^goroutine \d+ \[([^\]]+)\]:`)

// blockedUnderEbu: at least one goroutine is parked in a lock / WaitGroup / channel acquisition
// below a github.com/jilio/ebu frame, and no goroutine with an ebu frame is running or runnable.
// BlockedUnderEbu is the dump rule used by every hang verdict.
func BlockedUnderEbu(d string) bool { return blockedUnderEbu(d) }

func blockedUnderEbu(d string) bool {
	blocked := false
	for _, g := range strings.Split(d, "\n\n") {
		m := hdr.FindStringSubmatch(g)
		if m == nil || !strings.Contains(g, "github.com/jilio/ebu") {
			continue
		}
		st := m[1]
		switch {
		case strings.HasPrefix(st, "sync.Mutex.Lock"), strings.HasPrefix(st, "sync.RWMutex"), strings.HasPrefix(st, "semacquire"),
			strings.HasPrefix(st, "sync.WaitGroup.Wait"), strings.HasPrefix(st, "chan receive"), strings.HasPrefix(st, "chan send"),
			strings.HasPrefix(st, "select"), strings.HasPrefix(st, "sync.Cond.Wait"):
			blocked = true
		case strings.HasPrefix(st, "running"), strings.HasPrefix(st, "runnable"):
			if !strings.Contains(g, "watchdog.dump") {
				return false
			}
		}
	}
	return blocked
}

// Exit ends the process after a hang was recorded.
func Exit() { os.Exit(3) }
