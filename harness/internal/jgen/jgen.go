// Package jgen generates valid inputs for the stores: type strings, JSON documents, timestamps.
package jgen

import (
	"bytes"
	"encoding/json"
	"fmt"
	"math"
	"math/rand/v2"
	"strconv"
	"strings"
	"time"
)

var runes = []rune{'a', 'Z', '0', ' ', '"', '\\', '/', '\n', '\t', 0, 0x7f, 'é', 'ß', '日', '本', '😀', '𝄞', 0x2028, '<', '>', '&', '\'', '%', '$'}

// TypeString returns a valid-UTF-8 event type string (possibly empty, with NUL, quotes, 4-byte runes, long).
func TypeString(r *rand.Rand) string {
	switch r.IntN(12) {
	case 0:
		return ""
	case 1:
		return strings.Repeat("long.type/", 1000)
	case 2:
		return "pkg.Event"
	case 3:
		return "*pkg.Event"
	}
	n := 1 + r.IntN(12)
	var b strings.Builder
	for i := 0; i < n; i++ {
		b.WriteRune(runes[r.IntN(len(runes))])
	}
	return b.String()
}

func str(r *rand.Rand) string {
	n := r.IntN(8)
	var b strings.Builder
	for i := 0; i < n; i++ {
		b.WriteRune(runes[r.IntN(len(runes))])
	}
	return b.String()
}

func number(r *rand.Rand, huge bool) string {
	switch r.IntN(9) {
	case 0:
		return "0"
	case 1:
		return "-0"
	case 2:
		return strconv.FormatInt(r.Int64()-r.Int64(), 10)
	case 3:
		return "9223372036854775807"
	case 4:
		if huge {
			return "123456789012345678901234567890" // beyond int64 / float53
		}
		return "18446744073709551615"
	case 5:
		return strconv.FormatFloat(r.NormFloat64()*1e6, 'g', -1, 64)
	case 6:
		return "1e-7"
	case 7:
		return strconv.FormatFloat(math.MaxFloat64, 'g', -1, 64)
	}
	return "1.5E+3"
}

func value(r *rand.Rand, depth int, ws bool) string {
	sp := func() string {
		if ws && r.IntN(3) == 0 {
			return []string{" ", "\n", "\t", "  "}[r.IntN(4)]
		}
		return ""
	}
	k := r.IntN(10)
	if depth <= 0 && k >= 6 {
		k = r.IntN(6)
	}
	switch k {
	case 0:
		return "null"
	case 1:
		return "true"
	case 2:
		return "false"
	case 3, 4:
		return number(r, true)
	case 5:
		t := str(r)
		if r.IntN(3) == 0 {
			// a string whose text is itself a JSON document
			t = []string{"42", "true", "null", `{"a":1}`, `"quoted"`, " 7 ", "[1,2]", "-0.5e3"}[r.IntN(8)]
		}
		b, _ := json.Marshal(t)
		return string(b)
	case 6, 7:
		n := r.IntN(4)
		parts := make([]string, n)
		for i := range parts {
			parts[i] = sp() + value(r, depth-1, ws) + sp()
		}
		return "[" + strings.Join(parts, ",") + "]"
	default:
		n := r.IntN(4)
		parts := make([]string, n)
		for i := range parts {
			kb, _ := json.Marshal(fmt.Sprintf("k%d%s", i, str(r))) // distinct keys
			parts[i] = sp() + string(kb) + sp() + ":" + sp() + value(r, depth-1, ws)
		}
		return "{" + strings.Join(parts, ",") + sp() + "}"
	}
}

// Doc returns a valid JSON document (any value kind, nesting up to depth; optional insignificant whitespace).
func Doc(r *rand.Rand, ws bool) json.RawMessage {
	d := 1 + r.IntN(4)
	if r.IntN(30) == 0 {
		s := strings.Repeat("[", 150) + "1" + strings.Repeat("]", 150)
		return json.RawMessage(s)
	}
	v := value(r, d, ws)
	if !json.Valid([]byte(v)) {
		panic("jgen: generated invalid JSON: " + v)
	}
	return json.RawMessage(v)
}

// Timestamp returns a time in year 1..9999 with nanoseconds, in UTC, a named zone, a fixed zone
// (named, unnamed, oddly named, with sub-minute offset) or the zero time.
func Timestamp(r *rand.Rand) time.Time {
	if r.IntN(15) == 0 {
		return time.Time{}
	}
	year := 1 + r.IntN(9998)
	if r.IntN(3) != 0 {
		year = 1970 + r.IntN(100)
	}
	ns := r.IntN(1e9)
	if r.IntN(4) == 0 {
		ns = 0
	}
	t := time.Date(year, time.Month(1+r.IntN(12)), 1+r.IntN(28), r.IntN(24), r.IntN(60), r.IntN(60), ns, time.UTC)
	switch r.IntN(8) {
	case 0:
		return t.In(time.FixedZone("", 3600*(r.IntN(25)-12)))
	case 1:
		return t.In(time.FixedZone("odd zone/+x", 1800*r.IntN(10)))
	case 2:
		return t.In(time.FixedZone("LMT", 3600+17*60+37)) // sub-minute offset
	case 3:
		return t.In(time.FixedZone("EST", -5*3600))
	case 4:
		return t.In(time.FixedZone("", -(3600*4 + 59)))
	case 5:
		return t.Local()
	}
	return t
}

// JSONEqual compares two documents as JSON values with number literals compared textually.
func JSONEqual(a, b []byte) bool {
	var x, y any
	da := json.NewDecoder(bytes.NewReader(a))
	da.UseNumber()
	db := json.NewDecoder(bytes.NewReader(b))
	db.UseNumber()
	if da.Decode(&x) != nil || db.Decode(&y) != nil {
		return false
	}
	return deepEq(x, y)
}

func deepEq(x, y any) bool {
	switch a := x.(type) {
	case map[string]any:
		b, ok := y.(map[string]any)
		if !ok || len(a) != len(b) {
			return false
		}
		for k, v := range a {
			w, ok := b[k]
			if !ok || !deepEq(v, w) {
				return false
			}
		}
		return true
	case []any:
		b, ok := y.([]any)
		if !ok || len(a) != len(b) {
			return false
		}
		for i := range a {
			if !deepEq(a[i], b[i]) {
				return false
			}
		}
		return true
	case json.Number:
		b, ok := y.(json.Number)
		return ok && a.String() == b.String()
	default:
		return x == y
	}
}
