package prog

import (
	"fmt"
	"math/rand/v2"
	"sort"
	"strings"

	"verif/harness/internal/evt"
)

// Profile steers the program generator.
type Profile struct {
	MinTypes, MaxTypes int
	MinOps, MaxOps     int
	Async              bool // generate Async registrations
	Scripts            bool // generate re-entrant scripts
	Panics             bool
	Cancels            bool // pre-cancelled publishes and handlers that cancel mid-publish
	Hooks              bool
	Obs                bool
	Store              bool
	FewClasses         bool // bias towards few handler classes (duplicates)
	PanicHandler       int  // 0 random, 1 always, 2 never
}

type gen struct {
	store bool
	r     *rand.Rand
	pf    Profile
	nt    int
}

// Gen generates a program.
func Gen(r *rand.Rand, drivers []evt.Driver, pf Profile) *Program {
	g := &gen{r: r, pf: pf}
	nt := pf.MinTypes + r.IntN(pf.MaxTypes-pf.MinTypes+1)
	g.nt = nt
	p := &Program{}
	// choose types; with probability 0.75 force two of them into one shard
	perm := r.Perm(len(drivers))
	p.Types = append(p.Types, perm[0])
	if nt > 1 && r.IntN(4) != 0 {
		s := drivers[perm[0]].Shard()
		for _, j := range perm[1:] {
			if drivers[j].Shard() == s {
				p.Types = append(p.Types, j)
				break
			}
		}
	}
	for _, j := range perm[1:] {
		if len(p.Types) >= nt {
			break
		}
		dup := false
		for _, x := range p.Types {
			if x == j {
				dup = true
			}
		}
		if !dup {
			p.Types = append(p.Types, j)
		}
	}
	g.nt = len(p.Types)
	c := &p.Cfg
	switch pf.PanicHandler {
	case 1:
		c.PanicHandler = true
	case 0:
		c.PanicHandler = r.IntN(3) != 0
	}
	c.PHBySetter = r.IntN(3) == 0
	if pf.Panics {
		if c.PanicHandler {
			c.PHRepublish = r.IntN(4) == 0
		} else {
			c.PHNil = r.IntN(2) == 0
		}
	}
	if pf.Hooks {
		c.BeforeLegacy, c.BeforeCtx, c.AfterLegacy, c.AfterCtx = r.IntN(2) == 0, r.IntN(2) == 0, r.IntN(2) == 0, r.IntN(2) == 0
		c.HooksSetter = r.IntN(3) == 0
		if r.IntN(4) == 0 {
			// one of the installed hooks publishes a nested event itself
			var on []int
			for i, b := range []bool{c.BeforeLegacy, c.BeforeCtx, c.AfterLegacy, c.AfterCtx} {
				if b {
					on = append(on, i+1)
				}
			}
			if len(on) > 0 {
				c.HookPublish = on[r.IntN(len(on))]
			}
		}
	}
	if pf.Obs {
		c.Obs = true
		c.ObsTwice = r.IntN(4) == 0
	}
	if pf.Store && r.IntN(3) != 0 {
		c.Store = true
		c.StoreFirst = true // option order is C09's subject; here the documented order
		c.ErrHandler = r.IntN(2) == 0
		c.PersistTimeout = r.IntN(3) == 0
		for i := 0; i < 40; i++ {
			if r.IntN(5) == 0 {
				c.FailAppends = append(c.FailAppends, i)
			}
		}
	}
	g.store = c.Store
	n := pf.MinOps + r.IntN(pf.MaxOps-pf.MinOps+1)
	for i := 0; i < n; i++ {
		p.Ops = append(p.Ops, g.op(0, true))
	}
	if pf.Panics && !c.PanicHandler && !c.PHNil && r.IntN(2) == 0 {
		// the panic handler is installed later: at a top-level point, or by a handler during a delivery.
		// A setter must not run while asynchronous handlers are in flight (setters are excluded from
		// concurrent use), so such programs have no async registrations.
		var noAsync func(ops []Op)
		noAsync = func(ops []Op) {
			for i := range ops {
				if ops[i].Reg != nil {
					ops[i].Reg.Async = false
					for _, sc := range ops[i].Reg.Script {
						noAsync(sc)
					}
				}
			}
		}
		noAsync(p.Ops)
		at := r.IntN(len(p.Ops))
		if sub := p.Ops[at]; sub.K == Sub && !sub.Reg.Async && r.IntN(2) == 0 {
			sub.Reg.Script = append([][]Op{{{K: SetPH}}}, sub.Reg.Script...)
		} else {
			p.Ops = append(p.Ops[:at], append([]Op{{K: SetPH}}, p.Ops[at:]...)...)
		}
	}
	return p
}

func (g *gen) class(ctx bool) int {
	n := evt.NumPlain
	if ctx {
		n = evt.NumCtx
	}
	if g.pf.FewClasses || g.r.IntN(2) == 0 {
		if n > 3 {
			n = 3
		}
	}
	return g.r.IntN(n)
}

func (g *gen) reg(depth int) *Reg {
	r := g.r
	rg := &Reg{Ctx: r.IntN(3) == 0}
	rg.Class = g.class(rg.Ctx)
	rg.Once = r.IntN(4) == 0
	if g.pf.Async {
		rg.Async = r.IntN(4) == 0
	}
	rg.Seq = r.IntN(5) == 0
	if g.store && r.IntN(4) == 0 {
		rg.Replay, rg.Ctx = true, false
		rg.Class = g.class(false)
	}
	switch r.IntN(8) {
	case 0:
		rg.Filter = 1
	case 1:
		rg.Filter = 2
	case 2:
		rg.Filter = 3
	case 3:
		rg.Filter = 4
	}
	if g.pf.Panics && r.IntN(3) == 0 {
		rg.PanicKind = 1 + r.IntN(8)
		if r.IntN(2) == 0 {
			rg.PanicMod = 2 + uint64(r.IntN(2))
			rg.PanicRem = uint64(r.IntN(int(rg.PanicMod)))
		}
	}
	if g.pf.Cancels && !rg.Async && r.IntN(5) == 0 {
		rg.CancelAt = 1 + r.IntN(2)
	}
	if g.pf.Scripts && !rg.Async && depth < 3 && r.IntN(2) == 0 {
		k := 1 + r.IntN(2)
		for i := 0; i < k; i++ {
			var ops []Op
			m := r.IntN(4)
			for j := 0; j < m; j++ {
				ops = append(ops, g.op(depth+1, !rg.Seq))
			}
			rg.Script = append(rg.Script, ops)
		}
	}
	return rg
}

func (g *gen) op(depth int, allowPub bool) Op {
	r := g.r
	t := r.IntN(g.nt)
	for {
		x := r.IntN(100)
		switch {
		case x < 30:
			return Op{K: Sub, T: t, Reg: g.reg(depth)}
		case x < 62:
			if !allowPub {
				continue
			}
			o := Op{K: Pub, T: t, UseCtx: r.IntN(2) == 0}
			if o.UseCtx && g.pf.Cancels && r.IntN(5) == 0 {
				o.PreCancelled = true
			}
			if o.UseCtx && g.pf.Cancels && r.IntN(3) == 0 {
				o.Deadline = true
			}
			if o.UseCtx && depth > 0 {
				o.Inherit = r.IntN(2) == 0
			}
			if o.UseCtx && !o.PreCancelled && !o.Deadline && r.IntN(6) == 0 {
				o.Detached = true
			}
			return o
		case x < 74:
			ctx := r.IntN(3) == 0
			return Op{K: Unsub, T: t, Ctx: ctx, Class: g.class(ctx)}
		case x < 79:
			return Op{K: Clear, T: t}
		case x < 81:
			return Op{K: ClearAll}
		case x < 82 && g.store:
			return Op{K: CancelSub, Class: r.IntN(4)}
		case x < 87:
			return Op{K: Has, T: t}
		case x < 98:
			return Op{K: Count, T: t}
		case x == 98 && depth == 0 && r.IntN(2) == 0:
			return Op{K: Shutdown, PreCancelled: r.IntN(2) == 0}
		default:
			if depth == 0 {
				return Op{K: Wait}
			}
		}
	}
}

func (e *Engine) logOp(op *Op) {
	k := fmt.Sprintf("%s@%d", op.K, e.depth)
	if op.K == Sub {
		s := op.Reg
		k += fmt.Sprintf(":c%v,o%v,a%v,s%v,f%d,p%d,x%d,r%v", s.Ctx, s.Once, s.Async, s.Seq, s.Filter, s.PanicKind, s.CancelAt, s.Replay)
	}
	if op.K == Pub {
		k += fmt.Sprintf(":u%v,pc%v,d%v,t%v", op.UseCtx, op.PreCancelled, op.Deadline, op.Detached)
	}
	if e.execLog[k] < 3 {
		e.execLog[k]++
	}
}

// Signature is the distinct-case signature of the executed program: the multiset (counts capped
// at 3) of (operation kind, re-entrancy depth, option combination), plus whether two subscribed
// types shared a shard.
func (e *Engine) Signature() string {
	var ks []string
	for k, n := range e.execLog {
		ks = append(ks, fmt.Sprintf("%s*%d", k, n))
	}
	sort.Strings(ks)
	return fmt.Sprintf("%v|%s", e.ShardShare(), strings.Join(ks, ";"))
}

// ShardShare reports whether two types that both had a registration share a routing shard
// (recomputed by the harness only for reporting).
func (e *Engine) ShardShare() bool {
	seen := map[int]int{}
	for _, r := range e.regs {
		d := e.drv(r.typ)
		if t, ok := seen[d.Shard()]; ok && t != r.typ {
			return true
		}
		seen[d.Shard()] = r.typ
	}
	return false
}
