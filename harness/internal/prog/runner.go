package prog

import (
	"encoding/json"
	"fmt"
	"os"
	"time"

	ebu "github.com/jilio/ebu"

	"verif/harness/internal/evt"
	"verif/harness/internal/vk"
	"verif/harness/internal/watchdog"
)

// Harness runs programs for one check: attribution of violations and hangs to the current program.
type Harness struct {
	Run     *vk.Run
	Drivers []evt.Driver
	Dog     *watchdog.Dog
	cur     *Program
	curIdx  int
	prefix  string
}

// NewHarness starts the watchdog; prefix is prepended to hang signatures.
func NewHarness(run *vk.Run, prefix string) *Harness {
	h := &Harness{Run: run, Drivers: evt.Drivers(), prefix: prefix}
	if err := evt.SelfTest(); err != nil {
		panic("self-test: " + err.Error())
	}
	h.Dog = watchdog.Start(20*time.Second, func(v watchdog.Verdict) {
		if v.Deadlock {
			run.Violation(prefix+":deadlock", "program hung with goroutines parked below ebu frames (publish / Wait did not return)", map[string]any{"case": h.curIdx, "program": h.cur, "dump": clip(v.Dump, 20000)})
		} else {
			run.Count("watchdog_slow_windows", 1)
			return
		}
		run.Finish()
		watchdog.Exit()
	})
	return h
}

func clip(s string, n int) string {
	if len(s) > n {
		return s[:n]
	}
	return s
}

// Exec runs one program; after is called with the engine once asynchronous work has been waited
// for (monitors go there). obs optionally replaces the recording Observability.
func (h *Harness) Exec(idx int, p *Program, obs func(e *Engine) ebu.Observability, after func(e *Engine)) *Engine {
	h.cur, h.curIdx = p, idx
	var eng *Engine
	viol := func(sig, desc string) {
		h.Run.Violation(sig, desc, map[string]any{"case": idx, "program": p})
	}
	func() {
		defer func() {
			if r := recover(); r != nil {
				h.Run.Violation(h.prefix+":panic-escaped", fmt.Sprintf("a panic escaped from the bus into the caller: %v", r), map[string]any{"case": idx, "program": p})
				if eng != nil {
					eng.failed = true
				}
			}
		}()
		eng = NewWith(h.Drivers, p, viol, obs)
		eng.Run()
		if after != nil {
			after(eng)
		}
	}()
	h.Dog.Tick()
	return eng
}

// ReplayProgram returns the program of a replay file ($VERIF_REPLAY), if any.
func ReplayProgram() *Program {
	path := os.Getenv("VERIF_REPLAY")
	if path == "" {
		return nil
	}
	b, err := os.ReadFile(path)
	if err != nil {
		panic(err)
	}
	var rf struct {
		Witness struct {
			Program *Program `json:"program"`
		} `json:"witness"`
	}
	if err := json.Unmarshal(b, &rf); err != nil || rf.Witness.Program == nil {
		panic(fmt.Sprintf("replay file %s holds no program: %v", path, err))
	}
	return rf.Witness.Program
}

// CountStats adds the engine's statistics to the run's counters.
func (h *Harness) CountStats(e *Engine) {
	st := e.Stats
	r := h.Run
	r.Count("sync_invocations", int64(st.SyncInv))
	r.Count("async_invocations", int64(st.AsyncInv))
	r.Count("reentrant_ops", int64(st.Reentrant))
	r.Count("reentrant_registry_mutations", int64(st.ReentrantMut))
	r.Count("publishes", int64(st.Pubs))
	r.Count("nested_publishes", int64(st.NestedPubs))
	r.Count("queries_compared", int64(st.Queries))
	r.Count("once_fired", int64(st.Zombies))
	r.Count("unsubscribes_of_a_once_handler_fired_by_the_running_publish", int64(st.ZombieUnsubs))
	r.Count("replay_subscription_contexts_cancelled", int64(st.SubCtxCancels))
	r.Count("shutdown_calls_between_publishes", int64(st.Shutdowns))
	r.Count("panicking_invocations", int64(st.Panics))
	r.Count("mid_publish_cancels", int64(st.Cancels))
	r.Count("trace_events", int64(len(e.Trace)))
	r.Count("publishes_from_inside_hooks", int64(st.HookPubs))
	r.Count("publishes_from_inside_the_panic_handler", int64(st.PHPubs))
	r.Count("replay_subscriptions", int64(st.ReplaySubs))
	r.Count("replay_phase_deliveries", int64(st.ReplayDeliveries))
	r.Max("max_reentrancy_depth", int64(st.MaxDepth))
}
