package prog

import (
	"fmt"
	ebu "github.com/jilio/ebu"
	"sort"
	"strings"
)

// The monitors below run after Engine.Run (bus.Wait has returned) over the stamped trace.

func (e *Engine) reg(id int) *mreg { return e.regs[id-1] }

func (e *Engine) eventsFor(eid uint64, kind string) []TEv {
	var r []TEv
	for _, t := range e.Trace {
		if t.EID == eid && t.K == kind {
			r = append(r, t)
		}
	}
	return r
}

func (e *Engine) sortedPubs() []*pubInfo {
	var l []*pubInfo
	for _, p := range e.pubs {
		l = append(l, p)
	}
	sort.Slice(l, func(i, j int) bool { return l[i].eid < l[j].eid })
	return l
}

// CheckPanics: the panic handler (if set) was called exactly once per panicking invocation with
// the event, the handler's type and the panic value (C05).
func (e *Engine) CheckPanics() {
	// the panic handler is either configured from the start or installed at a recorded point of the
	// program (SetPH); panics of invocations that began after that point must be reported
	setAt := uint64(0)
	if !e.P.Cfg.PanicHandler {
		setAt = ^uint64(0)
		for _, t := range e.Trace {
			if t.K == "ph.set" {
				setAt = t.St
				break
			}
		}
	}
	if e.failed || setAt == ^uint64(0) {
		return
	}
	for _, pi := range e.sortedPubs() {
		want := map[string]int{}
		lastEnter := map[int]uint64{}
		for _, t := range e.Trace {
			if t.K == "h.enter" && t.EID == pi.eid {
				lastEnter[t.Reg] = t.St
			}
			// an invocation that began after the panic handler was installed (one that installs it
			// itself and then panics began before)
			if t.K == "h.exit" && t.EID == pi.eid && t.Err && lastEnter[t.Reg] > setAt {
				r := e.reg(t.Reg)
				ht := e.drv(r.typ).HandlerType(r.spec.Ctx).String()
				want[ht+"|"+expectPanicDesc(r.spec.PanicKind, r.id, pi.eid)]++
			}
		}
		got := map[string]int{}
		for _, t := range e.eventsFor(pi.eid, "panichandler") {
			got[t.Info]++
		}
		if !eqCount(want, got) {
			e.fail("panic:handler-calls", "publish %d: panic handler calls %v, expected %v (one per panicking invocation, with handler type and panic value)", pi.eid, got, want)
			return
		}
	}
	for _, t := range e.Trace {
		if t.K == "panichandler" {
			if _, ok := e.pubs[t.EID]; !ok {
				e.fail("panic:handler-wrong-event", "panic handler called with an event that was never published (%d)", t.EID)
				return
			}
		}
	}
}

func eqCount(a, b map[string]int) bool {
	if len(a) != len(b) {
		return false
	}
	for k, v := range a {
		if b[k] != v {
			return false
		}
	}
	return true
}

// CheckHooks: each configured before/after hook ran exactly once per publish, before hooks before
// any handler of that publish, after hooks after all its synchronous handlers, with the event and
// its type (C08).
func (e *Engine) CheckHooks() {
	if e.failed {
		return
	}
	c := e.P.Cfg
	type hk struct {
		kind   string
		on     bool
		before bool
	}
	hooks := []hk{{"hook.before", c.BeforeLegacy, true}, {"hook.beforectx", c.BeforeCtx, true}, {"hook.after", c.AfterLegacy, false}, {"hook.afterctx", c.AfterCtx, false}}
	for _, pi := range e.sortedPubs() {
		var call, ret, firstEnter, lastSyncExit uint64
		for _, t := range e.Trace {
			if t.EID != pi.eid {
				continue
			}
			switch t.K {
			case "pub.call":
				call = t.St
			case "pub.ret":
				ret = t.St
			case "h.enter":
				if firstEnter == 0 {
					firstEnter = t.St
				}
			case "h.exit":
				if !t.Async {
					lastSyncExit = t.St
				}
			}
		}
		tname := e.drv(pi.typ).RType().String()
		for _, h := range hooks {
			evs := e.eventsFor(pi.eid, h.kind)
			if !h.on {
				continue
			}
			if len(evs) != 1 {
				e.fail("hooks:count:"+h.kind, "publish %d (%s, precancelled=%v, cancelled=%v, %d sync / %d async deliveries): %s ran %d times, want exactly 1",
					pi.eid, tname, pi.pre, pi.cancelled, len(pi.syncRegs), len(pi.asyncRegs), h.kind, len(evs))
				return
			}
			t := evs[0]
			if t.Info != tname || t.Err {
				e.fail("hooks:args:"+h.kind, "publish %d: %s received type %q (want %q) / wrong event value=%v", pi.eid, h.kind, t.Info, tname, t.Err)
				return
			}
			if t.St < call || t.St > ret {
				e.fail("hooks:outside-publish:"+h.kind, "publish %d: %s ran outside the publish call", pi.eid, h.kind)
				return
			}
			if h.before && firstEnter != 0 && t.St > firstEnter {
				e.fail("hooks:before-after-handler:"+h.kind, "publish %d: %s ran after a handler of that publish had started", pi.eid, h.kind)
				return
			}
			if !h.before && t.St < lastSyncExit {
				e.fail("hooks:after-before-handler:"+h.kind, "publish %d: %s ran before a synchronous handler of that publish returned", pi.eid, h.kind)
				return
			}
			if strings.HasSuffix(h.kind, "ctx") && pi.useCtx && t.Par != pi.eid {
				e.fail("hooks:ctx-value:"+h.kind, "publish %d: %s context does not carry the publish context's value", pi.eid, h.kind)
				return
			}
		}
	}
}

// CheckCtxPropagation cancels every publish context and checks that each context that was handed
// to a context-aware handler observes the cancellation (C08).
func (e *Engine) CheckCtxPropagation() {
	// before anything is cancelled: a context handed to a handler lives as long as the publish
	// context it was derived from, and has the same deadline (none, if that has none)
	e.mu.Lock()
	for _, c := range e.captured {
		pi := e.pubs[c.eid]
		if pi == nil || pi.ctx == nil || e.failed {
			continue
		}
		if pi.ctx.Err() == nil && c.ctx.Err() != nil {
			e.failLocked("ctx:ended-before-the-publish-context", "the context given to registration #%d for event %d has ended (%v) although the context of that publish is still live", c.reg, c.eid, c.ctx.Err())
			break
		}
		d1, ok1 := pi.ctx.Deadline()
		d2, ok2 := c.ctx.Deadline()
		if ok1 != ok2 || !d1.Equal(d2) {
			e.failLocked("ctx:deadline-differs-from-the-publish-context", "the context given to registration #%d for event %d reports the deadline (%v, %v), the context of that publish (%v, %v)", c.reg, c.eid, d2, ok2, d1, ok1)
			break
		}
	}
	e.mu.Unlock()
	for _, c := range e.cancels {
		c()
	}
	if e.failed {
		return
	}
	e.mu.Lock()
	defer e.mu.Unlock()
	for _, c := range e.captured {
		if c.ctx.Value(detachedKey{}) != nil {
			continue // a detached publish context never ends
		}
		if c.ctx.Err() == nil {
			e.failLocked("ctx:cancel-not-propagated", "context given to registration #%d for event %d is not cancelled when the publish context is", c.reg, c.eid)
			return
		}
	}
}

// CheckObs: observability callbacks are balanced, nested and truthful (C20, recording implementation).
func (e *Engine) CheckObs() {
	if e.failed || !e.P.Cfg.Obs || e.ObsImpl != nil {
		return
	}
	e.mu.Lock()
	mismatch := e.obsCtxMismatch
	e.mu.Unlock()
	if e.extraObs != nil {
		if msg := e.extraObs.problem(); msg != "" {
			e.fail("obs:earlier-observer-unbalanced", "%s", msg)
			return
		}
	}
	if mismatch != "" {
		e.fail("obs:complete-got-another-context", "a %s complete callback was handed a context that is not the one its start callback returned (a copy or a child of it)", mismatch)
		return
	}
	pubTok := map[uint64]uint64{} // eid -> token
	tokPub := map[uint64]uint64{}
	starts := map[uint64]TEv{}
	ends := map[uint64][]TEv{}
	for _, t := range e.Trace {
		switch t.K {
		case "obs.pub.start":
			if _, dup := pubTok[t.EID]; dup {
				e.fail("obs:pub-start-dup", "publish %d: OnPublishStart called twice", t.EID)
				return
			}
			pubTok[t.EID] = t.Tok
			tokPub[t.Tok] = t.EID
			starts[t.Tok] = t
		case "obs.h.start", "obs.persist.start":
			starts[t.Tok] = t
		case "obs.pub.end", "obs.h.end", "obs.persist.end":
			ends[t.Tok] = append(ends[t.Tok], t)
		}
	}
	// every start has exactly one end of the same family, with the context its start returned
	for tok, s := range starts {
		en := ends[tok]
		fam := strings.TrimSuffix(s.K, ".start")
		if len(en) != 1 || en[0].K != fam+".end" {
			e.fail("obs:unbalanced:"+fam, "%s (token %d, publish token %d): %d matching complete callbacks received the context returned by the start", s.K, tok, s.Par, len(en))
			return
		}
		if en[0].St < s.St {
			e.fail("obs:end-before-start:"+fam, "%s completed before it started", fam)
			return
		}
		if fam != "obs.pub" {
			if s.Par == 0 || tokPub[s.Par] == 0 {
				e.fail("obs:not-descended:"+fam, "%s context does not descend from a publish context", s.K)
				return
			}
			if en[0].Par != s.Par {
				e.fail("obs:end-parent:"+fam, "%s complete saw publish token %d, start saw %d", fam, en[0].Par, s.Par)
				return
			}
		}
	}
	for tok, en := range ends {
		if _, ok := starts[tok]; !ok {
			e.fail("obs:end-without-start", "%s received a context (token %d) that no start callback returned", en[0].K, tok)
			return
		}
	}
	for _, pi := range e.sortedPubs() {
		ptok, ok := pubTok[pi.eid]
		if !ok {
			e.fail("obs:pub-start-missing", "publish %d: no OnPublishStart", pi.eid)
			return
		}
		ps := starts[ptok]
		if ps.Info != ebu.EventType(e.drv(pi.typ).Make(pi.eid)) {
			e.fail("obs:pub-type", "publish %d: OnPublishStart event type %q", pi.eid, ps.Info)
			return
		}
		var hStarts, hStartsAsync, hEndsErr, pStarts int
		for _, s := range starts {
			if s.Par != ptok {
				continue
			}
			switch s.K {
			case "obs.h.start":
				hStarts++
				if s.Async {
					hStartsAsync++
				}
				if ends[s.Tok][0].Err {
					hEndsErr++
				}
			case "obs.persist.start":
				pStarts++
			}
		}
		var enters, entersAsync, panics, appends int
		for _, t := range e.Trace {
			if t.EID != pi.eid {
				continue
			}
			switch t.K {
			case "h.enter":
				enters++
				if t.Async {
					entersAsync++
				}
				// handler token seen in the handler's own context (context-aware handlers)
				if t.Tok != 0 {
					s, ok := starts[t.Tok]
					if !ok || s.K != "obs.h.start" || s.St > t.St {
						e.fail("obs:handler-ctx", "publish %d: handler context does not carry the token of a handler start that preceded it", pi.eid)
						return
					}
					if s.Par != ptok {
						e.fail("obs:handler-parent", "publish %d: handler start context belongs to another publish", pi.eid)
						return
					}
				}
			case "h.exit":
				if t.Err {
					panics++
				}
			case "store.append":
				appends++
				if t.Tok == 0 {
					e.fail("obs:persist-ctx", "publish %d: Append did not receive the context returned by OnPersistStart", pi.eid)
					return
				}
				en := ends[t.Tok]
				if len(en) != 1 || en[0].Err != t.Err || en[0].St < t.St {
					e.fail("obs:persist-error", "publish %d: persist complete error=%v but append failed=%v", pi.eid, len(en) == 1 && en[0].Err, t.Err)
					return
				}
			}
		}
		if hStarts != enters || hStartsAsync != entersAsync {
			e.fail("obs:handler-pairs", "publish %d: %d handler start callbacks (%d async) for %d handler invocations (%d async)", pi.eid, hStarts, hStartsAsync, enters, entersAsync)
			return
		}
		if hEndsErr != panics {
			e.fail("obs:handler-error", "publish %d: %d handler completes carried an error, %d invocations panicked", pi.eid, hEndsErr, panics)
			return
		}
		if pStarts != appends {
			e.fail("obs:persist-pairs", "publish %d: %d persist starts for %d append attempts", pi.eid, pStarts, appends)
			return
		}
		// handler end after handler exit, for context-aware handlers (token known)
		for _, t := range e.Trace {
			if t.EID == pi.eid && t.K == "h.enter" && t.Tok != 0 {
				var exit TEv
				for _, x := range e.Trace {
					if x.K == "h.exit" && x.EID == t.EID && x.Reg == t.Reg && x.St > t.St {
						exit = x
						break
					}
				}
				en := ends[t.Tok][0]
				if en.St < exit.St || en.Err != exit.Err {
					e.fail("obs:handler-complete-order", "publish %d: handler complete (err=%v) does not follow the handler's exit (panicked=%v)", pi.eid, en.Err, exit.Err)
					return
				}
			}
		}
		// publish start/complete bracket the hooks and sync handlers
		pe := ends[ptok][0]
		var call, ret uint64
		for _, t := range e.Trace {
			if t.EID == pi.eid && t.K == "pub.call" {
				call = t.St
			}
			if t.EID == pi.eid && t.K == "pub.ret" {
				ret = t.St
			}
		}
		if ps.St < call || pe.St > ret {
			e.fail("obs:pub-bracket", "publish %d: publish start/complete outside the call", pi.eid)
			return
		}
	}
}

// Truth returns the true numbers the OpenTelemetry counters must equal.
func (e *Engine) Truth() (publishes, handlerRuns, handlerPanics, persistAttempts, persistFailures int) {
	publishes = len(e.pubs)
	for _, t := range e.Trace {
		switch t.K {
		case "h.enter":
			handlerRuns++
		case "h.exit":
			if t.Err {
				handlerPanics++
			}
		case "store.append":
			persistAttempts++
			if t.Err {
				persistFailures++
			}
		}
	}
	return
}

// TruthByMode splits handler runs and panics by dispatch mode (index 0 synchronous, 1 asynchronous).
func (e *Engine) TruthByMode() (runs, panics [2]int) {
	for _, t := range e.Trace {
		i := 0
		if t.Async {
			i = 1
		}
		switch t.K {
		case "h.enter":
			runs[i]++
		case "h.exit":
			if t.Err {
				panics[i]++
			}
		}
	}
	return
}

// ObsSignature summarises which handler outcomes × persist outcomes were seen per publish.
func (e *Engine) ObsSignature() (sig string, nontrivial bool) {
	set := map[string]struct{}{}
	for _, pi := range e.sortedPubs() {
		var normal, panicked, skipped, failedPersist int
		for _, t := range e.Trace {
			if t.EID != pi.eid {
				continue
			}
			if t.K == "h.exit" {
				if t.Err {
					panicked++
				} else {
					normal++
				}
			}
			if t.K == "store.append" && t.Err {
				failedPersist++
			}
		}
		if pi.cancelled {
			skipped = 1
		}
		k := fmt.Sprintf("n%d,p%d,s%d,f%d", min(normal, 2), min(panicked, 2), skipped, failedPersist)
		set[k] = struct{}{}
		if ((panicked > 0 || skipped > 0) && normal > 0) || failedPersist > 0 {
			nontrivial = true
		}
	}
	var ks []string
	for k := range set {
		ks = append(ks, k)
	}
	sort.Strings(ks)
	return strings.Join(ks, ";"), nontrivial
}

// PubTruth holds the true numbers of one publish.
type PubTruth struct{ Handlers, Panics, Appends, AppendFails int }

// PerPublishTruth returns the true numbers per publish, in publish-call order.
func (e *Engine) PerPublishTruth() []PubTruth {
	var out []PubTruth
	idx := map[uint64]int{}
	for _, pi := range e.sortedPubs() {
		idx[pi.eid] = len(out)
		out = append(out, PubTruth{})
	}
	for _, t := range e.Trace {
		i, ok := idx[t.EID]
		if !ok || t.EID == 0 {
			continue
		}
		switch t.K {
		case "h.enter":
			out[i].Handlers++
		case "h.exit":
			if t.Err {
				out[i].Panics++
			}
		case "store.append":
			out[i].Appends++
			if t.Err {
				out[i].AppendFails++
			}
		}
	}
	return out
}
