// Package prog is the lockstep scenario engine: a generated program of registry / publish
// operations (including operations scripted re-entrantly inside handlers) is executed against the
// real bus and, step by step, against a reference model of the registry that follows the property
// text. Handlers, filters, hooks, observability callbacks and the store wrapper all report into one
// stamped trace, which the per-property monitors check.
package prog

import (
	"context"
	"encoding/json"
	"errors"
	"fmt"
	"io/fs"
	"reflect"
	"runtime"
	"strings"
	"sync"
	"time"

	ebu "github.com/jilio/ebu"

	"verif/harness/internal/evt"
)

// Kind of operation.
type Kind string

const (
	Sub       Kind = "sub"
	Unsub     Kind = "unsub"
	Clear     Kind = "clear"
	ClearAll  Kind = "clearall"
	Pub       Kind = "pub"
	Has       Kind = "has"
	Count     Kind = "count"
	Wait      Kind = "wait"
	CancelSub Kind = "cancelsubctx"    // the context a SubscribeWithReplay registration was made with ends (Class: which one, counted over such registrations)
	Shutdown  Kind = "shutdown"        // bus.Shutdown at top level (PreCancelled: with a context that has already ended); the bus stays usable
	SetPH     Kind = "setpanichandler" // install the panic handler at this point (possibly from inside a handler)
)

// Reg describes a registration.
type Reg struct {
	Class     int      `json:"class"`
	Ctx       bool     `json:"ctx,omitempty"`
	Once      bool     `json:"once,omitempty"`
	Async     bool     `json:"async,omitempty"`
	Seq       bool     `json:"seq,omitempty"`
	Filter    int      `json:"filter,omitempty"`    // 0 none, 1 accept-all, 2 reject-all, 3 even ids, 4 odd ids
	Script    [][]Op   `json:"script,omitempty"`    // ops run re-entrantly on the k-th synchronous invocation
	PanicKind int      `json:"panic,omitempty"`     // 0 none, 1 string, 2 error, 3 struct, 4 nil-deref, 5 panic(nil), 6 typed nil error, 7 long multi-byte message, 8 error value of an uncomparable type
	PanicMod  uint64   `json:"panic_mod,omitempty"` // panics when id%PanicMod==PanicRem (Mod<=1: always)
	PanicRem  uint64   `json:"panic_rem,omitempty"`
	CancelAt  int      `json:"cancel_at,omitempty"`  // cancels the publish context on its k-th invocation (1-based), 0 never
	RejectIDs []uint64 `json:"reject_ids,omitempty"` // Filter 5: rejects exactly these event ids
	CancelIDs []uint64 `json:"cancel_ids,omitempty"` // cancels the publish context when invoked with one of these ids
	Replay    bool     `json:"replay,omitempty"`     // registered through SubscribeWithReplay (needs Cfg.Store; plain handler)
}

// Op is one operation of a program.
type Op struct {
	K            Kind `json:"k"`
	T            int  `json:"t"`
	Reg          *Reg `json:"reg,omitempty"`
	Class        int  `json:"class,omitempty"` // Unsub
	Ctx          bool `json:"ctx,omitempty"`   // Unsub: class is a context-handler class
	UseCtx       bool `json:"use_ctx,omitempty"`
	PreCancelled bool `json:"pre_cancelled,omitempty"`
	Inherit      bool `json:"inherit,omitempty"`  // nested publish derives its context from the handler's
	Detached     bool `json:"detached,omitempty"` // the publish context is live but carries the values of a request context that is over
	Deadline     bool `json:"deadline,omitempty"` // the context ends with DeadlineExceeded instead of Canceled
}

// manualCtx is a context whose end is triggered by the harness and reported as DeadlineExceeded
// (a deadline that expires at a chosen logical point, without any wall-clock in the scenario).
type manualCtx struct {
	context.Context
	mu   sync.Mutex
	done chan struct{}
	err  error
}

func (m *manualCtx) Done() <-chan struct{} { return m.done }
func (m *manualCtx) Err() error {
	m.mu.Lock()
	defer m.mu.Unlock()
	return m.err
}
func (m *manualCtx) Deadline() (time.Time, bool) { return time.Unix(1, 0), true }
func (m *manualCtx) fire() {
	m.mu.Lock()
	if m.err == nil {
		m.err = context.DeadlineExceeded
		close(m.done)
	}
	m.mu.Unlock()
}

// detachedCtx is the classic "detach" wrapper: the values of a parent context without its
// cancellation (what applications wrote before context.WithoutCancel existed).
type detachedCtx struct{ parent context.Context }
type detachedKey struct{}

func (detachedCtx) Deadline() (time.Time, bool) { return time.Time{}, false }
func (detachedCtx) Done() <-chan struct{}       { return nil }
func (detachedCtx) Err() error                  { return nil }
func (d detachedCtx) Value(k any) any {
	if _, ok := k.(detachedKey); ok {
		return true
	}
	return d.parent.Value(k)
}

// Cfg configures the bus for a program.
type Cfg struct {
	PanicHandler   bool  `json:"panic_handler,omitempty"`
	PHBySetter     bool  `json:"ph_by_setter,omitempty"`
	BeforeLegacy   bool  `json:"before_legacy,omitempty"`
	BeforeCtx      bool  `json:"before_ctx,omitempty"`
	AfterLegacy    bool  `json:"after_legacy,omitempty"`
	AfterCtx       bool  `json:"after_ctx,omitempty"`
	HooksSetter    bool  `json:"hooks_by_setter,omitempty"` // legacy hooks installed by Set*Hook after New
	Obs            bool  `json:"obs,omitempty"`
	Store          bool  `json:"store,omitempty"`
	StoreFirst     bool  `json:"store_first,omitempty"` // WithStore before the hook options (else after)
	FailAppends    []int `json:"fail_appends,omitempty"`
	ErrHandler     bool  `json:"err_handler,omitempty"`
	PHNil          bool  `json:"ph_nil,omitempty"`          // the panic handler is explicitly nil (WithPanicHandler(nil) / SetPanicHandler(nil) after a real one)
	PHRepublish    bool  `json:"ph_republish,omitempty"`    // the panic handler re-publishes an event of the panicking handler's type (a retry)
	PersistTimeout bool  `json:"persist_timeout,omitempty"` // WithPersistenceTimeout(1h) next to the store: it bounds the append only
	ObsTwice       bool  `json:"obs_twice,omitempty"`       // WithObservability given twice (an independent observer first)
	HookPublish    int   `json:"hook_publish,omitempty"`    // 1..4: that hook (before, beforectx, after, afterctx) publishes one nested event per top-level publish
}

// Program is a configuration plus top-level operations.
type Program struct {
	Cfg   Cfg   `json:"cfg"`
	Types []int `json:"types"` // driver indices used; Op.T indexes into this
	Ops   []Op  `json:"ops"`
}

// TEv is a trace event.
type TEv struct {
	St    uint64 `json:"st"`
	K     string `json:"k"`
	EID   uint64 `json:"eid,omitempty"`
	Reg   int    `json:"reg,omitempty"`
	Tok   uint64 `json:"tok,omitempty"`
	Par   uint64 `json:"par,omitempty"`
	Async bool   `json:"async,omitempty"`
	Err   bool   `json:"err,omitempty"`
	Info  string `json:"info,omitempty"`
}

type mreg struct {
	id     int
	typ    int
	spec   *Reg
	fired  bool
	invoc  int
	zombie bool // fired in a publish that has not returned yet
}

// isReplay: registered through SubscribeWithReplay — the bus wraps the handler, so it cannot be
// addressed by Unsubscribe.
func (r *mreg) isReplay(e *Engine) bool { return r.spec.Replay && e.P.Cfg.Store && !r.spec.Ctx }

type frame struct {
	typ       int
	eid       uint64
	snap      []*mreg
	pos       int
	cancelled bool
	pre       bool
	fired     []*mreg
	ctx       context.Context
	cancel    context.CancelFunc
	asyncRegs []int
	syncRegs  []int
}

type pubInfo struct {
	eid        uint64
	typ        int
	useCtx     bool
	pre        bool
	cancelled  bool
	syncRegs   []int
	asyncRegs  []int
	panicsSync int
	returned   bool
	ctx        context.Context
}

// Engine executes one program.
type Engine struct {
	Drivers  []evt.Driver
	P        *Program
	Bus      *ebu.EventBus
	MaxDepth int

	model  map[int][]*mreg
	regs   []*mreg
	frames []*frame
	nextID uint64
	depth  int
	failed bool

	mu             sync.Mutex
	clock          uint64
	Trace          []TEv
	tokens         uint64
	asyncGot       map[[2]uint64]int // (reg, eid) -> count
	asyncWant      map[[2]uint64][2]int
	asyncPanic     map[[2]uint64]int
	pubs           map[uint64]*pubInfo
	captured       []capturedCtx
	cancels        []context.CancelFunc
	keepLive       []context.CancelFunc // cancel functions of application contexts that stay live for the whole program
	persisted      []persistedEv
	extraObs       *balanceObs
	obsCtxMismatch string // the first complete callback that was handed another context than its start returned
	subCancels     []context.CancelFunc
	inHookPub      bool
	inPHPub        bool
	syncPanicType  int
	mainGoid       int64
	replay         *replayFrame
	ObsImpl        ebu.Observability // overrides the recording Observability when Cfg.Obs is set
	execLog        map[string]int
	appendN        int
	Store          *ebu.MemoryStore

	Viol func(sig, desc string)

	// statistics for evidence
	Stats struct {
		SyncInv, AsyncInv, Reentrant, ReentrantMut, Queries, Pubs, NestedPubs, Panics, Cancels int
		ReplaySubs, ReplayDeliveries, HookPubs, PHPubs                                         int
		ShardShare                                                                             bool
		MaxDepth                                                                               int
		Zombies                                                                                int
		SkippedUnsub, ZombieUnsubs, SubCtxCancels, Shutdowns                                   int
	}
}

type persistedEv struct {
	eid uint64
	typ int
}

// replayFrame: deliveries expected from the replay phase of a running SubscribeWithReplay.
type replayFrame struct {
	reg  *mreg
	want []uint64
	pos  int
}

type capturedCtx struct {
	ctx context.Context
	eid uint64
	reg int
}

type pubKey struct{}
type obsKey string

// PanicStruct is the custom panic value.
type PanicStruct struct {
	Reg int
	EID uint64
}

// ValidationErrors is an error value of a type that cannot be compared (a slice): two of them must
// never be put on either side of ==.
type ValidationErrors []string

func (v ValidationErrors) Error() string { return "validation failed: " + strings.Join(v, ", ") }

var errPanic = errors.New("verif: handler panic (error value)")

func (e *Engine) stamp(ev TEv) {
	e.mu.Lock()
	e.clock++
	ev.St = e.clock
	e.Trace = append(e.Trace, ev)
	e.mu.Unlock()
}

func (e *Engine) fail(sig, format string, args ...any) {
	if e.failed {
		return
	}
	e.failed = true
	e.Viol(sig, fmt.Sprintf(format, args...))
}

// Failed reports whether a violation was raised for this program.
func (e *Engine) Failed() bool { return e.failed }

func filterFn(kind int) func(uint64) bool {
	switch kind {
	case 1:
		return func(uint64) bool { return true }
	case 2:
		return func(uint64) bool { return false }
	case 3:
		return func(id uint64) bool { return id%2 == 0 }
	case 4:
		return func(id uint64) bool { return id%2 == 1 }
	}
	return nil
}

func (r *Reg) filter() func(uint64) bool {
	if r.Filter == 5 {
		rej := r.RejectIDs
		return func(id uint64) bool {
			for _, x := range rej {
				if x == id {
					return false
				}
			}
			return true
		}
	}
	return filterFn(r.Filter)
}

func (r *Reg) accepts(id uint64) bool {
	f := r.filter()
	return f == nil || f(id)
}

func (r *Reg) panicsOn(id uint64) bool {
	if r.PanicKind == 0 {
		return false
	}
	if r.PanicMod <= 1 {
		return true
	}
	return id%r.PanicMod == r.PanicRem
}

// New builds the bus according to the program's configuration.
func New(drivers []evt.Driver, p *Program, viol func(sig, desc string)) *Engine {
	return NewWith(drivers, p, viol, nil)
}

// NewWith is New with an Observability implementation replacing the recording one.
func NewWith(drivers []evt.Driver, p *Program, viol func(sig, desc string), obsFactory func(*Engine) ebu.Observability) *Engine {
	e := &Engine{Drivers: drivers, P: p, Viol: viol, MaxDepth: 3, execLog: map[string]int{}, syncPanicType: -1,
		model: map[int][]*mreg{}, asyncGot: map[[2]uint64]int{}, asyncWant: map[[2]uint64][2]int{},
		asyncPanic: map[[2]uint64]int{}, pubs: map[uint64]*pubInfo{}}
	if obsFactory != nil {
		e.ObsImpl = obsFactory(e)
	}
	c := p.Cfg
	var opts []ebu.Option
	storeOpt := func() {
		if c.Store {
			e.Store = ebu.NewMemoryStore()
			opts = append(opts, ebu.WithStore(&failStore{e: e, inner: e.Store}), ebu.WithSubscriptionStore(e.Store))
			if c.PersistTimeout {
				opts = append(opts, ebu.WithPersistenceTimeout(time.Hour))
			}
		}
	}
	if c.StoreFirst {
		storeOpt()
	}
	if c.PanicHandler && !c.PHBySetter {
		opts = append(opts, ebu.WithPanicHandler(e.panicHandler))
	}
	if c.PanicHandler && c.PHBySetter && len(p.Ops)%2 == 0 {
		// a handler given by option that SetPanicHandler replaces before the first publish: it must
		// never hear of a panic
		opts = append(opts, ebu.WithPanicHandler(func(_ any, _ reflect.Type, v any) {
			e.fail("panic:replaced-handler-called", "the panic handler given by WithPanicHandler was called (panic value %v) although SetPanicHandler had replaced it before the first publish", v)
		}))
	}
	if !c.HooksSetter {
		if c.BeforeLegacy {
			opts = append(opts, ebu.WithBeforePublish(func(t reflect.Type, ev any) { e.hook("hook.before", nil, t, ev) }))
		}
		if c.AfterLegacy {
			opts = append(opts, ebu.WithAfterPublish(func(t reflect.Type, ev any) { e.hook("hook.after", nil, t, ev) }))
		}
	}
	if c.BeforeCtx {
		opts = append(opts, ebu.WithBeforePublishContext(func(ctx context.Context, t reflect.Type, ev any) { e.hook("hook.beforectx", ctx, t, ev) }))
	}
	if c.AfterCtx {
		opts = append(opts, ebu.WithAfterPublishContext(func(ctx context.Context, t reflect.Type, ev any) { e.hook("hook.afterctx", ctx, t, ev) }))
	}
	if c.Obs && c.ObsTwice {
		// the option given twice: whatever the bus makes of the earlier observer (replaced, or served as
		// well), the callbacks it does receive are balanced and get their own contexts back
		e.extraObs = &balanceObs{}
		opts = append(opts, ebu.WithObservability(e.extraObs))
	}
	if c.Obs {
		if e.ObsImpl != nil {
			opts = append(opts, ebu.WithObservability(e.ObsImpl))
		} else {
			opts = append(opts, ebu.WithObservability(&obsRec{e: e}))
		}
	}
	if c.ErrHandler {
		opts = append(opts, ebu.WithPersistenceErrorHandler(func(ev any, t reflect.Type, err error) {
			id, _ := e.idOfAny(ev)
			e.stamp(TEv{K: "persist.errhandler", EID: id, Info: t.String()})
		}))
	}
	if !c.StoreFirst {
		storeOpt()
	}
	if c.PHNil && !c.PHBySetter {
		opts = append(opts, ebu.WithPanicHandler(nil))
	}
	e.Bus = ebu.New(opts...)
	if len(p.Ops)%4 == 1 {
		// a bystander: a subscriber for the empty interface type, which no event of the program has
		ebu.Subscribe(e.Bus, func(any) {})
	}
	if c.PanicHandler && c.PHBySetter {
		e.Bus.SetPanicHandler(e.panicHandler)
	}
	if c.PHNil && c.PHBySetter {
		e.Bus.SetPanicHandler(func(any, reflect.Type, any) {})
		e.Bus.SetPanicHandler(nil)
	}
	if c.HooksSetter {
		if c.BeforeLegacy {
			e.Bus.SetBeforePublishHook(func(t reflect.Type, ev any) { e.hook("hook.before", nil, t, ev) })
		}
		if c.AfterLegacy {
			e.Bus.SetAfterPublishHook(func(t reflect.Type, ev any) { e.hook("hook.after", nil, t, ev) })
		}
	}
	return e
}

func (e *Engine) drv(t int) evt.Driver { return e.Drivers[e.P.Types[t]] }

func (e *Engine) idOfAny(ev any) (uint64, bool) {
	for _, ti := range e.P.Types {
		if id, ok := e.Drivers[ti].IDOf(ev); ok || id != 0 {
			if reflect.TypeOf(ev) == e.Drivers[ti].RType() {
				return id, ok
			}
		}
	}
	// fall back on exact type match
	for _, ti := range e.P.Types {
		if reflect.TypeOf(ev) == e.Drivers[ti].RType() {
			return e.Drivers[ti].IDOf(ev)
		}
	}
	return 0, false
}

func (e *Engine) hook(kind string, ctx context.Context, t reflect.Type, ev any) {
	defer e.hookPublish(kind)
	if (kind == "hook.after" || kind == "hook.afterctx") && len(e.frames) > 0 && !e.failed {
		// the bus has finished dispatching this publish: bring the model's dispatch loop to the end
		// before anything the hook does (a nested publish) can change what it would see
		e.advance(e.frames[len(e.frames)-1], nil)
	}
	id, ok := e.idOfAny(ev)
	info := t.String()
	tev := TEv{K: kind, EID: id, Info: info}
	if !ok {
		tev.Err = true
	}
	if ctx != nil {
		if v, _ := ctx.Value(pubKey{}).(uint64); v != 0 {
			tev.Par = v
		}
		if tok, _ := ctx.Value(obsKey("pub")).(uint64); tok != 0 {
			tev.Tok = tok
		}
	}
	e.stamp(tev)
}

// goid returns the current goroutine's id (only used on panic paths, to tell the engine's own
// goroutine from the goroutines of asynchronous handlers).
func goid() int64 {
	var buf [64]byte
	n := runtime.Stack(buf[:], false)
	var id int64
	fmt.Sscanf(string(buf[:n]), "goroutine %d ", &id)
	return id
}

// hookPublish: a hook that itself publishes (once per top-level publish; nested publishes run their
// own hooks, which must not recurse further).
func (e *Engine) hookPublish(kind string) {
	want := map[int]string{1: "hook.before", 2: "hook.beforectx", 3: "hook.after", 4: "hook.afterctx"}[e.P.Cfg.HookPublish]
	if want != kind || e.inHookPub || len(e.frames) != 1 {
		return
	}
	e.inHookPub = true
	e.Stats.HookPubs++
	e.exec(&Op{K: Pub, T: len(e.P.Types) - 1, UseCtx: e.Stats.HookPubs%2 == 0}, nil)
	e.inHookPub = false
	// the nested publish may have changed the registry (once handlers retired, scripts); whether a
	// change made inside a before-hook of this very publish is "before the publish began" is not
	// settled by the statement: the model follows the bus and snapshots after the before-hooks
	if f := e.frames[len(e.frames)-1]; (kind == "hook.before" || kind == "hook.beforectx") && f.pos == 0 {
		f.snap = append(f.snap[:0:0], e.model[f.typ]...)
	}
}

func (e *Engine) panicHandler(ev any, ht reflect.Type, val any) {
	id, _ := e.idOfAny(ev)
	info := ht.String() + "|" + describePanic(val)
	e.stamp(TEv{K: "panichandler", EID: id, Info: info})
	// a retrying panic handler: re-publish on the same bus (only for synchronous handlers, whose panic
	// handler runs on the engine's goroutine; once per program step to stay finite)
	if e.P.Cfg.PHRepublish && goid() == e.mainGoid && e.syncPanicType >= 0 && !e.inPHPub && e.depth < e.MaxDepth && !e.failed {
		t := e.syncPanicType
		e.syncPanicType = -1
		e.inPHPub = true
		e.depth++
		e.Stats.PHPubs++
		e.exec(&Op{K: Pub, T: t}, nil)
		e.depth--
		e.inPHPub = false
	}
}

func describePanic(v any) string {
	if rv := reflect.ValueOf(v); rv.IsValid() && rv.Kind() == reflect.Pointer && rv.IsNil() {
		return "nilptr:" + rv.Type().String()
	}
	switch x := v.(type) {
	case string:
		return "string:" + x
	case PanicStruct:
		return fmt.Sprintf("struct:%d:%d", x.Reg, x.EID)
	case ValidationErrors:
		return "uncomparable:" + strings.Join(x, ":")
	case error:
		if errors.Is(x, errPanic) {
			return "error:verif"
		}
		var re interface{ RuntimeError() }
		if errors.As(x, &re) {
			return "runtime"
		}
		return "error:other:" + x.Error()
	}
	return fmt.Sprintf("other:%T", v)
}

func expectPanicDesc(kind, reg int, eid uint64) string {
	switch kind {
	case 1:
		return fmt.Sprintf("string:boom-%d-%d", reg, eid)
	case 2:
		return "error:verif"
	case 3:
		return fmt.Sprintf("struct:%d:%d", reg, eid)
	case 4, 5:
		return "runtime"
	case 6:
		return "nilptr:*fs.PathError"
	case 7:
		return "string:" + longPanicText(reg, eid)
	case 8:
		return fmt.Sprintf("uncomparable:%d:%d", reg, eid)
	}
	return ""
}

func doPanic(kind, reg int, eid uint64) {
	switch kind {
	case 1:
		panic(fmt.Sprintf("boom-%d-%d", reg, eid))
	case 2:
		panic(errPanic)
	case 3:
		panic(PanicStruct{Reg: reg, EID: eid})
	case 4:
		var p *PanicStruct
		_ = p.EID // nil dereference
	case 5:
		panic(nil)
	case 6:
		var e *fs.PathError // a typed nil error: calling its Error method panics
		panic(e)
	case 7:
		panic(longPanicText(reg, eid))
	case 8:
		panic(ValidationErrors{fmt.Sprint(reg), fmt.Sprint(eid)})
	}
}

// longPanicText: a long message in a multi-byte script (well over 256 bytes, well under 256
// characters), as a validation error in another language would be.
func longPanicText(reg int, eid uint64) string {
	return fmt.Sprintf("обработчик %d не смог обработать событие %d: ", reg, eid) + strings.Repeat("ошибка проверки данных; ", 6)
}

// ---------------------------------------------------------------------------------------------
// execution

// Run executes the whole program, waits for asynchronous work and runs the end-of-program checks
// of the registry monitor.
func (e *Engine) Run() {
	e.mainGoid = goid()
	for i := range e.P.Ops {
		if e.failed {
			break
		}
		e.exec(&e.P.Ops[i], nil)
	}
	e.Bus.Wait()
	e.finishAsync()
	if !e.failed {
		e.finalRegistry()
	}
}

func (e *Engine) exec(op *Op, hctx context.Context) {
	e.logOp(op)
	switch op.K {
	case Sub:
		e.doSub(op)
	case Unsub:
		e.doUnsub(op)
	case Clear:
		e.drv(op.T).Clear(e.Bus)
		delete(e.model, op.T)
		e.mut()
		e.checkEmpty(op.T, "Clear")
	case ClearAll:
		ebu.ClearAll(e.Bus)
		e.model = map[int][]*mreg{}
		e.mut()
		for t := range e.P.Types {
			e.checkEmpty(t, "ClearAll")
		}
	case Pub:
		e.doPub(op, hctx)
	case Has, Count:
		e.doQuery(op)
	case Wait:
		if e.depth == 0 {
			e.Bus.Wait()
		}
	case Shutdown:
		if e.depth == 0 {
			ctx := context.Background()
			if op.PreCancelled {
				c, cancel := context.WithCancel(ctx)
				cancel()
				ctx = c
			}
			e.Bus.Shutdown(ctx) // either outcome is fine; what follows must behave as before
			e.Stats.Shutdowns++
		}
	case CancelSub:
		// nobody unsubscribed anything: the registry, and what every handler receives, stay as they are
		if n := len(e.subCancels); n > 0 {
			e.subCancels[op.Class%n]()
			e.Stats.SubCtxCancels++
		}
	case SetPH:
		e.Bus.SetPanicHandler(e.panicHandler)
		e.stamp(TEv{K: "ph.set"})
	}
}

// checkEmpty: straight after Clear[T] / ClearAll (same goroutine; nothing else changes the registry
// in an engine program) the queries must report no handler of the type.
func (e *Engine) checkEmpty(t int, after string) {
	d := e.drv(t)
	if n := d.Count(e.Bus); n != 0 || d.Has(e.Bus) {
		e.fail("registry:not-empty-after-clear", "straight after %s HandlerCount[%s]=%d HasHandlers=%v", after, d.Name(), n, d.Has(e.Bus))
	}
}

func (e *Engine) mut() {
	if e.depth > 0 {
		e.Stats.ReentrantMut++
	}
}

func (e *Engine) doSub(op *Op) {
	spec := op.Reg
	r := &mreg{id: len(e.regs) + 1, typ: op.T, spec: spec}
	e.regs = append(e.regs, r)
	d := e.drv(op.T)
	o := evt.SubOpts{Once: spec.Once, Async: spec.Async, Seq: spec.Seq, Filter: spec.filter()}
	cb := func(ctx context.Context, id uint64, ok bool) { e.invoke(r, ctx, id, ok) }
	var err error
	if spec.Replay && e.P.Cfg.Store && !spec.Ctx {
		// replay phase: every persisted event of this type, in log order, straight to the handler
		rf := &replayFrame{reg: r}
		// a typed replay subscription selects stored events by the type name derived from the Go type;
		// for an event type whose name depends on the value only the events stored under that name
		// can be selected (the statement derives names from types, C15)
		typeName := ebu.EventType(d.Make(0))
		for _, pe := range e.persisted {
			if pe.typ == op.T && ebu.EventType(d.Make(pe.eid)) == typeName {
				rf.want = append(rf.want, pe.eid)
			}
		}
		e.replay = rf
		e.Stats.ReplaySubs++
		sctx, scancel := context.WithCancel(context.Background())
		e.subCancels = append(e.subCancels, scancel)
		subID := fmt.Sprintf("sub-%d", r.id)
		if len(e.subCancels) == 1 && len(e.P.Ops)%2 == 0 {
			subID = "" // the empty string is a subscription id like any other
		}
		err = d.SubscribeReplay(e.Bus, sctx, subID, o, cb)
		e.replay = nil
		if err == nil && rf.pos != len(rf.want) {
			e.fail("registry:replay-missing", "SubscribeWithReplay delivered %d of the %d persisted events of its type", rf.pos, len(rf.want))
			return
		}
	} else {
		err = d.Subscribe(e.Bus, spec.Class, spec.Ctx, o, cb)
	}
	if err != nil {
		e.fail("registry:subscribe-error", "Subscribe returned %v", err)
		return
	}
	e.model[op.T] = append(e.model[op.T], r)
	e.mut()
}

func (e *Engine) doUnsub(op *Op) {
	// zombie looseness: the statement does not say whether a fired once handler still counts
	// before its publish returns. An Unsubscribe that addresses one is issued only when the zombie
	// is the only registration it can address, and then either answer is accepted (nil: it was still
	// there and is removed now; error: it already counts as gone) — in both cases it is gone
	// afterwards, and the other once handlers fired by the same publish must still be retired.
	matches, zi := 0, -1
	for i, r := range e.model[op.T] {
		if r.spec.Class == op.Class && r.spec.Ctx == op.Ctx && !r.isReplay(e) {
			matches++
			if r.zombie && zi < 0 {
				zi = i
			}
		}
	}
	if zi >= 0 {
		if matches > 1 {
			e.Stats.SkippedUnsub++
			return
		}
		before := e.drv(op.T).Count(e.Bus)
		err := e.drv(op.T).Unsubscribe(e.Bus, op.Class, op.Ctx)
		if after := e.drv(op.T).Count(e.Bus); (err == nil && after != before-1) || (err != nil && after != before) {
			e.fail("registry:unsubscribe-count-delta", "Unsubscribe (of a once handler that fired in the running publish) returned %v but HandlerCount[%s] went %d -> %d", err, e.drv(op.T).Name(), before, after)
			return
		}
		l := e.model[op.T]
		nl := make([]*mreg, 0, len(l)-1)
		nl = append(nl, l[:zi]...)
		nl = append(nl, l[zi+1:]...)
		e.model[op.T] = nl
		e.Stats.ZombieUnsubs++
		e.mut()
		return
	}
	before := e.drv(op.T).Count(e.Bus)
	err := e.drv(op.T).Unsubscribe(e.Bus, op.Class, op.Ctx)
	// Unsubscribe removes exactly one registration (nil) or none (error): the count must say so
	if after := e.drv(op.T).Count(e.Bus); (err == nil && after != before-1) || (err != nil && after != before) {
		e.fail("registry:unsubscribe-count-delta", "Unsubscribe returned %v but HandlerCount[%s] went %d -> %d", err, e.drv(op.T).Name(), before, after)
		return
	}
	idx := -1
	for i, r := range e.model[op.T] {
		if r.spec.Class == op.Class && r.spec.Ctx == op.Ctx && !r.isReplay(e) {
			idx = i
			break
		}
	}
	if idx < 0 {
		if err == nil {
			e.fail("registry:unsubscribe-absent-nil", "Unsubscribe of an absent handler (type %s class %d) returned nil", e.drv(op.T).Name(), op.Class)
		}
		return
	}
	if err != nil {
		e.fail("registry:unsubscribe-present-error", "Unsubscribe of a present handler (type %s class %d) returned %v", e.drv(op.T).Name(), op.Class, err)
		return
	}
	l := e.model[op.T]
	nl := make([]*mreg, 0, len(l)-1)
	nl = append(nl, l[:idx]...)
	nl = append(nl, l[idx+1:]...)
	e.model[op.T] = nl
	e.mut()
}

func (e *Engine) doQuery(op *Op) {
	e.Stats.Queries++
	l := e.model[op.T]
	n, z := len(l), 0
	for _, r := range l {
		if r.zombie {
			z++
		}
	}
	d := e.drv(op.T)
	// the two queries describe one registry: taken back to back (nothing else changes the registry in
	// an engine program) they must agree with each other, whatever a fired once handler counts as
	if c, h := d.Count(e.Bus), d.Has(e.Bus); h != (c > 0) {
		e.fail("registry:has-count-disagree", "HasHandlers[%s]=%v but HandlerCount=%d at the same point", d.Name(), h, c)
		return
	}
	if op.K == Count {
		got := d.Count(e.Bus)
		if got < n-z || got > n {
			e.fail("registry:handlercount", "HandlerCount[%s]=%d, model %d (zombies %d)", d.Name(), got, n, z)
		}
		return
	}
	got := d.Has(e.Bus)
	if (n-z >= 1 && !got) || (n == 0 && got) {
		e.fail("registry:hashandlers", "HasHandlers[%s]=%v, model count %d (zombies %d)", d.Name(), got, n, z)
	}
}

func (e *Engine) doPub(op *Op, hctx context.Context) {
	e.nextID++
	eid := e.nextID
	f := &frame{typ: op.T, eid: eid}
	f.snap = append(f.snap, e.model[op.T]...)
	pi := &pubInfo{eid: eid, typ: op.T, useCtx: op.UseCtx, pre: op.PreCancelled}
	e.mu.Lock()
	e.pubs[eid] = pi
	e.mu.Unlock()
	e.Stats.Pubs++
	if e.depth > 0 {
		e.Stats.NestedPubs++
	}
	d := e.drv(op.T)
	e.frames = append(e.frames, f)
	e.stamp(TEv{K: "pub.call", EID: eid, Info: d.Name()})
	if op.UseCtx {
		base := context.Background()
		if op.Inherit && hctx != nil {
			base = hctx
		}
		base = context.WithValue(base, pubKey{}, eid)
		if op.Detached && !op.Deadline && !op.PreCancelled {
			// work detached from a request that is over: the context carries the request's values
			// and is never done itself
			req, over := context.WithCancel(base)
			over()
			f.ctx, f.cancel = detachedCtx{parent: req}, nil // nothing ends this context
		} else if op.Deadline {
			// the caller's own context type around an application context that stays live
			live, keep := context.WithCancel(base)
			e.keepLive = append(e.keepLive, keep)
			base = live
			mc := &manualCtx{Context: base, done: make(chan struct{})}
			f.ctx, f.cancel = mc, mc.fire
		} else {
			f.ctx, f.cancel = context.WithCancel(base)
		}
		if f.cancel != nil {
			e.cancels = append(e.cancels, f.cancel)
		}
		if op.PreCancelled {
			f.cancel()
			f.cancelled, f.pre = true, true
		}
		d.PublishContext(e.Bus, f.ctx, eid)
	} else {
		d.Publish(e.Bus, eid)
	}
	e.stamp(TEv{K: "pub.ret", EID: eid})
	e.advance(f, nil)
	// retire once registrations fired by this publish
	for _, r := range f.fired {
		r.zombie = false
		l := e.model[r.typ]
		for i, x := range l {
			if x == r {
				nl := make([]*mreg, 0, len(l)-1)
				nl = append(nl, l[:i]...)
				nl = append(nl, l[i+1:]...)
				e.model[r.typ] = nl
				break
			}
		}
	}
	e.frames = e.frames[:len(e.frames)-1]
	e.mu.Lock()
	pi.cancelled = f.isCancelled()
	pi.ctx = f.ctx
	pi.syncRegs = f.syncRegs
	pi.asyncRegs = f.asyncRegs
	pi.returned = true
	for _, rid := range f.asyncRegs {
		e.asyncWant[[2]uint64{uint64(rid), eid}] = [2]int{1, 1}
	}
	e.mu.Unlock()
}

// isCancelled reads the publish context itself (it may derive from an outer handler's context
// that was cancelled in the meantime).
func (f *frame) isCancelled() bool {
	if f.ctx != nil && f.ctx.Err() != nil {
		f.cancelled = true
	}
	return f.cancelled
}

// advance moves the model's dispatch loop of frame f forward until the registration `until` is
// the next synchronous delivery (until == nil: to the end).
func (e *Engine) advance(f *frame, until *mreg) bool {
	for f.pos < len(f.snap) {
		r := f.snap[f.pos]
		f.pos++
		if !r.spec.accepts(f.eid) {
			continue
		}
		if f.isCancelled() {
			continue // skipped without using up a once handler
		}
		if r.spec.Once {
			if r.fired {
				continue
			}
			r.fired = true
			r.zombie = true
			e.Stats.Zombies++
			f.fired = append(f.fired, r)
		}
		if r.spec.Async {
			f.asyncRegs = append(f.asyncRegs, r.id)
			continue
		}
		if r == until {
			f.syncRegs = append(f.syncRegs, r.id)
			return true
		}
		if until == nil {
			e.fail("registry:missing-sync-delivery", "publish %d of %s returned without invoking registration #%d (class %d) that the model says is subscribed and eligible",
				f.eid, e.drv(f.typ).Name(), r.id, r.spec.Class)
		} else {
			e.fail("registry:order-or-missing", "publish %d of %s invoked registration #%d while the model expected #%d first",
				f.eid, e.drv(f.typ).Name(), until.id, r.id)
		}
		return false
	}
	if until != nil {
		e.fail("registry:unexpected-sync-delivery", "publish %d of %s invoked registration #%d (class %d, type %s) which the model does not deliver to (removed / filtered / fired / other type / cancelled / duplicate)",
			f.eid, e.drv(f.typ).Name(), until.id, until.spec.Class, e.drv(until.typ).Name())
		return false
	}
	return true
}

// invoke is called by every subscribed handler.
func (e *Engine) invoke(r *mreg, ctx context.Context, id uint64, payloadOK bool) {
	if rf := e.replay; rf != nil && rf.reg == r {
		e.Stats.ReplayDeliveries++
		if rf.pos >= len(rf.want) || rf.want[rf.pos] != id || !payloadOK {
			e.fail("registry:replay-wrong-event", "replay phase of SubscribeWithReplay delivered event %d (payload ok=%v) at position %d, persisted events of the type are %v", id, payloadOK, rf.pos, rf.want)
		}
		rf.pos++
		return
	}
	if r.spec.Async {
		e.invokeAsync(r, ctx, id, payloadOK)
		return
	}
	e.stamp(TEv{K: "h.enter", EID: id, Reg: r.id, Tok: tokOf(ctx, "h"), Par: tokOf(ctx, "pub")})
	e.Stats.SyncInv++
	willPanic := r.spec.panicsOn(id)
	if !e.failed {
		if len(e.frames) == 0 {
			e.fail("registry:delivery-outside-publish", "registration #%d invoked with event %d while no publish is running", r.id, id)
		} else {
			f := e.frames[len(e.frames)-1]
			if f.eid != id || f.typ != r.typ {
				e.fail("registry:wrong-event", "registration #%d of type %s invoked with event %d during publish %d of type %s",
					r.id, e.drv(r.typ).Name(), id, f.eid, e.drv(f.typ).Name())
			} else if !payloadOK {
				e.fail("registry:wrong-value", "registration #%d received a value different from the published one (event %d)", r.id, id)
			} else if e.advance(f, r) {
				e.checkCtx(r, ctx, f)
				k := r.invoc
				r.invoc++
				if k < len(r.spec.Script) && e.depth < e.MaxDepth {
					e.depth++
					if e.depth > e.Stats.MaxDepth {
						e.Stats.MaxDepth = e.depth
					}
					for i := range r.spec.Script[k] {
						if e.failed {
							break
						}
						e.Stats.Reentrant++
						e.exec(&r.spec.Script[k][i], ctx)
					}
					e.depth--
				}
				cancelNow := r.spec.CancelAt == k+1
				for _, x := range r.spec.CancelIDs {
					if x == id {
						cancelNow = true
					}
				}
				if cancelNow && f.cancel != nil && !f.isCancelled() {
					f.cancel()
					f.cancelled = true
					e.Stats.Cancels++
					e.stamp(TEv{K: "ctx.cancel", EID: id, Reg: r.id})
				}
			}
		}
	}
	e.stamp(TEv{K: "h.exit", EID: id, Reg: r.id, Err: willPanic})
	if willPanic {
		e.Stats.Panics++
		e.mu.Lock()
		if pi := e.pubs[id]; pi != nil {
			pi.panicsSync++
		}
		e.mu.Unlock()
		e.syncPanicType = r.typ
		doPanic(r.spec.PanicKind, r.id, id)
	}
}

func tokOf(ctx context.Context, k string) uint64 {
	if ctx == nil {
		return 0
	}
	v, _ := ctx.Value(obsKey(k)).(uint64)
	return v
}

func (e *Engine) checkCtx(r *mreg, ctx context.Context, f *frame) {
	if !r.spec.Ctx {
		return
	}
	if ctx == nil {
		e.fail("ctx:nil", "context-aware registration #%d received a nil context", r.id)
		return
	}
	if f.ctx != nil {
		if v, _ := ctx.Value(pubKey{}).(uint64); v != f.eid {
			e.fail("ctx:value-lost", "context-aware registration #%d: context does not carry the publish context's value (got %d want %d)", r.id, v, f.eid)
			return
		}
		e.mu.Lock()
		e.captured = append(e.captured, capturedCtx{ctx: ctx, eid: f.eid, reg: r.id})
		e.mu.Unlock()
	}
	if ctx.Err() != nil {
		e.fail("ctx:handler-started-cancelled", "registration #%d started with an already cancelled context (event %d)", r.id, f.eid)
	}
}

func (e *Engine) invokeAsync(r *mreg, ctx context.Context, id uint64, payloadOK bool) {
	e.stamp(TEv{K: "h.enter", EID: id, Reg: r.id, Async: true, Tok: tokOf(ctx, "h"), Par: tokOf(ctx, "pub")})
	willPanic := r.spec.panicsOn(id)
	e.mu.Lock()
	e.asyncGot[[2]uint64{uint64(r.id), id}]++
	if !payloadOK {
		e.asyncGot[[2]uint64{uint64(r.id), ^uint64(0)}]++
	}
	if willPanic {
		e.asyncPanic[[2]uint64{uint64(r.id), id}]++
	}
	if r.spec.Ctx && ctx != nil {
		if pi := e.pubs[id]; pi != nil && pi.useCtx {
			if v, _ := ctx.Value(pubKey{}).(uint64); v != id {
				e.asyncGot[[2]uint64{uint64(r.id), ^uint64(0) - 1}]++
			}
			e.captured = append(e.captured, capturedCtx{ctx: ctx, eid: id, reg: r.id})
		}
	}
	e.mu.Unlock()
	e.stamp(TEv{K: "h.exit", EID: id, Reg: r.id, Async: true, Err: willPanic})
	if willPanic {
		doPanic(r.spec.PanicKind, r.id, id)
	}
}

// finishAsync compares asynchronous deliveries (after bus.Wait) with the model's predictions.
func (e *Engine) finishAsync() {
	e.mu.Lock()
	defer e.mu.Unlock()
	for k, n := range e.asyncGot {
		if k[1] == ^uint64(0) {
			e.failLocked("registry:async-wrong-value", "async registration #%d received a value different from the published one (%d times)", k[0], n)
			continue
		}
		if k[1] == ^uint64(0)-1 {
			e.failLocked("ctx:value-lost", "async context-aware registration #%d: context does not carry the publish context's value", k[0])
			continue
		}
		e.Stats.AsyncInv += n
		w, ok := e.asyncWant[k]
		if !ok {
			e.failLocked("registry:unexpected-async-delivery", "async registration #%d ran for event %d which the model does not deliver to it", k[0], k[1])
		} else if n > w[1] {
			e.failLocked("registry:duplicate-async-delivery", "async registration #%d ran %d times for event %d", k[0], n, k[1])
		}
	}
	for k, w := range e.asyncWant {
		if pi := e.pubs[k[1]]; pi != nil && pi.ctx != nil && pi.ctx.Err() != nil {
			w[0] = 0 // the goroutine may have found the context cancelled when it started
			pi.cancelled = true
		}
		if e.asyncGot[k] < w[0] {
			e.failLocked("registry:missing-async-delivery", "async registration #%d never ran for event %d (after Wait)", k[0], k[1])
		}
	}
}

func (e *Engine) failLocked(sig, format string, args ...any) {
	if e.failed {
		return
	}
	e.failed = true
	e.Viol(sig, fmt.Sprintf(format, args...))
}

// finalRegistry compares HandlerCount / HasHandlers of every used type with the model and runs a
// probe publish per type.
func (e *Engine) finalRegistry() {
	for t := range e.P.Types {
		if e.failed {
			return
		}
		e.doQuery(&Op{K: Count, T: t})
		e.doQuery(&Op{K: Has, T: t})
	}
}

// ---------------------------------------------------------------------------------------------
// store wrapper and observability recorder

type failStore struct {
	e     *Engine
	inner *ebu.MemoryStore
}

func (s *failStore) Append(ctx context.Context, ev *ebu.Event) (ebu.Offset, error) {
	e := s.e
	e.mu.Lock()
	n := e.appendN
	e.appendN++
	e.mu.Unlock()
	var eid uint64
	if len(e.frames) > 0 {
		eid = e.frames[len(e.frames)-1].eid
	}
	fail := false
	for _, x := range e.P.Cfg.FailAppends {
		if x == n {
			fail = true
		}
	}
	ctxErr := ctx.Err() // a store that honours its context: the append of a publish whose context is over fails with that error
	tev := TEv{K: "store.append", EID: eid, Err: fail || ctxErr != nil, Tok: tokOf(ctx, "persist"), Par: tokOf(ctx, "pub"), Info: ev.Type}
	e.stamp(tev)
	if fail {
		return "", fmt.Errorf("verif: injected append failure #%d", n)
	}
	if ctxErr != nil {
		return "", ctxErr
	}
	off, err := s.inner.Append(ctx, ev)
	if err == nil && len(e.frames) > 0 {
		e.persisted = append(e.persisted, persistedEv{eid: eid, typ: e.frames[len(e.frames)-1].typ})
	}
	return off, err
}

func (s *failStore) Read(ctx context.Context, from ebu.Offset, limit int) ([]*ebu.StoredEvent, ebu.Offset, error) {
	return s.inner.Read(ctx, from, limit)
}

type obsRec struct {
	e        *Engine
	rmu      sync.Mutex
	returned map[uint64]context.Context // token -> the context its start callback returned
}

// keep remembers the context a start callback returns; same reports whether a complete callback was
// handed that very context (not a copy, not a child of it).
func (o *obsRec) keep(t uint64, ctx context.Context) context.Context {
	o.rmu.Lock()
	if o.returned == nil {
		o.returned = map[uint64]context.Context{}
	}
	o.returned[t] = ctx
	o.rmu.Unlock()
	return ctx
}

func (o *obsRec) same(kind string, t uint64, ctx context.Context) {
	o.rmu.Lock()
	want, ok := o.returned[t]
	o.rmu.Unlock()
	if ok && want != ctx {
		o.e.mu.Lock()
		if o.e.obsCtxMismatch == "" {
			o.e.obsCtxMismatch = kind
		}
		o.e.mu.Unlock()
	}
}

func (o *obsRec) tok() uint64 {
	o.e.mu.Lock()
	o.e.tokens++
	t := o.e.tokens
	o.e.mu.Unlock()
	return t
}

func (o *obsRec) OnPublishStart(ctx context.Context, eventType string, event any) context.Context {
	t := o.tok()
	id, _ := o.e.idOfAny(event)
	o.e.stamp(TEv{K: "obs.pub.start", EID: id, Tok: t, Par: tokOf(ctx, "pub"), Info: eventType})
	return o.keep(t, context.WithValue(ctx, obsKey("pub"), t))
}
func (o *obsRec) OnPublishComplete(ctx context.Context, eventType string) {
	o.same("publish", tokOf(ctx, "pub"), ctx)
	o.e.stamp(TEv{K: "obs.pub.end", Tok: tokOf(ctx, "pub"), Info: eventType})
}
func (o *obsRec) OnHandlerStart(ctx context.Context, eventType string, async bool) context.Context {
	t := o.tok()
	o.e.stamp(TEv{K: "obs.h.start", Tok: t, Par: tokOf(ctx, "pub"), Async: async, Info: eventType})
	return o.keep(t, context.WithValue(ctx, obsKey("h"), t))
}
func (o *obsRec) OnHandlerComplete(ctx context.Context, _ time.Duration, err error) {
	o.same("handler", tokOf(ctx, "h"), ctx)
	o.e.stamp(TEv{K: "obs.h.end", Tok: tokOf(ctx, "h"), Par: tokOf(ctx, "pub"), Err: err != nil})
}
func (o *obsRec) OnPersistStart(ctx context.Context, eventType string, position int64) context.Context {
	t := o.tok()
	o.e.stamp(TEv{K: "obs.persist.start", Tok: t, Par: tokOf(ctx, "pub"), Info: eventType})
	return o.keep(t, context.WithValue(ctx, obsKey("persist"), t))
}
func (o *obsRec) OnPersistComplete(ctx context.Context, _ time.Duration, err error) {
	o.same("persist", tokOf(ctx, "persist"), ctx)
	o.e.stamp(TEv{K: "obs.persist.end", Tok: tokOf(ctx, "persist"), Par: tokOf(ctx, "pub"), Err: err != nil})
}

// JSON renders a program for samples and witnesses.
func (p *Program) JSON() json.RawMessage {
	b, _ := json.Marshal(p)
	return b
}

// balanceObs is an independent Observability that only checks its own books: every start it sees is
// completed once, with the context it returned.
type balanceObs struct {
	mu       sync.Mutex
	next     uint64
	open     map[uint64]context.Context
	starts   [3]int
	ends     [3]int
	mismatch string
}

type balKey int

func (b *balanceObs) start(kind int, ctx context.Context) context.Context {
	b.mu.Lock()
	defer b.mu.Unlock()
	if b.open == nil {
		b.open = map[uint64]context.Context{}
	}
	b.next++
	b.starts[kind]++
	out := context.WithValue(ctx, balKey(kind), b.next)
	b.open[b.next] = out
	return out
}

func (b *balanceObs) end(kind int, ctx context.Context) {
	b.mu.Lock()
	defer b.mu.Unlock()
	b.ends[kind]++
	t, _ := ctx.Value(balKey(kind)).(uint64)
	want, ok := b.open[t]
	switch {
	case !ok:
		if b.mismatch == "" {
			b.mismatch = fmt.Sprintf("a complete callback (kind %d) received a context none of this observer's open starts returned (token %d)", kind, t)
		}
	case want != ctx:
		if b.mismatch == "" {
			b.mismatch = fmt.Sprintf("a complete callback (kind %d) received a copy / child of the context its start returned", kind)
		}
		delete(b.open, t)
	default:
		delete(b.open, t)
	}
}

func (b *balanceObs) OnPublishStart(ctx context.Context, _ string, _ any) context.Context {
	return b.start(0, ctx)
}
func (b *balanceObs) OnPublishComplete(ctx context.Context, _ string) { b.end(0, ctx) }
func (b *balanceObs) OnHandlerStart(ctx context.Context, _ string, _ bool) context.Context {
	return b.start(1, ctx)
}
func (b *balanceObs) OnHandlerComplete(ctx context.Context, _ time.Duration, _ error) { b.end(1, ctx) }
func (b *balanceObs) OnPersistStart(ctx context.Context, _ string, _ int64) context.Context {
	return b.start(2, ctx)
}
func (b *balanceObs) OnPersistComplete(ctx context.Context, _ time.Duration, _ error) { b.end(2, ctx) }

// problem reports what is wrong with the observer's books after the program has finished.
func (b *balanceObs) problem() string {
	b.mu.Lock()
	defer b.mu.Unlock()
	if b.mismatch != "" {
		return b.mismatch
	}
	if b.starts != b.ends {
		return fmt.Sprintf("an observer given by an earlier WithObservability option saw %v publish/handler/persist starts and %v completes", b.starts, b.ends)
	}
	return ""
}

// ExtraObsProblem reports what is wrong with the books of the observer given by the earlier of two
// WithObservability options ("" if there is none or nothing is wrong).
func (e *Engine) ExtraObsProblem() string {
	if e.extraObs == nil {
		return ""
	}
	return e.extraObs.problem()
}
