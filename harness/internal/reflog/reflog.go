// Package reflog is the reference append-only log: events plus, for every offset value a store
// ever handed out, the position it denotes — so "no gap, no repeat, any chain, any resume point"
// can be stated without assuming how offsets are spelled.
package reflog

import (
	"bytes"
	"encoding/json"
	"fmt"
	"time"

	ebu "github.com/jilio/ebu"

	"verif/harness/internal/jgen"
)

// Ev is one reference event.
type Ev struct {
	Type string
	Data json.RawMessage
	Time time.Time
}

// Origin says where an offset value came from.
type Origin string

const (
	FromOldest    Origin = "oldest"
	FromAppend    Origin = "append"
	FromNextFull  Origin = "next"           // next of a read that was not cut by its limit
	FromNextTrunc Origin = "next-truncated" // next of a read that returned exactly `limit` events while more remained
	FromEvent     Origin = "event"          // Offset field of a returned event
)

// Ref is the reference log.
type Ref struct {
	Events []Ev
	pos    map[ebu.Offset]int
	origin map[ebu.Offset]Origin
	Known  []ebu.Offset
}

// New returns an empty reference log.
func New() *Ref {
	return &Ref{pos: map[ebu.Offset]int{ebu.OffsetOldest: 0}, origin: map[ebu.Offset]Origin{ebu.OffsetOldest: FromOldest}, Known: []ebu.Offset{ebu.OffsetOldest}}
}

// Append adds an event.
func (r *Ref) Append(e Ev) int { r.Events = append(r.Events, e); return len(r.Events) }

// Pos returns the position an offset denotes (number of events at or before it).
func (r *Ref) Pos(o ebu.Offset) (int, bool) { p, ok := r.pos[o]; return p, ok }

// OriginOf returns where the offset value was first seen.
func (r *Ref) OriginOf(o ebu.Offset) Origin { return r.origin[o] }

// Learn records that offset o denotes position p; it reports a conflict with an earlier sighting.
func (r *Ref) Learn(o ebu.Offset, p int, from Origin) (conflict bool, old int) {
	if q, ok := r.pos[o]; ok {
		return q != p, q
	}
	r.pos[o] = p
	r.origin[o] = from
	r.Known = append(r.Known, o)
	return false, p
}

// Forget drops an offset (resynchronisation after a known finding).
func (r *Ref) Forget(o ebu.Offset) {
	delete(r.pos, o)
	for i, k := range r.Known {
		if k == o {
			r.Known = append(r.Known[:i], r.Known[i+1:]...)
			break
		}
	}
}

// Match compares a stored event with the reference event at index i. byteExact demands identical
// data bytes; otherwise data is compared as a JSON value with number literals compared textually.
func (r *Ref) Match(i int, got *ebu.StoredEvent, byteExact bool) string {
	if i >= len(r.Events) {
		return fmt.Sprintf("event beyond the end of the log (index %d of %d)", i, len(r.Events))
	}
	w := r.Events[i]
	if got == nil {
		return "nil event"
	}
	if got.Type != w.Type {
		return fmt.Sprintf("type %q, appended %q", clip(got.Type), clip(w.Type))
	}
	if byteExact {
		if !bytes.Equal(got.Data, w.Data) {
			return fmt.Sprintf("data %q, appended %q", clip(string(got.Data)), clip(string(w.Data)))
		}
	} else if !jgen.JSONEqual(got.Data, w.Data) {
		return fmt.Sprintf("data %q is not the JSON value appended %q", clip(string(got.Data)), clip(string(w.Data)))
	}
	if !got.Timestamp.Equal(w.Time) {
		return fmt.Sprintf("timestamp instant %s, appended %s (zone %s)", got.Timestamp.UTC().Format(time.RFC3339Nano), w.Time.UTC().Format(time.RFC3339Nano), w.Time.Location())
	}
	return ""
}

func clip(s string) string {
	if len(s) > 80 {
		return s[:80] + "..."
	}
	return s
}
