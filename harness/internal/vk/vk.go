// Package vk is the small verification kit shared by every check: seed/tier/shard handling,
// a logical clock, and the run summary (evaluations, distinct non-trivial signatures, samples,
// violations with signatures, inconclusive cases, counters) that the driver turns into evidence.
package vk

import (
	"encoding/json"
	"fmt"
	"hash/fnv"
	"math/rand/v2"
	"os"
	"sort"
	"strconv"
	"sync"
	"sync/atomic"
	"time"
)

// Violation is one refutation of the property under test.
type Violation struct {
	Sig     string `json:"sig"`  // stable signature: which oracle rule failed on which kind of case
	Desc    string `json:"desc"` // human-readable: what was observed
	Witness any    `json:"witness,omitempty"`
}

// Run collects what one child process observed.
type Run struct {
	Property string
	Part     string
	Seed     int64
	Tier     string
	Shard    int
	Shards   int

	mu          sync.Mutex
	evals       int64
	distinct    map[string]struct{}
	trivialSigs map[string]struct{}
	samples     []any
	maxSamples  int
	violations  []Violation
	violCount   map[string]int
	inconcl     map[string]int
	counters    map[string]int64
	sets        map[string]map[string]struct{}
	notes       []string
	start       time.Time
	exhaustive  *bool
}

func envInt(name string, def int64) int64 {
	if v := os.Getenv(name); v != "" {
		if n, err := strconv.ParseInt(v, 10, 64); err == nil {
			return n
		}
	}
	return def
}

// New reads VERIF_SEED / VERIF_TIER / VERIF_SHARD / VERIF_SHARDS.
func New(property, part string) *Run {
	tier := os.Getenv("VERIF_TIER")
	if tier != "thorough" {
		tier = "quick"
	}
	r := &Run{
		Property:    property,
		Part:        part,
		Seed:        envInt("VERIF_SEED", 1),
		Tier:        tier,
		Shard:       int(envInt("VERIF_SHARD", 0)),
		Shards:      int(envInt("VERIF_SHARDS", 1)),
		distinct:    map[string]struct{}{},
		trivialSigs: map[string]struct{}{},
		maxSamples:  4,
		violCount:   map[string]int{},
		inconcl:     map[string]int{},
		counters:    map[string]int64{},
		sets:        map[string]map[string]struct{}{},
		start:       time.Now(),
	}
	if r.Shards < 1 {
		r.Shards = 1
	}
	return r
}

// Thorough reports whether the thorough tier was requested.
func (r *Run) Thorough() bool { return r.Tier == "thorough" }

// Scale returns q in the quick tier and t in the thorough tier.
func (r *Run) Scale(q, t int) int {
	if r.Thorough() {
		return t
	}
	return q
}

// Mine reports whether enumeration index i belongs to this shard.
func (r *Run) Mine(i int) bool { return i%r.Shards == r.Shard }

// Rand returns a PRNG determined by (seed, part, shard, stream).
func (r *Run) Rand(stream uint64) *rand.Rand {
	h := fnv.New64a()
	fmt.Fprintf(h, "%s/%s/%d/%d/%d", r.Property, r.Part, r.Seed, r.Shard, stream)
	return rand.New(rand.NewPCG(h.Sum64(), stream*0x9E3779B97F4A7C15+1))
}

// GlobalRand returns a PRNG determined by (seed, part, stream) only — identical in every shard,
// for enumerations that are split with Mine.
func (r *Run) GlobalRand(stream uint64) *rand.Rand {
	h := fnv.New64a()
	fmt.Fprintf(h, "%s/%s/%d/g/%d", r.Property, r.Part, r.Seed, stream)
	return rand.New(rand.NewPCG(h.Sum64(), stream*0x9E3779B97F4A7C15+7))
}

// Case counts one executed case. sig is the distinct-case signature; nontrivial says whether it
// satisfies the property's non-triviality rule.
func (r *Run) Case(sig string, nontrivial bool) {
	r.mu.Lock()
	r.evals++
	if nontrivial {
		r.distinct[sig] = struct{}{}
	} else if len(r.trivialSigs) < 100000 {
		r.trivialSigs[sig] = struct{}{}
	}
	r.mu.Unlock()
}

// Sample keeps a few actual cases for the evidence file.
func (r *Run) Sample(v any) {
	r.mu.Lock()
	if len(r.samples) < r.maxSamples {
		r.samples = append(r.samples, v)
	}
	r.mu.Unlock()
}

// WantSample reports whether another sample would be kept.
func (r *Run) WantSample() bool {
	r.mu.Lock()
	defer r.mu.Unlock()
	return len(r.samples) < r.maxSamples
}

// Violation records a refutation.
func (r *Run) Violation(sig, desc string, witness any) {
	r.mu.Lock()
	r.violCount[sig]++
	first := r.violCount[sig] == 1
	if r.violCount[sig] <= 3 && len(r.violations) < 60 {
		r.violations = append(r.violations, Violation{Sig: sig, Desc: desc, Witness: witness})
	}
	r.mu.Unlock()
	if first {
		// an interim summary (complete: false): what was seen so far survives a child that is cut
		// short afterwards (a workload slowed down so much by the violation that it hits the driver's
		// watchdog, or one that deadlocks later)
		r.write(false)
	}
}

// Violations returns the number of violations so far.
func (r *Run) Violations() int {
	r.mu.Lock()
	defer r.mu.Unlock()
	n := 0
	for _, c := range r.violCount {
		n += c
	}
	return n
}

// Inconclusive counts a case that could not be decided.
func (r *Run) Inconclusive(reason string) {
	r.mu.Lock()
	r.inconcl[reason]++
	r.mu.Unlock()
}

// Count adds to a named counter (monitor events observed etc.).
func (r *Run) Count(name string, n int64) {
	r.mu.Lock()
	r.counters[name] += n
	r.mu.Unlock()
}

// Max keeps the maximum of a named counter.
func (r *Run) Max(name string, n int64) {
	r.mu.Lock()
	if n > r.counters[name] {
		r.counters[name] = n
	}
	r.mu.Unlock()
}

// SetAdd adds a member to a named set whose cardinality is reported (distinct interleavings etc.).
func (r *Run) SetAdd(name, member string) {
	r.mu.Lock()
	s := r.sets[name]
	if s == nil {
		s = map[string]struct{}{}
		r.sets[name] = s
	}
	if len(s) < 200000 {
		s[member] = struct{}{}
	}
	r.mu.Unlock()
}

// Note attaches a free-text remark to the evidence.
func (r *Run) Note(s string) {
	r.mu.Lock()
	if len(r.notes) < 20 {
		r.notes = append(r.notes, s)
	}
	r.mu.Unlock()
}

// Exhaustive states whether the finite space of this part was enumerated completely.
func (r *Run) Exhaustive(b bool) { r.mu.Lock(); r.exhaustive = &b; r.mu.Unlock() }

type summary struct {
	Property    string              `json:"property"`
	Part        string              `json:"part"`
	Seed        int64               `json:"seed"`
	Tier        string              `json:"tier"`
	Shard       int                 `json:"shard"`
	Shards      int                 `json:"shards"`
	Evaluations int64               `json:"evaluations"`
	Distinct    []string            `json:"distinct"`
	Samples     []any               `json:"samples"`
	Violations  []Violation         `json:"violations"`
	ViolCount   map[string]int      `json:"viol_count"`
	Inconcl     map[string]int      `json:"inconclusive"`
	Counters    map[string]int64    `json:"counters"`
	Sets        map[string][]string `json:"sets"`
	Notes       []string            `json:"notes"`
	WallS       float64             `json:"wall_s"`
	Exhaustive  *bool               `json:"exhaustive,omitempty"`
	Complete    bool                `json:"complete"`
}

// Finish writes the summary to $VERIF_OUT (or stdout when unset). A child that dies before Finish
// leaves no summary, which the driver treats as a crash.
func (r *Run) Finish() { r.write(true) }

func (r *Run) write(complete bool) {
	r.mu.Lock()
	defer r.mu.Unlock()
	if !complete && os.Getenv("VERIF_OUT") == "" {
		return
	}
	s := summary{
		Property: r.Property, Part: r.Part, Seed: r.Seed, Tier: r.Tier, Shard: r.Shard, Shards: r.Shards,
		Evaluations: r.evals, Samples: r.samples, Violations: r.violations, ViolCount: r.violCount,
		Inconcl: r.inconcl, Counters: r.counters, Notes: r.notes, WallS: time.Since(r.start).Seconds(),
		Exhaustive: r.exhaustive, Complete: complete, Sets: map[string][]string{},
	}
	for k := range r.distinct {
		s.Distinct = append(s.Distinct, k)
	}
	sort.Strings(s.Distinct)
	for name, set := range r.sets {
		var l []string
		for k := range set {
			l = append(l, k)
		}
		sort.Strings(l)
		s.Sets[name] = l
	}
	b, err := json.Marshal(s)
	if err != nil {
		// a witness that cannot be encoded must not hide the verdict
		for i := range s.Violations {
			s.Violations[i].Witness = fmt.Sprintf("%+v", s.Violations[i].Witness)
		}
		for i := range s.Samples {
			s.Samples[i] = fmt.Sprintf("%+v", s.Samples[i])
		}
		b, err = json.Marshal(s)
		if err != nil {
			panic(err)
		}
	}
	out := os.Getenv("VERIF_OUT")
	if out == "" {
		os.Stdout.Write(append(b, '\n'))
		return
	}
	if err := os.WriteFile(out+".tmp", b, 0o644); err != nil {
		panic(err)
	}
	if err := os.Rename(out+".tmp", out); err != nil {
		panic(err)
	}
}

// ---------------------------------------------------------------------------------------------
// Logical clock: the only source of real-time order used by the interval oracles.

// Clock is a process-wide logical clock.
type Clock struct{ n atomic.Uint64 }

// Tick returns the next stamp (starting at 1).
func (c *Clock) Tick() uint64 { return c.n.Add(1) }

// Now returns the latest stamp handed out.
func (c *Clock) Now() uint64 { return c.n.Load() }

// Hash64 is a small helper for sub-seeds.
func Hash64(parts ...any) uint64 {
	h := fnv.New64a()
	fmt.Fprint(h, parts...)
	return h.Sum64()
}

// Logf prints a progress line that ends up in the child log (attribution of crashes to cases).
func Logf(format string, args ...any) {
	fmt.Fprintf(os.Stderr, format+"\n", args...)
}
