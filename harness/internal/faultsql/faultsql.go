//go:build verif

// Package faultsql registers "sqlite-fault": a database/sql driver that forwards everything to the
// real modernc SQLite driver and can make Rows.Next fail at a chosen row of a chosen query. With
// sqlite.VerifSetDBOpener the SQLite store opens its database through it.
package faultsql

import (
	"context"
	"database/sql"
	"database/sql/driver"
	"errors"
	"io"
	"strings"
	"sync"

	"github.com/jilio/ebu/stores/sqlite"
	_ "modernc.org/sqlite"
)

// ErrRow is the injected row-iteration error.
var ErrRow = errors.New("verif: injected row iteration error")

// Plan selects the failure: the FailRow-th call to Next (1-based) of the QueryN-th (0-based) query
// whose text contains Match fails. FailRow == 0 disables injection.
type Plan struct {
	Match   string
	QueryN  int
	FailRow int
	Err     error // the error to inject (nil: ErrRow)
}

var (
	mu      sync.Mutex
	plan    Plan
	matched int
	fired   int
	queries int
)

// Set installs a plan and resets the counters.
func Set(p Plan) {
	mu.Lock()
	plan, matched, fired, queries = p, 0, 0, 0
	mu.Unlock()
}

// Stats returns (matching queries seen, injections fired).
func Stats() (int, int) { mu.Lock(); defer mu.Unlock(); return matched, fired }

var once sync.Once

// Install registers the driver and points the SQLite store's opener at it; the returned function
// restores the store's opener.
func Install() (restore func()) {
	once.Do(func() {
		db, err := sql.Open("sqlite", "")
		if err != nil {
			panic(err)
		}
		inner := db.Driver()
		db.Close()
		sql.Register("sqlite-fault", &drv{inner: inner})
	})
	return sqlite.VerifSetDBOpener(func(_ string, dsn string) (*sql.DB, error) { return sql.Open("sqlite-fault", dsn) })
}

type drv struct{ inner driver.Driver }

func (d *drv) Open(name string) (driver.Conn, error) {
	c, err := d.inner.Open(name)
	if err != nil {
		return nil, err
	}
	return &conn{c}, nil
}

type conn struct{ driver.Conn }

func (c *conn) PrepareContext(ctx context.Context, q string) (driver.Stmt, error) {
	var s driver.Stmt
	var err error
	if pc, ok := c.Conn.(driver.ConnPrepareContext); ok {
		s, err = pc.PrepareContext(ctx, q)
	} else {
		s, err = c.Conn.Prepare(q)
	}
	if err != nil {
		return nil, err
	}
	return &stmt{Stmt: s, q: q}, nil
}

func (c *conn) Prepare(q string) (driver.Stmt, error) {
	return c.PrepareContext(context.Background(), q)
}

func (c *conn) BeginTx(ctx context.Context, o driver.TxOptions) (driver.Tx, error) {
	if b, ok := c.Conn.(driver.ConnBeginTx); ok {
		return b.BeginTx(ctx, o)
	}
	return c.Conn.Begin()
}

func (c *conn) ExecContext(ctx context.Context, q string, args []driver.NamedValue) (driver.Result, error) {
	if e, ok := c.Conn.(driver.ExecerContext); ok {
		return e.ExecContext(ctx, q, args)
	}
	return nil, driver.ErrSkip
}

func (c *conn) QueryContext(ctx context.Context, q string, args []driver.NamedValue) (driver.Rows, error) {
	qc, ok := c.Conn.(driver.QueryerContext)
	if !ok {
		return nil, driver.ErrSkip
	}
	r, err := qc.QueryContext(ctx, q, args)
	if err != nil {
		return nil, err
	}
	return wrapRows(r, q), nil
}

func (c *conn) Ping(ctx context.Context) error {
	if p, ok := c.Conn.(driver.Pinger); ok {
		return p.Ping(ctx)
	}
	return nil
}

func (c *conn) ResetSession(ctx context.Context) error {
	if r, ok := c.Conn.(driver.SessionResetter); ok {
		return r.ResetSession(ctx)
	}
	return nil
}

func (c *conn) IsValid() bool {
	if v, ok := c.Conn.(driver.Validator); ok {
		return v.IsValid()
	}
	return true
}

type stmt struct {
	driver.Stmt
	q string
}

func (s *stmt) QueryContext(ctx context.Context, args []driver.NamedValue) (driver.Rows, error) {
	var r driver.Rows
	var err error
	if qc, ok := s.Stmt.(driver.StmtQueryContext); ok {
		r, err = qc.QueryContext(ctx, args)
	} else {
		vals := make([]driver.Value, len(args))
		for i, a := range args {
			vals[i] = a.Value
		}
		r, err = s.Stmt.Query(vals)
	}
	if err != nil {
		return nil, err
	}
	return wrapRows(r, s.q), nil
}

func (s *stmt) ExecContext(ctx context.Context, args []driver.NamedValue) (driver.Result, error) {
	if ec, ok := s.Stmt.(driver.StmtExecContext); ok {
		return ec.ExecContext(ctx, args)
	}
	vals := make([]driver.Value, len(args))
	for i, a := range args {
		vals[i] = a.Value
	}
	return s.Stmt.Exec(vals)
}

type rows struct {
	driver.Rows
	failAt int
	n      int
}

func wrapRows(r driver.Rows, q string) driver.Rows {
	mu.Lock()
	defer mu.Unlock()
	queries++
	w := &rows{Rows: r}
	if plan.FailRow > 0 && strings.Contains(q, plan.Match) {
		if matched == plan.QueryN {
			w.failAt = plan.FailRow
		}
		matched++
	}
	return w
}

func (r *rows) Next(dest []driver.Value) error {
	r.n++
	if r.failAt > 0 && r.n == r.failAt {
		// only inject where a real row would have been returned
		if err := r.Rows.Next(dest); err == io.EOF {
			return io.EOF
		}
		mu.Lock()
		fired++
		injected := plan.Err
		mu.Unlock()
		if injected != nil {
			return injected
		}
		return ErrRow
	}
	return r.Rows.Next(dest)
}

// forward the column-type introspection the store's Scan into time.Time relies on
func (r *rows) ColumnTypeDatabaseTypeName(i int) string {
	if c, ok := r.Rows.(driver.RowsColumnTypeDatabaseTypeName); ok {
		return c.ColumnTypeDatabaseTypeName(i)
	}
	return ""
}

// GenuineBusy provokes a real SQLITE_BUSY from the real driver on a scratch database (one connection
// holds the write lock, a second one with no busy timeout tries to write) and returns that error
// value: a transient "database is locked" as a reader would get it from a long-held lock.
func GenuineBusy(dir string) (error, error) {
	ctx := context.Background()
	db, err := sql.Open("sqlite", "file:"+dir+"/verif-busy-scratch.db?_pragma=busy_timeout(0)")
	if err != nil {
		return nil, err
	}
	defer db.Close()
	if _, err := db.ExecContext(ctx, "CREATE TABLE IF NOT EXISTS t (x INTEGER)"); err != nil {
		return nil, err
	}
	holder, err := db.Conn(ctx)
	if err != nil {
		return nil, err
	}
	defer holder.Close()
	writer, err := db.Conn(ctx)
	if err != nil {
		return nil, err
	}
	defer writer.Close()
	if _, err := holder.ExecContext(ctx, "BEGIN IMMEDIATE"); err != nil {
		return nil, err
	}
	_, busyErr := writer.ExecContext(ctx, "INSERT INTO t VALUES (1)")
	holder.ExecContext(ctx, "ROLLBACK")
	if busyErr == nil || !strings.Contains(busyErr.Error(), "SQLITE_BUSY") {
		return nil, errors.New("could not provoke SQLITE_BUSY: " + errString(busyErr))
	}
	return busyErr, nil
}

func errString(err error) string {
	if err == nil {
		return "<nil>"
	}
	return err.Error()
}
