// Package state is an application's own package that happens to be called like ebu's state package
// and to declare a type of the same short name: reflect prints both as "state.ChangeMessage".
package state

// ChangeMessage is the application's legacy change record, persisted under its own event name.
type ChangeMessage struct {
	Entity string `json:"entity"`
	ID     string `json:"id"`
	Body   string `json:"body"`
}

func (ChangeMessage) EventTypeName() string { return "legacy.state.change" }
