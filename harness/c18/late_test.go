//go:build verif

package c18

import (
	"context"
	"fmt"

	ebu "github.com/jilio/ebu"
	"github.com/jilio/ebu/state"

	"verif/harness/internal/vk"
)

// lateRegistration: collections that are registered from inside the materializer's own callbacks
// (a consumer that learns from a reset or a snapshot marker which tables it has to keep) receive
// every change that follows in the log.
func lateRegistration(run *vk.Run) {
	ctx := context.Background()
	for variant := 0; variant < 4; variant++ {
		strict, viaReplay := variant&1 != 0, variant&2 != 0
		var mat *state.Materializer
		late := state.NewTypedCollectionWithType[User](state.NewMemoryStore[User](), "c18.late-after-reset")
		late2 := state.NewTypedCollectionWithType[User](state.NewMemoryStore[User](), "c18.late-after-snapshot")
		users := state.NewTypedCollection[User](state.NewMemoryStore[User]())
		regReset, regSnap := false, false
		opts := []state.MaterializerOption{
			state.WithOnReset(func() {
				if !regReset {
					regReset = true
					state.RegisterCollection(mat, late)
				}
			}),
			state.WithOnSnapshot(func(start bool) {
				if start && !regSnap {
					regSnap = true
					state.RegisterCollection(mat, late2)
				}
			}),
		}
		if strict {
			opts = append(opts, state.WithStrictSchema())
		}
		mat = state.NewMaterializer(opts...)
		state.RegisterCollection(mat, users)
		store := ebu.NewMemoryStore()
		bus := ebu.New(ebu.WithStore(store))
		pub := func(m *state.ChangeMessage, err error) {
			if err != nil {
				panic(err)
			}
			ebu.Publish(bus, *m)
		}
		pub(state.Insert("k0", User{Name: "zero"}))
		ebu.Publish(bus, *state.Reset("1"))
		pub(state.Insert("k1", User{Name: "one"}, state.WithEntityType("c18.late-after-reset")))
		ebu.Publish(bus, *state.SnapshotStart("2"))
		pub(state.Insert("k2", User{Name: "two"}, state.WithEntityType("c18.late-after-snapshot")))
		ebu.Publish(bus, *state.SnapshotEnd("3"))
		pub(state.Update("k1", User{Name: "one-b"}, state.WithEntityType("c18.late-after-reset")))
		pub(state.Insert("k3", User{Name: "three"}, state.WithEntityType("c18.late-after-reset")))
		var aerr error
		if viaReplay {
			aerr = mat.Replay(ctx, bus, ebu.OffsetOldest)
		} else {
			evs, _, _ := store.Read(ctx, ebu.OffsetOldest, 0)
			for _, e := range evs {
				if err := mat.Apply(e); err != nil && aerr == nil {
					aerr = err
				}
			}
		}
		g1, ok1 := late.Get("k1")
		g3, ok3 := late.Get("k3")
		g2, ok2 := late2.Get("k2")
		run.Case(fmt.Sprintf("collections registered from the reset / snapshot callbacks|strict%v|replay%v", strict, viaReplay), true)
		if aerr != nil || !ok1 || g1.Name != "one-b" || !ok3 || g3.Name != "three" || !ok2 || g2.Name != "two" {
			run.Violation("state:collection-registered-from-a-callback", fmt.Sprintf("a collection registered from the OnReset callback and one registered from the OnSnapshot callback (strict %v, through Replay %v): applying the log returned %v; the first holds k1=%+v (%v) k3=%+v (%v), the second k2=%+v (%v); the log's last writes are one-b, three, two", strict, viaReplay, aerr, g1, ok1, g3, ok3, g2, ok2), nil)
		}
	}
}
