//go:build verif

// C18 — Materialized state is the fold of the message log.
package c18

import (
	"context"
	"encoding/json"
	"fmt"
	"math/rand/v2"
	"os"
	"reflect"
	"strings"
	"testing"
	"time"
	"unicode/utf16"

	ebu "github.com/jilio/ebu"
	"github.com/jilio/ebu/state"

	"verif/harness/internal/stores"
	"verif/harness/internal/vk"
)

type User struct {
	Name  string            `json:"name"`
	Age   int               `json:"age"`
	Nick  string            `json:"nick,omitempty"`
	Tags  []string          `json:"tags,omitempty"`
	Attrs map[string]string `json:"attrs,omitempty"`
}

// Product is an instantiated generic type: its default entity type name is spelled the way Go
// spells it, with brackets ("c18.ProductOf[int]").
type ProductOf[T any] struct {
	SKU   string  `json:"sku"`
	Price float64 `json:"price"`
	Stock *T      `json:"stock,omitempty"`
}
type Product = ProductOf[int]
type Order struct {
	Total int               `json:"total"`
	Lines map[string]int    `json:"lines,omitempty"`
	Meta  map[string]string `json:"meta"`
}

// a namespaced entity type name: it contains the separator itself
const orderType = "shop/order"

func (Order) StateTypeName() string { return orderType }

// legacyEnvelope is a state message as an older producer published it.
type legacyEnvelope struct{ Inner json.RawMessage }

func (legacyEnvelope) EventTypeName() string { return "c18.legacy-envelope" }
func (l legacyEnvelope) MarshalJSON() ([]byte, error) {
	return json.Marshal(map[string]json.RawMessage{"legacy": l.Inner})
}

// Tags is a nil-able entity type (a slice): a nil value encodes as JSON null and is stored as such.
type Tags []string

const tagsType = "c18.tags"

// rawState is a state message published as the JSON text a foreign producer wrote.
type rawState json.RawMessage

func (rawState) EventTypeName() string          { return "state.ChangeMessage" }
func (r rawState) MarshalJSON() ([]byte, error) { return []byte(r), nil }

// respellKey re-encodes a change message with its key written in escapes: every "/" as "\/" and
// every non-ASCII character as \uXXXX (characters beyond the BMP as surrogate pairs). The value of
// the key is unchanged.
func respellKey(m *state.ChangeMessage) []byte {
	b, _ := json.Marshal(m)
	var doc map[string]json.RawMessage
	json.Unmarshal(b, &doc)
	var sb strings.Builder
	sb.WriteByte('"')
	for _, r := range m.Key {
		switch {
		case r == '/':
			sb.WriteString(`\/`)
		case r == '"' || r == '\\':
			sb.WriteByte('\\')
			sb.WriteRune(r)
		case r < 0x20 || r > 0x7e:
			if r > 0xffff {
				r1, r2 := utf16.EncodeRune(r)
				fmt.Fprintf(&sb, `\u%04x\u%04x`, r1, r2)
			} else {
				fmt.Fprintf(&sb, `\u%04x`, r)
			}
		default:
			sb.WriteRune(r)
		}
	}
	sb.WriteByte('"')
	doc["key"] = json.RawMessage(sb.String())
	out, err := json.Marshal(doc)
	if err != nil {
		panic(err)
	}
	return out
}

type Ghost struct{ X int } // never registered

// namesake: a user-shaped entity published under an entity type name that is not registered but
// resembles a registered one (same last component)
type namesake struct {
	Type string
	U    User
}

// UserNext is what a producer that was upgraded first sends: the same entity with a field the
// consumer's struct does not know yet.
type UserNext struct {
	User
	AddedLater int `json:"added_later"`
}

var keys = []string{"1", "😀/1", "user/1", "a/b/c", "ключ", " ", "order/1", "shop/order/1", "a//b/c", "./1", "a/b/c/", "..", "c18.User/1"}

type msgSpec struct {
	Kind string `json:"kind"` // insert update update-old delete delete-old reset snap-start snap-end bad-value
	Ent  string `json:"ent,omitempty"`
	Key  string `json:"key,omitempty"`
	Val  any    `json:"val,omitempty"`
	TS   string `json:"ts,omitempty"` // headers.timestamp given by the producer
}

func genUser(r *rand.Rand) User {
	u := User{Name: []string{"ann", "bob", "", "Zoë"}[r.IntN(4)], Age: r.IntN(90)}
	if r.IntN(2) == 0 {
		u.Nick = []string{"n1", "n2"}[r.IntN(2)]
	}
	if r.IntN(2) == 0 {
		u.Tags = []string{"a", "b", "c"}[:1+r.IntN(3)]
	}
	if r.IntN(2) == 0 {
		u.Attrs = map[string]string{[]string{"k1", "k2", "k3"}[r.IntN(3)]: "v"}
	}
	return u
}
func genProduct(r *rand.Rand) Product {
	p := Product{SKU: fmt.Sprintf("sku-%d", r.IntN(5)), Price: float64(r.IntN(10000)) / 100}
	if r.IntN(2) == 0 {
		n := r.IntN(50)
		p.Stock = &n
	}
	return p
}
func genOrder(r *rand.Rand) Order {
	o := Order{Total: r.IntN(1000), Meta: map[string]string{}}
	if r.IntN(2) == 0 {
		o.Lines = map[string]int{[]string{"x", "y", "z"}[r.IntN(3)]: r.IntN(9)}
	}
	if r.IntN(2) == 0 {
		o.Meta[[]string{"m1", "m2"}[r.IntN(2)]] = "q"
	}
	return o
}

// build turns a spec into a publishable message.
func build(s msgSpec) (any, error) {
	mk := func(op string, v any) (*state.ChangeMessage, error) {
		switch e := v.(type) {
		case User:
			switch op {
			case "insert":
				return state.Insert(s.Key, e)
			case "update":
				return state.Update(s.Key, e)
			case "update-old":
				return state.UpdateWithOldValue(s.Key, e, User{Name: "old"})
			case "delete-old":
				return state.DeleteWithOldValue(s.Key, e)
			}
		case Product:
			switch op {
			case "insert":
				return state.Insert(s.Key, e)
			case "update":
				return state.Update(s.Key, e)
			case "update-old":
				return state.UpdateWithOldValue(s.Key, e, Product{SKU: "old"})
			case "delete-old":
				return state.DeleteWithOldValue(s.Key, e)
			}
		case Order:
			switch op {
			case "insert":
				return state.Insert(s.Key, e)
			case "update":
				return state.Update(s.Key, e)
			case "update-old":
				return state.UpdateWithOldValue(s.Key, e, Order{Total: -1})
			case "delete-old":
				return state.DeleteWithOldValue(s.Key, e)
			}
		case Tags:
			et := state.WithEntityType(tagsType)
			switch op {
			case "insert":
				return state.Insert(s.Key, e, et)
			case "update":
				return state.Update(s.Key, e, et)
			case "update-old":
				return state.UpdateWithOldValue(s.Key, e, Tags{"old"}, et)
			case "delete-old":
				return state.DeleteWithOldValue(s.Key, e, et)
			}
		case namesake:
			// an unregistered entity type whose name ends like a registered one's
			et := state.WithEntityType(e.Type)
			switch op {
			case "insert":
				return state.Insert(s.Key, e.U, et)
			case "update", "update-old":
				return state.Update(s.Key, e.U, et)
			case "delete-old":
				return state.DeleteWithOldValue(s.Key, e.U, et)
			}
		case Ghost:
			switch op {
			case "insert":
				return state.Insert(s.Key, e)
			case "update", "update-old":
				return state.Update(s.Key, e)
			case "delete-old":
				return state.DeleteWithOldValue(s.Key, e)
			}
		}
		return nil, fmt.Errorf("bad spec %+v", s)
	}
	switch s.Kind {
	case "insert-newer":
		return state.Insert(s.Key, UserNext{User: s.Val.(User), AddedLater: 7}, state.WithEntityType(state.EntityType(User{})))
	case "insert", "update", "update-old", "delete-old":
		return mk(s.Kind, s.Val)
	case "delete":
		switch s.Ent {
		case "user":
			return state.Delete[User](s.Key)
		case "product":
			return state.Delete[Product](s.Key)
		case "order":
			return state.Delete[Order](s.Key)
		case "tags":
			return state.Delete[Tags](s.Key, state.WithEntityType(tagsType))
		default:
			if s.Key == keys[0] {
				return state.Delete[User](s.Key, state.WithEntityType("other.User"))
			}
			return state.Delete[Ghost](s.Key)
		}
	case "bad-value":
		// a well-formed change message whose value does not decode into the entity type
		return &state.ChangeMessage{Type: state.EntityType(User{}), Key: s.Key, Value: json.RawMessage(`{"age":"not a number"}`), Headers: state.Headers{Operation: state.OperationUpdate}}, nil
	case "reset":
		return state.Reset(""), nil
	case "snap-start":
		return state.SnapshotStart("7"), nil
	case "snap-end":
		return state.SnapshotEnd("9"), nil
	}
	return nil, fmt.Errorf("bad kind")
}

func gen(r *rand.Rand) []msgSpec {
	n := r.IntN(40)
	if r.IntN(10) == 0 {
		n = 100 + r.IntN(100)
	}
	var l []msgSpec
	for i := 0; i < n; i++ {
		key := keys[r.IntN(len(keys))]
		ent := []string{"user", "user", "product", "order", "ghost", "tags"}[r.IntN(6)]
		var val any
		switch ent {
		case "user":
			val = genUser(r)
		case "product":
			val = genProduct(r)
		case "order":
			val = genOrder(r)
		case "tags":
			val = []Tags{nil, nil, {}, {"a"}, {"a", "b"}}[r.IntN(5)]
		default:
			val = Ghost{X: r.IntN(9)}
			if r.IntN(2) == 0 {
				val = namesake{Type: []string{"other.User", "archive/order", "User", "c18.User.v2"}[r.IntN(4)], U: genUser(r)}
			}
		}
		switch x := r.IntN(40); {
		case x < 12 && ent == "user" && r.IntN(3) == 0:
			l = append(l, msgSpec{Kind: "insert-newer", Ent: ent, Key: key, Val: val})
		case x < 12:
			l = append(l, msgSpec{Kind: "insert", Ent: ent, Key: key, Val: val})
		case x < 22:
			l = append(l, msgSpec{Kind: "update", Ent: ent, Key: key, Val: val})
		case x < 25:
			l = append(l, msgSpec{Kind: "update-old", Ent: ent, Key: key, Val: val})
		case x < 31:
			l = append(l, msgSpec{Kind: "delete", Ent: ent, Key: key})
		case x < 33:
			l = append(l, msgSpec{Kind: "delete-old", Ent: ent, Key: key, Val: val})
		case x < 35:
			l = append(l, msgSpec{Kind: "reset"})
			// reset-and-rebuild: the first change after the reset repeats the last one before it
			if r.IntN(2) == 0 {
				for j := len(l) - 2; j >= 0; j-- {
					if k := l[j].Kind; k == "insert" || k == "update" || k == "delete" {
						l = append(l, l[j])
						break
					}
				}
			}
		case x < 37:
			l = append(l, msgSpec{Kind: "snap-start"})
		case x < 38:
			l = append(l, msgSpec{Kind: "snap-end"})
		default:
			l = append(l, msgSpec{Kind: "bad-value", Ent: "user", Key: key})
		}
	}
	// producers stamp some of their changes with their own (skewed) clocks: the fold follows the log
	for i := range l {
		if k := l[i].Kind; k != "reset" && k != "snap-start" && k != "snap-end" && k != "bad-value" && r.IntN(3) == 0 {
			l[i].TS = time.Unix(1700000000+int64(r.IntN(2000))-1000, 0).UTC().Format(time.RFC3339)
		}
	}
	return l
}

type model struct {
	tags     map[string]Tags // a nil-able entity type: nil is a value like any other
	users    map[string]User
	products map[string]Product
	orders   map[string]Order
	last     ebu.Offset
	resets   int
	snaps    []bool
}

func newModel() *model {
	return &model{users: map[string]User{}, products: map[string]Product{}, orders: map[string]Order{}, tags: map[string]Tags{}}
}

// applies folds one message; ok=false: the event cannot be applied (state and last offset unchanged).
func (m *model) apply(s msgSpec, off ebu.Offset, strict bool) (ok bool) {
	switch s.Kind {
	case "reset":
		m.users, m.products, m.orders, m.tags = map[string]User{}, map[string]Product{}, map[string]Order{}, map[string]Tags{}
		m.resets++
	case "snap-start":
		m.snaps = append(m.snaps, true)
	case "snap-end":
		m.snaps = append(m.snaps, false)
	case "bad-value":
		return false
	default:
		if s.Ent == "ghost" {
			if strict {
				return false
			}
			break
		}
		ck := map[string]string{"user": state.EntityType(User{}), "product": state.EntityType(Product{}), "order": orderType, "tags": tagsType}[s.Ent] + "/" + s.Key
		switch s.Kind {
		case "insert", "update", "update-old", "insert-newer":
			switch v := s.Val.(type) {
			case User:
				m.users[ck] = v
			case Product:
				m.products[ck] = v
			case Order:
				m.orders[ck] = v
			case Tags:
				m.tags[ck] = v
			}
		case "delete", "delete-old":
			switch s.Ent {
			case "user":
				delete(m.users, ck)
			case "product":
				delete(m.products, ck)
			case "order":
				delete(m.orders, ck)
			case "tags":
				delete(m.tags, ck)
			}
		}
	}
	m.last = off
	return true
}

type sess struct {
	tags     *state.TypedCollection[Tags]
	mat      *state.Materializer
	users    *state.TypedCollection[User]
	products *state.TypedCollection[Product]
	orders   *state.TypedCollection[Order]
	resets   int
	snaps    []bool
	onErrs   int
}

func newSess(strict bool) *sess {
	s := &sess{}
	// the callbacks look at the materializer they belong to (a consumer logging "reset at offset ..."):
	// they run in the middle of Apply and must not be locked out
	opts := []state.MaterializerOption{
		state.WithOnReset(func() { s.resets++; _ = s.mat.LastOffset() }),
		state.WithOnSnapshot(func(b bool) { s.snaps = append(s.snaps, b); _ = s.mat.LastOffset() }),
		state.WithOnError(func(error) { s.onErrs++; _ = s.mat.LastOffset() })}
	if strict {
		opts = append(opts, state.WithStrictSchema())
	}
	s.mat = state.NewMaterializer(opts...)
	s.users = state.NewTypedCollection[User](state.NewMemoryStore[User]())
	s.products = state.NewTypedCollection[Product](state.NewMemoryStore[Product]())
	s.orders = state.NewTypedCollection[Order](state.NewMemoryStore[Order]())
	state.RegisterCollection(s.mat, s.users)
	state.RegisterCollection(s.mat, s.products)
	state.RegisterCollection(s.mat, s.orders)
	s.tags = state.NewTypedCollectionWithType[Tags](state.NewMemoryStore[Tags](), tagsType)
	state.RegisterCollection(s.mat, s.tags)
	return s
}

func norm[T any](m map[string]T) map[string]T {
	if m == nil {
		return map[string]T{}
	}
	return m
}

func (s *sess) diff(m *model, checkCallbacks bool) string {
	if !reflect.DeepEqual(norm(s.users.All()), m.users) {
		return fmt.Sprintf("user collection holds %+v, the fold of the log is %+v", s.users.All(), m.users)
	}
	if !reflect.DeepEqual(norm(s.products.All()), m.products) {
		return fmt.Sprintf("product collection holds %+v, the fold of the log is %+v", jsonOf(s.products.All()), jsonOf(m.products))
	}
	if !reflect.DeepEqual(norm(s.orders.All()), m.orders) {
		return fmt.Sprintf("order collection holds %+v, the fold of the log is %+v", s.orders.All(), m.orders)
	}
	gotTags := s.tags.All()
	if len(gotTags) != len(m.tags) {
		return fmt.Sprintf("tags collection holds %d entries %+v, the fold of the log has %d %+v", len(gotTags), gotTags, len(m.tags), m.tags)
	}
	for ck, want := range m.tags {
		if got, ok := gotTags[ck]; !ok || fmt.Sprint([]string(got)) != fmt.Sprint([]string(want)) {
			return fmt.Sprintf("tags collection holds %+v (present=%v) under %q, the fold of the log is %+v", got, ok, ck, want)
		}
	}
	for ck, want := range m.users {
		key := strings.TrimPrefix(ck, state.EntityType(User{})+"/")
		if got, ok := s.users.Get(key); !ok || !reflect.DeepEqual(got, want) {
			return fmt.Sprintf("Get(%q) = %+v, %v; want %+v", key, got, ok, want)
		}
	}
	for _, k := range keys {
		if _, inModel := m.orders[orderType+"/"+k]; !inModel {
			if _, ok := s.orders.Get(k); ok {
				return fmt.Sprintf("order %q is present although it was deleted / reset / never written", k)
			}
		}
	}
	if s.mat.LastOffset() != m.last {
		return fmt.Sprintf("LastOffset() = %q, the last successfully applied event has offset %q", s.mat.LastOffset(), m.last)
	}
	if checkCallbacks && (s.resets != m.resets || fmt.Sprint(s.snaps) != fmt.Sprint(m.snaps)) {
		return fmt.Sprintf("reset callback ran %d times (want %d), snapshot callbacks %v (want %v)", s.resets, m.resets, s.snaps, m.snaps)
	}
	return ""
}

func jsonOf(v any) string { b, _ := json.Marshal(v); return string(b) }

// readFrom reads everything after an offset, following next offsets (a store may cap its pages).
func readFrom(ctx context.Context, st ebu.EventStore, from ebu.Offset) ([]*ebu.StoredEvent, error) {
	var all []*ebu.StoredEvent
	for step := 0; step < 100000; step++ {
		evs, next, err := st.Read(ctx, from, 0)
		if err != nil {
			return nil, err
		}
		if len(evs) == 0 {
			break
		}
		all = append(all, evs...)
		from = next
	}
	return all, nil
}

func TestC18(t *testing.T) {
	run := vk.New("C18", "fold")
	defer run.Finish()
	if run.Shard == 0 {
		lateRegistration(run)
	}
	scratch := os.Getenv("VERIF_SCRATCH")
	if scratch == "" {
		scratch = t.TempDir()
	}
	n := run.Scale(120, 4000)
	ctx := context.Background()
	for c := 0; c < n; c++ {
		r := run.Rand(uint64(c))
		specs := gen(r)
		strict := r.IntN(2) == 0
		kind := []string{"memory", "memory-capped", "sqlite-mem", "memory-paged", "memory"}[c%5]
		st, err := stores.Open(kind, scratch)
		if err != nil {
			t.Fatal(err)
		}
		bus := ebu.New(ebu.WithStore(st.Store))
		for _, sp := range specs {
			msg, err := build(sp)
			if err != nil {
				t.Fatalf("build %+v: %v", sp, err)
			}
			switch m := msg.(type) {
			case *state.ChangeMessage:
				if sp.TS != "" {
					m.Headers.Timestamp = sp.TS
				}
				if c%4 == 1 {
					// a producer in another language: the same document, its key spelled with the escapes
					// JSON allows ("\/", "\uXXXX" incl. surrogate pairs)
					ebu.Publish(bus, rawState(respellKey(m)))
					continue
				}
				if c%2 == 0 {
					ebu.Publish(bus, *m)
				} else {
					ebu.Publish(bus, m)
				}
			case *state.ControlMessage:
				ebu.Publish(bus, *m)
			}
		}
		evs, err := readFrom(ctx, st.Store, ebu.OffsetOldest)
		if err != nil || len(evs) != len(specs) {
			t.Fatalf("store holds %d events for %d messages (%v)", len(evs), len(specs), err)
		}
		witness := map[string]any{"case": c, "store": kind, "strict": strict, "messages": specs}
		viol := func(rule, desc string) {
			run.Violation("state:"+rule, fmt.Sprintf("[%s, strict=%v, %d messages] %s", kind, strict, len(specs), desc), witness)
		}
		// reference fold, and which events can be applied
		full := newModel()
		applicable := make([]bool, len(specs))
		allOK := true
		for i, sp := range specs {
			applicable[i] = full.apply(sp, evs[i].Offset, strict)
			allOK = allOK && applicable[i]
		}
		// one session, event by event: errors exactly where the model says, state untouched by them
		one := newSess(strict)
		shadow := newModel()
		for i, e := range evs {
			err := one.mat.Apply(e)
			if (err == nil) != applicable[i] {
				viol("apply-result", fmt.Sprintf("Apply of message %d (%+v) returned %v, want success=%v", i, specs[i], err, applicable[i]))
				break
			}
			shadow.apply(specs[i], e.Offset, strict)
			if err != nil {
				if d := one.diff(shadow, true); d != "" {
					viol("failed-apply-changed-state", fmt.Sprintf("after the failing message %d: %s", i, d))
					break
				}
			}
		}
		if d := one.diff(full, true); d != "" {
			viol("one-session-fold", d)
		}
		nBad := 0
		for _, sp := range specs {
			if sp.Kind == "bad-value" {
				nBad++
			}
		}
		if one.onErrs != nBad {
			viol("onerror-callback", fmt.Sprintf("the OnError callback ran %d times for %d change messages that could not be applied to their registered collection", one.onErrs, nBad))
		}
		// the same messages applied directly (ApplyChangeMessage / ApplyControlMessage): same state, no offset
		direct := newSess(strict)
		for i, e := range evs {
			var probe struct {
				Headers struct {
					Control string `json:"control"`
				} `json:"headers"`
			}
			json.Unmarshal(e.Data, &probe)
			if probe.Headers.Control != "" {
				var cm state.ControlMessage
				json.Unmarshal(e.Data, &cm)
				direct.mat.ApplyControlMessage(&cm)
				continue
			}
			var ch state.ChangeMessage
			json.Unmarshal(e.Data, &ch)
			if err := direct.mat.ApplyChangeMessage(&ch); (err == nil) != applicable[i] {
				viol("direct-apply-result", fmt.Sprintf("ApplyChangeMessage of message %d returned %v, want success=%v", i, err, applicable[i]))
				break
			}
		}
		fullNoOffset := *full
		fullNoOffset.last = ""
		if d := direct.diff(&fullNoOffset, true); d != "" {
			viol("direct-apply-fold", d)
		}
		// a collection registered again for its entity type replaces the earlier one: later changes go
		// to it, and a replay from the start fills it
		if allOK && len(evs) > 0 {
			fresh := state.NewTypedCollection[User](state.NewMemoryStore[User]())
			state.RegisterCollection(one.mat, fresh)
			if err := one.mat.Replay(ctx, bus, ebu.OffsetOldest); err != nil {
				viol("reregister-replay-error", err.Error())
			} else if !reflect.DeepEqual(norm(fresh.All()), full.users) {
				viol("reregistered-collection", fmt.Sprintf("a collection registered again for the user type and replayed from the start holds %+v, the fold is %+v", fresh.All(), full.users))
			}
		}
		// Materializer.Replay over the bus (only when every event applies: Replay stops at an error)
		if allOK {
			viaReplay := newSess(strict)
			if err := viaReplay.mat.Replay(ctx, bus, ebu.OffsetOldest); err != nil {
				viol("replay-error", err.Error())
			} else if d := viaReplay.diff(full, true); d != "" {
				viol("replay-fold", d)
			}
		}
		// Materializer.Replay over a log with an event that cannot be applied: it stops there with an
		// error, the state is the fold of the events before it and LastOffset is the offset of the last
		// one that was applied (so that a resumed session sees the failing event again)
		if !allOK {
			i0 := 0
			for applicable[i0] {
				i0++
			}
			prefix := newModel()
			for i := 0; i < i0; i++ {
				prefix.apply(specs[i], evs[i].Offset, strict)
			}
			failing := newSess(strict)
			if err := failing.mat.Replay(ctx, bus, ebu.OffsetOldest); err == nil {
				viol("replay-swallowed-apply-error", fmt.Sprintf("Materializer.Replay returned nil although message %d (%+v) cannot be applied", i0, specs[i0]))
			} else if d := failing.diff(prefix, false); d != "" {
				viol("failed-replay-state", fmt.Sprintf("Materializer.Replay stopped at the failing message %d: %s", i0, d))
			}
		}
		// the same log as an older producer wrote it - every message inside an envelope under one legacy
		// event name - read through an upcasting replay whose upcaster unwraps it (declared target: the
		// change-message name, for change and control messages alike): the fold is the same
		if allOK && c%3 == 0 {
			lst, err := stores.Open(kind, scratch)
			if err != nil {
				t.Fatal(err)
			}
			lbus := ebu.New(ebu.WithStore(lst.Store))
			for _, e := range evs {
				ebu.Publish(lbus, legacyEnvelope{Inner: e.Data})
			}
			ebu.RegisterUpcastFunc(lbus, "c18.legacy-envelope", "state.ChangeMessage", func(d json.RawMessage) (json.RawMessage, string, error) {
				var env struct {
					Legacy json.RawMessage `json:"legacy"`
				}
				if err := json.Unmarshal(d, &env); err != nil {
					return nil, "", err
				}
				return env.Legacy, "state.ChangeMessage", nil
			})
			viaUpcast := newSess(strict)
			if err := lbus.ReplayWithUpcast(ctx, ebu.OffsetOldest, viaUpcast.mat.Apply); err != nil {
				viol("legacy-replay-error", err.Error())
			} else {
				want := *full
				want.last = viaUpcast.mat.LastOffset() // (the legacy log has its own offsets)
				if d := viaUpcast.diff(&want, true); d != "" {
					viol("legacy-upcast-fold", d)
				}
			}
			lst.Close()
		}
		// two sessions at every split point
		splits := len(evs) + 1
		stepK := 1
		if len(evs) > 60 {
			stepK = 7
		}
		for k := 0; k < splits; k += stepK {
			two := newSess(strict)
			for i := 0; i < k; i++ {
				two.mat.Apply(evs[i])
			}
			from := two.mat.LastOffset()
			restOK := true
			for i := k; i < len(evs); i++ {
				restOK = restOK && applicable[i]
			}
			// events between the last successfully applied one and k are failing ones: they are replayed again
			for i := 0; i < k; i++ {
				if !applicable[i] && (from == "" || evs[i].Offset > from || len(evs[i].Offset) > len(from)) {
					restOK = false
				}
			}
			if restOK {
				if err := two.mat.Replay(ctx, bus, from); err != nil {
					viol("resume-replay-error", fmt.Sprintf("split at %d: Replay(from LastOffset=%q) returned %v", k, from, err))
					break
				}
			} else {
				rest, err := readFrom(ctx, st.Store, from)
				if err != nil {
					t.Fatal(err)
				}
				for _, e := range rest {
					two.mat.Apply(e)
				}
			}
			if d := two.diff(full, false); d != "" {
				viol("two-session-differs", fmt.Sprintf("split at %d (second session resumed from LastOffset=%q): %s", k, from, d))
				break
			}
		}
		// another writer (a second bus on the same store, as another process would be) adds messages
		// after this bus's own last append; a session that is caught up with this bus's log and
		// resumes through this bus sees them
		if allOK && len(evs) > 0 {
			caught := newSess(strict)
			for _, e := range evs {
				caught.mat.Apply(e)
			}
			from := caught.mat.LastOffset()
			other := ebu.New(ebu.WithStore(st.Store))
			late := []msgSpec{{Kind: "insert", Ent: "user", Key: "written-by-another-bus", Val: genUser(r)}, {Kind: "update", Ent: "user", Key: "written-by-another-bus", Val: genUser(r)}}
			for _, sp := range late {
				msg, err := build(sp)
				if err != nil {
					t.Fatal(err)
				}
				ebu.Publish(other, *msg.(*state.ChangeMessage))
			}
			rest, err := readFrom(ctx, st.Store, from)
			if err != nil || len(rest) != len(late) {
				t.Fatalf("the other writer's %d messages are not in the store after %q: %d (%v)", len(late), from, len(rest), err)
			}
			for i, sp := range late {
				full.apply(sp, rest[i].Offset, strict)
			}
			if err := caught.mat.Replay(ctx, bus, from); err != nil {
				viol("resume-replay-error", fmt.Sprintf("caught-up session resumed from LastOffset=%q after another bus appended %d messages: Replay returned %v", from, len(late), err))
			} else if d := caught.diff(full, false); d != "" {
				viol("two-session-differs", fmt.Sprintf("a session caught up with this bus's own log (LastOffset=%q) resumed through it after another bus on the same store had appended %d messages: %s", from, len(late), d))
			}
			run.Count("resumes_after_another_writer", 1)
		}
		st.Close()
		hasResetAfterWrites, delReinsert := false, false
		written := map[string]bool{}
		deleted := map[string]bool{}
		for _, sp := range specs {
			ck := sp.Ent + "/" + sp.Key
			switch sp.Kind {
			case "insert", "update", "update-old":
				written[sp.Ent] = true
				if deleted[ck] {
					delReinsert = true
				}
			case "delete", "delete-old":
				deleted[ck] = true
			case "reset":
				if len(written) >= 2 {
					hasResetAfterWrites = true
				}
			}
		}
		run.Case(fmt.Sprintf("%s|strict%v|n%d|reset%v|reins%v|ok%v", kind, strict, len(specs)/8, hasResetAfterWrites, delReinsert, allOK), hasResetAfterWrites || delReinsert)
		run.Count("messages_applied", int64(len(specs)))
		run.Count("split_points_checked", int64((splits+stepK-1)/stepK))
		if c < 2 && run.Shard == 0 {
			ss := specs
			if len(ss) > 12 {
				ss = ss[:12]
			}
			run.Sample(map[string]any{"store": kind, "strict": strict, "first_messages": ss, "total": len(specs)})
		}
	}
}
