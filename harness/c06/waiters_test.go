//go:build verif

package c06

import (
	"context"
	"errors"
	"fmt"
	"sync/atomic"
	"testing"
	"testing/synctest"
	"time"

	ebu "github.com/jilio/ebu"

	"verif/harness/internal/vk"
)

// TestC06ConcurrentWaiters (virtual time): several Wait / Shutdown calls on one bus at once, one of
// them a Shutdown whose context ends long before the asynchronous work does. The impatient one gets
// its context's error at its deadline and closes nothing; every other waiter returns exactly when
// the work ends (a Shutdown among them then closes the store, once, after the last handler exit).
func TestC06ConcurrentWaiters(t *testing.T) {
	run := vk.New("C06", "waiters")
	defer run.Finish()
	idx := 0
	for _, work := range []time.Duration{100 * time.Millisecond, time.Second} {
		for _, impatientAt := range []time.Duration{0, 5 * time.Millisecond} { // when the impatient Shutdown is called
			for _, deadline := range []time.Duration{0, 10 * time.Millisecond} { // 0: already ended
				for _, others := range []string{"wait", "shutdown", "wait+shutdown", "wait+wait", "shutdown-bounded"} {
					for _, othersFirst := range []bool{true, false} {
						idx++
						if !run.Mine(idx) {
							continue
						}
						sig := fmt.Sprintf("work=%v impatient@%v deadline=%v others=%s othersFirst=%v", work, impatientAt, deadline, others, othersFirst)
						synctest.Test(t, func(t *testing.T) {
							cs := &closeStore{MemoryStore: ebu.NewMemoryStore()}
							bus := ebu.New(ebu.WithStore(cs))
							t0 := time.Now()
							var running atomic.Int32
							var lastExit atomic.Int64
							ebu.Subscribe(bus, func(sdEvent) {
								running.Add(1)
								time.Sleep(work)
								lastExit.Store(time.Now().UnixNano())
								running.Add(-1)
							}, ebu.Async())
							ebu.Publish(bus, sdEvent{1})
							type ret struct {
								who     string
								at      time.Duration
								err     error
								running int32
							}
							rets := make(chan ret, 8)
							waiter := func(kind string) {
								go func() {
									var err error
									switch kind {
									case "wait":
										bus.Wait()
									case "shutdown":
										err = bus.Shutdown(context.Background())
									case "shutdown-bounded":
										ctx, cancel := context.WithTimeout(context.Background(), work*10)
										err = bus.Shutdown(ctx)
										cancel()
									}
									rets <- ret{kind, time.Since(t0), err, running.Load()}
								}()
							}
							impatient := func() {
								go func() {
									if impatientAt > 0 {
										time.Sleep(impatientAt)
									}
									ctx, cancel := context.WithCancel(context.Background())
									if deadline > 0 {
										ctx, cancel = context.WithTimeout(context.Background(), deadline)
									} else {
										cancel()
									}
									err := bus.Shutdown(ctx)
									cancel()
									rets <- ret{"impatient", time.Since(t0), err, running.Load()}
								}()
							}
							var kinds []string
							switch others {
							case "wait+shutdown":
								kinds = []string{"wait", "shutdown"}
							case "wait+wait":
								kinds = []string{"wait", "wait"}
							default:
								kinds = []string{others}
							}
							if othersFirst {
								for _, k := range kinds {
									waiter(k)
								}
								synctest.Wait()
								impatient()
							} else {
								impatient()
								if impatientAt == 0 {
									synctest.Wait()
								}
								for _, k := range kinds {
									waiter(k)
								}
							}
							closedByOther := 0
							for n := 0; n < len(kinds)+1; n++ {
								r := <-rets
								w := map[string]any{"scenario": sig, "who": r.who, "returned_at": r.at.String(), "err": fmt.Sprint(r.err)}
								if r.who == "impatient" {
									if r.err == nil || !(errors.Is(r.err, context.Canceled) || errors.Is(r.err, context.DeadlineExceeded)) {
										run.Violation("waiters:impatient-shutdown-returned-nil", fmt.Sprintf("%s: the Shutdown whose context ended at %v returned %v while the work runs until %v", sig, impatientAt+deadline, r.err, work), w)
									}
									continue
								}
								if r.running != 0 || r.at != work {
									run.Violation("waiters:returned-before-work-done", fmt.Sprintf("%s: a concurrent %s returned at virtual t=%v with %d handlers still running; the asynchronous work ends at %v", sig, r.who, r.at, r.running, work), w)
								}
								if r.who != "wait" {
									if r.err != nil {
										run.Violation("waiters:patient-shutdown-error", fmt.Sprintf("%s: %s returned %v", sig, r.who, r.err), w)
									}
									closedByOther++
								}
							}
							synctest.Wait()
							wantCloses := int32(0)
							if closedByOther > 0 {
								wantCloses = 1
							}
							if c := cs.closes.Load(); c != wantCloses || (c == 1 && cs.closedAt.Load() < lastExit.Load()) {
								run.Violation("waiters:store-close", fmt.Sprintf("%s: the store was closed %d times (want %d), at %v; the last handler finished at %v", sig, c, wantCloses, time.Unix(0, cs.closedAt.Load()).Sub(t0), time.Unix(0, lastExit.Load()).Sub(t0)), map[string]any{"scenario": sig})
							}
						})
						run.Case(sig, true)
					}
				}
			}
		}
	}
	run.Exhaustive(true)
}
