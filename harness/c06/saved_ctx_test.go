//go:build verif

package c06

import (
	"context"
	"fmt"
	"runtime"
	"sync/atomic"
	"time"

	ebu "github.com/jilio/ebu"

	"verif/harness/internal/vk"
)

type scFirst struct{ N int }
type scSecond struct{ N int }

// savedHandlerContext: an asynchronous handler hands its context to the application's own worker and
// completes; the worker later publishes with that context. Wait (and Shutdown) called after that
// publish has returned cover the asynchronous invocations it caused, like those of any other publish.
func savedHandlerContext(run *vk.Run) {
	for variant := 0; variant < 4; variant++ {
		useShutdown, syncFirst := variant&1 != 0, variant&2 != 0
		cs := &closeStore{MemoryStore: ebu.NewMemoryStore()}
		bus := ebu.New(ebu.WithStore(cs))
		var saved atomic.Value
		var firstOpts []ebu.SubscribeOption
		if !syncFirst {
			firstOpts = append(firstOpts, ebu.Async())
		}
		ebu.SubscribeContext(bus, func(ctx context.Context, _ scFirst) { saved.Store(&ctx) }, firstOpts...)
		gate := make(chan struct{})
		var running, finished atomic.Int32
		ebu.Subscribe(bus, func(scSecond) {
			running.Add(1)
			<-gate
			finished.Add(1)
		}, ebu.Async())
		ebu.PublishContext(bus, context.Background(), scFirst{1})
		bus.Wait()
		ctx := *(saved.Load().(*context.Context))
		ebu.PublishContext(bus, ctx, scSecond{1}) // the worker, some time later
		for spin := 0; running.Load() == 0 && ctx.Err() == nil && spin < 2000000; spin++ {
			runtime.Gosched() // (the invocation has been dispatched: let it get going)
		}
		returned := make(chan error, 1)
		go func() {
			if useShutdown {
				returned <- bus.Shutdown(context.Background())
			} else {
				bus.Wait()
				returned <- nil
			}
		}()
		early := false
		select {
		case <-returned:
			early = finished.Load() == 0 && running.Load() > 0
		case <-time.After(20 * time.Millisecond):
		}
		closesEarly := cs.closes.Load()
		close(gate)
		if !early {
			<-returned
		}
		what := "Wait"
		if useShutdown {
			what = "Shutdown"
		}
		run.Case(fmt.Sprintf("publish with the context of a completed handler|%s|first-sync%v", what, syncFirst), true)
		if early || (useShutdown && closesEarly != 0) {
			run.Violation("wait:publish-with-a-completed-handlers-context", fmt.Sprintf("a publish made with the context that a completed (%s) handler had been given started an asynchronous invocation; %s, called after that publish had returned, came back while the invocation was still running (store closed meanwhile: %v)", map[bool]string{true: "synchronous", false: "asynchronous"}[syncFirst], what, closesEarly != 0), nil)
		}
	}
}
