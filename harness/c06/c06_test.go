//go:build verif

// C06 — Wait and Shutdown return only after all asynchronous work has finished.
package c06

import (
	"context"
	"errors"
	"fmt"
	"reflect"
	"runtime"
	"sync"
	"sync/atomic"
	"testing"
	"testing/synctest"
	"time"

	ebu "github.com/jilio/ebu"

	"verif/harness/internal/conc"
	"verif/harness/internal/evt"
	"verif/harness/internal/vk"
	"verif/harness/internal/watchdog"
)

// TestC06Wait: publishers publish to async handlers whose bodies yield / sleep / publish further
// async work (depth <= 3) and call Wait at PRNG-chosen points; the closure rule is evaluated on
// the recorded history at every Wait return stamp.
func TestC06Wait(t *testing.T) {
	run := vk.New("C06", "wait")
	defer run.Finish()
	all := evt.Drivers()
	n := run.Scale(600, 15000)
	procs := []int{1, 2, 4, 16}
	defer runtime.GOMAXPROCS(runtime.GOMAXPROCS(0))
	dog := hangDog(run, "wait")
	defer dog.Stop()
	for i := 0; i < n; i++ {
		rng := run.Rand(uint64(i))
		dog.Tick()
		dog.Case(fmt.Sprintf("round %d", i))
		runtime.GOMAXPROCS(procs[i%len(procs)])
		nT := 1 + rng.IntN(3)
		drivers := conc.SameShardTypes(all, nT, rng.Uint64())
		if i%2 == 1 {
			// types routed to different shards (in-flight accounting must be bus-wide)
			drivers = nil
			for _, j := range rng.Perm(len(all))[:nT] {
				drivers = append(drivers, all[j])
			}
		}
		var opts []ebu.Option
		if i%3 == 2 {
			// a persistent bus with a persistence timeout: the timeout must not leak into dispatch
			opts = append(opts, ebu.WithStore(ebu.NewMemoryStore()), ebu.WithPersistenceTimeout(time.Hour))
		}
		// every fifth round: some async invocations panic and the bus's panic handler does follow-up
		// work (a dead-letter publish to async handlers); the invocation, its panic handling and
		// what that published are all work that Wait has to cover
		panicky := i%5 == 4
		var wp *conc.World
		phT := rng.IntN(nT)
		depthOfP := &sync.Map{}
		if panicky {
			opts = append(opts, ebu.WithPanicHandler(func(ev any, _ reflect.Type, _ any) {
				w := wp
				var eid uint64
				for _, d := range w.Drivers {
					if id, ok := d.IDOf(ev); ok {
						eid = id
						break
					}
				}
				w.Rec(conc.Ev{G: -1, K: "ph.enter", EID: eid})
				w.Noise()
				id := w.NextEID()
				depthOfP.Store(id, 99) // the dead letter's handlers neither nest nor panic
				w.PublishNested(-2, phT, nil, id, 0, eid)
				w.Noise()
				w.Rec(conc.Ev{G: -1, K: "ph.exit", EID: eid})
			}))
		}
		w := conc.NewWorld(drivers, rng.Uint64(), true, opts...)
		wp = w
		w.NoisePct = 40 + rng.IntN(50)
		maxDepth := rng.IntN(4)
		// static registry: async handlers (some sequential, some filtered), a few sync ones
		depthOf := depthOfP // eid -> depth
		dead := &sync.Map{} // eid -> published with an already cancelled context
		var slow atomic.Int32
		pc, cc := map[int]int{}, map[int]int{}
		nH := 1 + rng.IntN(4)
		for k := 0; k < nH; k++ {
			tt := rng.IntN(nT)
			r := &conc.Reg{T: tt, Class: pc[tt], Async: rng.IntN(5) != 0, Seq: rng.IntN(4) == 0, Filter: rng.IntN(5) == 0}
			pc[tt]++
			if rng.IntN(3) == 0 && cc[tt] < 6 {
				// a context-aware handler: what it publishes, it publishes with the context it was given
				r.Ctx, r.Class = true, cc[tt]
				cc[tt]++
				pc[tt]--
			}
			nest := rng.IntN(2) == 0
			nestT := rng.IntN(nT)
			sleepy := rng.IntN(3) == 0
			r.Body = func(w *conc.World, r *conc.Reg, hctx context.Context, eid uint64) {
				d := 0
				if v, ok := depthOf.Load(eid); ok {
					d = v.(int)
				}
				if sleepy && slow.Add(1)%3 == 0 {
					time.Sleep(time.Duration(20+eid%80) * time.Microsecond)
				}
				if nest && d < maxDepth && r.Async {
					id := w.NextEID()
					depthOf.Store(id, d+1)
					w.PublishNested(-2, nestT, hctx, id, r.ID, eid) // (hctx is nil for plain handlers: Publish)
				}
				w.Noise()
				if panicky && r.Async && d == 0 && eid%3 == 1 {
					w.Rec(conc.Ev{G: -1, K: "h.panic", Reg: r.ID, T: r.T, EID: eid})
					w.Rec(conc.Ev{G: -1, K: "h.exit", Reg: r.ID, T: r.T, EID: eid})
					r.EndBody()
					panic(fmt.Sprintf("c06: handler #%d panics on event %d", r.ID, eid))
				}
			}
			w.Subscribe(90, r)
		}
		deadCtx, deadCancel := context.WithCancel(context.Background())
		deadCancel()
		P := 1
		if run.Thorough() || i%3 == 0 {
			P = 1 + rng.IntN(3)
		}
		var wg sync.WaitGroup
		start := make(chan struct{})
		for g := 0; g < P; g++ {
			plan := make([]int, 2+rng.IntN(8)) // 0 = publish, 1 = Wait, 2 = Shutdown(unbounded context, no store), 3 = publish with an already cancelled context
			for k := range plan {
				if rng.IntN(4) == 0 {
					plan[k] = 1 + rng.IntN(2)
				} else if i%4 >= 2 && rng.IntN(5) == 0 {
					plan[k] = 3 // owes nothing; must not disturb the deliveries of the live publishes around it
				}
			}
			if i%4 == 1 {
				// synchronous Once handlers keep being subscribed in front of the async ones: each is taken
				// out of the registry by the next publish while other publishes are part-way through
				for k := range plan {
					if plan[k] == 0 && rng.IntN(3) == 0 {
						plan[k] = 5
					}
				}
			}
			if i%6 == 5 && g == 0 {
				// the registry is cleared while deliveries are still queued / running: what was owed to
				// publishes that had returned before the Clear began is still owed
				plan = append(plan, 4)
			}
			plan = append(plan, 1)
			ctxPub := rng.IntN(2) == 0
			wg.Add(1)
			go func(g int) {
				defer wg.Done()
				<-start
				for _, x := range plan {
					if x == 1 {
						w.Wait(g)
						continue
					}
					if x == 2 {
						if err := w.Shutdown(g); err != nil {
							w.Rec(conc.Ev{G: g, K: "shutdown.err"})
						}
						continue
					}
					tt := int(w.NextEID()) % nT
					if x == 5 {
						w.Subscribe(g, &conc.Reg{T: tt, Class: 11, Once: true})
						w.Publish(g, tt, nil)
						continue
					}
					if x == 4 {
						for c := 0; c < nT; c++ {
							w.Clear(g, c)
						}
						continue
					}
					if x == 3 {
						id := w.NextEID()
						dead.Store(id, true)
						w.PublishID(g, tt, deadCtx, id)
						continue
					}
					if ctxPub {
						w.Publish(g, tt, context.Background())
					} else {
						w.Publish(g, tt, nil)
					}
				}
			}(g)
		}
		close(start)
		wg.Wait()
		w.Bus.Wait()
		// ---- closure oracle
		sig, nontriv := checkWait(run, w, i, procs[i%len(procs)], dead)
		run.Case(fmt.Sprintf("p%d d%d P%d %s", procs[i%len(procs)], maxDepth, P, sig), nontriv)
		run.Count("history_events", int64(len(w.Log)))
		if i < 1 && run.Shard == 0 {
			run.Sample(map[string]any{"publishers": P, "handlers": nH, "max_nesting": maxDepth, "history_len": len(w.Log)})
		}
	}
}

// hangDog: a Wait / Shutdown / publish that never returns is a deadlock only by the dump rule.
func hangDog(run *vk.Run, part string) *watchdog.Dog {
	var d *watchdog.Dog
	d = watchdog.Start(20*time.Second, func(v watchdog.Verdict) {
		if !v.Deadlock {
			run.Count("watchdog_slow_windows", 1)
			return
		}
		run.Violation(part+":hang", "publishers / Wait / Shutdown stopped making progress with goroutines parked below ebu frames ("+v.Case+")", map[string]any{"case": v.Case, "dump": v.Dump[:min(len(v.Dump), 20000)]})
		run.Finish()
		watchdog.Exit()
	})
	return d
}

func checkWait(run *vk.Run, w *conc.World, caseNo, procs int, dead *sync.Map) (string, bool) {
	h := conc.Index(w.Log)
	// owed async deliveries per publish (static registry, live contexts)
	children := map[uint64][]uint64{} // handled event -> events published by its handlers
	for _, e := range w.Log {
		if e.K == "pub" && e.Par != 0 {
			children[e.Par] = append(children[e.Par], e.EID)
		}
	}
	panics := map[uint64]int{}      // event -> async invocations that panicked
	phExit := map[uint64][]uint64{} // event -> stamps at which a panic-handler run for it finished
	for _, e := range w.Log {
		switch e.K {
		case "h.panic":
			panics[e.EID]++
		case "ph.exit":
			phExit[e.EID] = append(phExit[e.EID], e.St)
		}
	}
	firstClear := map[int]uint64{} // type -> call stamp of the first Clear of it
	for _, e := range w.Log {
		if e.K == "clear" {
			if c, seen := firstClear[e.T]; !seen || e.Call < c {
				firstClear[e.T] = e.Call
			}
		}
	}
	owed := func(eid uint64) (l [][2]uint64) {
		if _, isDead := dead.Load(eid); isDead {
			return nil
		}
		p := h.Pubs[eid]
		if c, cleared := firstClear[p.T]; cleared && !(p.Ret < c) {
			return nil // published while / after its type was being cleared: nothing is owed for certain
		}
		for _, r := range w.Regs {
			if r.T == p.T && r.Async && (!r.Filter || eid%2 == 0) {
				l = append(l, [2]uint64{uint64(r.ID), eid})
			}
		}
		return
	}
	// exactly once
	for eid := range h.Pubs {
		for _, k := range owed(eid) {
			if c := h.Deliv[k]; c != 1 {
				run.Violation("wait:async-not-exactly-once", fmt.Sprintf("async registration #%d ran %d times for event %d (live context)", k[0], c, eid), map[string]any{"case": caseNo, "history": w.Log})
				return "viol", true
			}
		}
	}
	notStarted, running := 0, 0
	nontriv := false
	for _, wt := range w.Log {
		if wt.K != "wait" {
			continue
		}
		// closure of publishes that returned before this Wait was called
		var stack []uint64
		seen := map[uint64]bool{}
		for eid, p := range h.Pubs {
			if p.G >= 0 && p.Ret < wt.Call {
				stack = append(stack, eid)
			}
		}
		for len(stack) > 0 {
			eid := stack[len(stack)-1]
			stack = stack[:len(stack)-1]
			if seen[eid] {
				continue
			}
			seen[eid] = true
			for _, k := range owed(eid) {
				ex := h.Exit[k]
				en := h.Enter[k]
				if len(en) == 0 || en[0] > wt.Call {
					notStarted++
					nontriv = true
				} else if len(ex) == 0 || ex[0] > wt.Call {
					running++
				}
				if len(ex) == 0 || ex[0] > wt.St {
					run.Violation("wait:returned-early", fmt.Sprintf("Wait (called at %d, returned at %d) returned before async registration #%d had finished event %d, which is owed to a publish that returned before Wait was called (directly or through a handler's own publish)", wt.Call, wt.St, k[0], eid),
						map[string]any{"case": caseNo, "gomaxprocs": procs, "history": w.Log})
					return "viol", true
				}
			}
			// the panic handling of an owed invocation is part of that invocation
			if np := panics[eid]; np > 0 {
				done := 0
				for _, st := range phExit[eid] {
					if st <= wt.St {
						done++
					}
				}
				if done < np {
					run.Violation("wait:returned-before-panic-handler-finished", fmt.Sprintf("Wait (called at %d, returned at %d) returned while the panic handler of an async invocation for event %d (publish returned before the Wait call) had not finished: %d of %d panic-handler runs complete", wt.Call, wt.St, eid, done, np),
						map[string]any{"case": caseNo, "gomaxprocs": procs, "history": w.Log})
					return "viol", true
				}
			}
			// only children published by async handlers owed above count; sync handlers' publishes
			// returned before their parent publish returned, so they are owed as well
			stack = append(stack, children[eid]...)
		}
	}
	run.Count("owed_invocations_not_started_at_wait", int64(notStarted))
	run.Count("owed_invocations_running_at_wait", int64(running))
	return fmt.Sprintf("ns%d run%d", min(notStarted, 5), min(running, 5)), nontriv
}

// ---------------------------------------------------------------------------------------------
// Shutdown under virtual time

type closeStore struct {
	*ebu.MemoryStore
	closes   atomic.Int32
	closedAt atomic.Int64
	err      error
	delay    time.Duration // (virtual) time Close takes
}

func (s *closeStore) Close() error {
	s.closes.Add(1)
	s.closedAt.Store(time.Now().UnixNano())
	if s.delay > 0 {
		time.Sleep(s.delay)
	}
	return s.err
}

type noCloseStore struct{ inner *ebu.MemoryStore }

func (s *noCloseStore) Append(ctx context.Context, e *ebu.Event) (ebu.Offset, error) {
	return s.inner.Append(ctx, e)
}
func (s *noCloseStore) Read(ctx context.Context, from ebu.Offset, limit int) ([]*ebu.StoredEvent, ebu.Offset, error) {
	return s.inner.Read(ctx, from, limit)
}

type sdEvent struct{ N int }

func TestC06Shutdown(t *testing.T) {
	run := vk.New("C06", "shutdown")
	defer run.Finish()
	if run.Shard == 0 {
		savedHandlerContext(run)
	}
	durs := []time.Duration{0, 10 * time.Millisecond, 100 * time.Millisecond, time.Hour}                     // (virtual time: an hour-long handler costs nothing)
	deadlines := []time.Duration{-1, 0, 5 * time.Millisecond, 50 * time.Millisecond, 500 * time.Millisecond} // -1: no deadline, 0: cancelled before the call
	stores := []string{"none", "close-ok", "close-err", "no-closer", "close-slow"}
	idx := 0
	for _, d1 := range durs {
		for _, d2 := range durs {
			for _, nested := range []bool{false, true} {
				for _, dl := range deadlines {
					for _, st := range stores {
						for _, cancelKind := range []string{"deadline", "cancel", "own-context-type", "timeout-with-cause"} {
							if dl < 0 && cancelKind != "deadline" || dl == 0 && (cancelKind == "cancel" || cancelKind == "timeout-with-cause") {
								continue
							}
							idx++
							if !run.Mine(idx) {
								continue
							}
							sig := fmt.Sprintf("d1=%v d2=%v nested=%v deadline=%v store=%s %s", d1, d2, nested, dl, st, cancelKind)
							scenario(t, run, sig, d1, d2, nested, dl, st, cancelKind)
						}
					}
				}
			}
		}
	}
	run.Count("grid_size", int64(idx))
	run.Exhaustive(true)
}

func scenario(t *testing.T, run *vk.Run, sig string, d1, d2 time.Duration, nested bool, dl time.Duration, st, cancelKind string) {
	synctest.Test(t, func(t *testing.T) {
		var cs *closeStore
		var opts []ebu.Option
		var closeDelay time.Duration
		switch st {
		case "close-ok":
			cs = &closeStore{MemoryStore: ebu.NewMemoryStore()}
			opts = append(opts, ebu.WithStore(cs))
		case "close-err":
			cs = &closeStore{MemoryStore: ebu.NewMemoryStore(), err: errors.New("verif: close failed")}
			opts = append(opts, ebu.WithStore(cs))
		case "no-closer":
			opts = append(opts, ebu.WithStore(&noCloseStore{inner: ebu.NewMemoryStore()}))
		case "close-slow":
			// a store whose Close takes a while (it flushes): once Shutdown has begun closing it, the
			// caller's context no longer matters
			closeDelay = 100 * time.Millisecond
			cs = &closeStore{MemoryStore: ebu.NewMemoryStore(), delay: closeDelay}
			opts = append(opts, ebu.WithStore(cs))
		}
		bus := ebu.New(opts...)
		t0 := time.Now()
		var lastExit atomic.Int64
		var running atomic.Int32
		work := func(d time.Duration) {
			running.Add(1)
			time.Sleep(d)
			lastExit.Store(time.Now().UnixNano())
			running.Add(-1)
		}
		type inner struct{ N int }
		ebu.Subscribe(bus, func(e sdEvent) {
			work(d1)
			if nested {
				ebu.Publish(bus, inner{e.N})
			}
		}, ebu.Async())
		ebu.Subscribe(bus, func(e sdEvent) { work(d2) }, ebu.Async(), ebu.Sequential())
		ebu.Subscribe(bus, func(e inner) { work(d2) }, ebu.Async())
		ebu.Publish(bus, sdEvent{1})
		// total duration of the asynchronous work
		total := max(d1, d2)
		if nested {
			total = max(total, d1+d2)
		}
		ctx := context.Background()
		var cancel context.CancelFunc = func() {}
		switch {
		case dl >= 0 && cancelKind == "own-context-type":
			// the caller's own Context implementation around a context that stays live
			oc := &ownCtx{Context: context.Background(), done: make(chan struct{})}
			ctx = oc
			if dl == 0 {
				oc.fire()
			} else {
				go func() { time.Sleep(dl); oc.fire() }()
			}
		case dl == 0:
			ctx, cancel = context.WithCancel(ctx)
			cancel()
		case dl > 0 && cancelKind == "timeout-with-cause":
			ctx, cancel = context.WithTimeoutCause(ctx, dl, errors.New("verif: the caller's own cause"))
		case dl > 0 && cancelKind == "deadline":
			ctx, cancel = context.WithTimeout(ctx, dl)
		case dl > 0:
			ctx, cancel = context.WithCancel(ctx)
			go func() { time.Sleep(dl); cancel() }()
		}
		defer cancel()
		err := bus.Shutdown(ctx)
		elapsed := time.Since(t0)
		ctxFirst := dl >= 0 && dl < total
		workFirst := dl < 0 || dl > total
		witness := map[string]any{"scenario": sig, "shutdown_err": fmt.Sprint(err), "virtual_elapsed": elapsed.String(), "work_total": total.String()}
		nontrivial := dl > 0
		switch {
		case ctxFirst && dl > 0 || (dl == 0 && total > 0):
			if err == nil || !(errors.Is(err, context.Canceled) || errors.Is(err, context.DeadlineExceeded)) || !errors.Is(err, ctx.Err()) {
				run.Violation("shutdown:nil-before-work-done", "Shutdown returned "+fmt.Sprint(err)+" although the context ended (Err() = "+fmt.Sprint(ctx.Err())+") before the asynchronous work ("+sig+")", witness)
			}
			if running.Load() == 0 && err == nil {
				// covered above
			}
			if cs != nil && cs.closes.Load() != 0 {
				run.Violation("shutdown:closed-on-ctx-error", "Shutdown returned the context's error but the store was closed ("+sig+")", witness)
			}
			// let the remaining work finish: the store must stay open
			time.Sleep(total + time.Second)
			synctest.Wait()
			if cs != nil && cs.closes.Load() != 0 {
				run.Violation("shutdown:closed-later-after-ctx-error", "Shutdown returned the context's error, yet the store was closed afterwards behind the caller's back ("+sig+")", witness)
			}
			// a second, unbounded Shutdown succeeds and closes exactly once
			err2 := bus.Shutdown(context.Background())
			if cs != nil && cs.closes.Load() != 1 {
				run.Violation("shutdown:second-close-count", fmt.Sprintf("after a timed-out Shutdown and a successful one Close was called %d times (%s), err=%v", cs.closes.Load(), sig, err2), witness)
			}
		case workFirst:
			if running.Load() != 0 {
				run.Violation("shutdown:returned-with-work-running", "Shutdown returned while an async handler was still running ("+sig+")", witness)
			}
			if elapsed != total+closeDelay {
				run.Violation("shutdown:return-time", fmt.Sprintf("Shutdown returned at virtual t=%v, the asynchronous work ends at %v and closing the store takes %v (%s)", elapsed, total, closeDelay, sig), witness)
			}
			if st == "close-err" {
				if err == nil || !errors.Is(err, cs.err) {
					run.Violation("shutdown:close-error-lost", "Shutdown returned "+fmt.Sprint(err)+" although Close failed ("+sig+")", witness)
				}
			} else if err != nil {
				run.Violation("shutdown:error-after-work-done", "Shutdown returned "+fmt.Sprint(err)+" although all work finished before the context ended ("+sig+")", witness)
			}
			if cs != nil {
				if cs.closes.Load() != 1 {
					run.Violation("shutdown:close-count", fmt.Sprintf("Close called %d times on a successful Shutdown (%s)", cs.closes.Load(), sig), witness)
				} else if cs.closedAt.Load() < lastExit.Load() {
					run.Violation("shutdown:closed-before-last-exit", "the store was closed before the last async handler had finished ("+sig+")", witness)
				}
			}
		default:
			// dl == total (both ready at the same virtual instant) or dl == 0 with no work: either outcome is legal
			nontrivial = false
			if err == nil && cs != nil && cs.closes.Load() != 1 {
				run.Violation("shutdown:close-count", fmt.Sprintf("Close called %d times on a successful Shutdown (%s)", cs.closes.Load(), sig), witness)
			}
			if err != nil && st != "close-err" && cs != nil && cs.closes.Load() != 0 {
				run.Violation("shutdown:closed-on-ctx-error", "Shutdown returned the context's error but the store was closed ("+sig+")", witness)
			}
		}
		time.Sleep(2 * time.Second)
		synctest.Wait()
		// the bus is idle again: new asynchronous work, then another Shutdown, which must wait for it
		closesBefore := int32(0)
		if cs != nil {
			closesBefore = cs.closes.Load()
		}
		t1 := time.Now()
		ebu.Publish(bus, sdEvent{2})
		err3 := bus.Shutdown(context.Background())
		if running.Load() != 0 || time.Since(t1) != total+closeDelay {
			run.Violation("shutdown:again-returned-with-work-running", fmt.Sprintf("a later Shutdown (after the bus had been idle) returned %v at virtual t=%v with %d handlers still running; the new asynchronous work ends at %v (%s)", err3, time.Since(t1), running.Load(), total, sig), witness)
		}
		if cs != nil && cs.closes.Load() != closesBefore+1 {
			run.Violation("shutdown:again-close-count", fmt.Sprintf("a later successful Shutdown called Close %d times (%s)", cs.closes.Load()-closesBefore, sig), witness)
		}
		time.Sleep(2 * time.Second)
		synctest.Wait()
		run.Case(sig, nontrivial)
		if run.WantSample() && d1 > 0 && dl > 0 {
			run.Sample(witness)
		}
	})
}

var _ = evt.NumPlain

// ownCtx is a caller-defined Context: it wraps a context that stays live and ends on its own terms.
type ownCtx struct {
	context.Context
	mu   sync.Mutex
	done chan struct{}
	err  error
}

func (c *ownCtx) Done() <-chan struct{} { return c.done }
func (c *ownCtx) Err() error {
	c.mu.Lock()
	defer c.mu.Unlock()
	return c.err
}
func (c *ownCtx) fire() {
	c.mu.Lock()
	if c.err == nil {
		c.err = context.Canceled
		close(c.done)
	}
	c.mu.Unlock()
}

// TestC06WaitStorm: several goroutines loop on Wait while a publisher alternates a quick and a slow
// asynchronous publish and waits: the count of in-flight handlers crosses zero again and again
// under contention, and every Wait return is judged by the closure rule.
func TestC06WaitStorm(t *testing.T) {
	run := vk.New("C06", "wait-storm")
	defer run.Finish()
	all := evt.Drivers()
	n := run.Scale(150, 1500)
	procs := []int{4, 16, 2, 8}
	defer runtime.GOMAXPROCS(runtime.GOMAXPROCS(0))
	dog := hangDog(run, "wait-storm")
	defer dog.Stop()
	for i := 0; i < n; i++ {
		rng := run.Rand(uint64(i))
		dog.Tick()
		dog.Case(fmt.Sprintf("round %d", i))
		runtime.GOMAXPROCS(procs[i%len(procs)])
		var drivers []evt.Driver
		for _, j := range rng.Perm(len(all))[:2] {
			drivers = append(drivers, all[j])
		}
		w := conc.NewWorld(drivers, rng.Uint64(), true)
		w.NoisePct = 0
		var ticks atomic.Int64
		w.Subscribe(90, &conc.Reg{T: 0, Class: 0, Async: true, Body: func(*conc.World, *conc.Reg, context.Context, uint64) { ticks.Add(1) }})
		slowFor := time.Duration(50+rng.IntN(300)) * time.Microsecond
		w.Subscribe(90, &conc.Reg{T: 1, Class: 0, Async: true, Body: func(*conc.World, *conc.Reg, context.Context, uint64) { time.Sleep(slowFor) }})
		stop := make(chan struct{})
		var wg sync.WaitGroup
		for g := 1; g <= 3+rng.IntN(4); g++ {
			wg.Add(1)
			go func(g int) {
				defer wg.Done()
				for k := 0; k < 120; k++ {
					select {
					case <-stop:
						return
					default:
						w.Wait(g)
						runtime.Gosched()
					}
				}
			}(g)
		}
		rounds := 15 + rng.IntN(25)
		sink := 0
		for r := 0; r < rounds; r++ {
			// the quick handler's body has run: its goroutine is about to report itself finished, i.e.
			// the bus is about to become idle; sweep the offset of the next publish around that point
			before := ticks.Load()
			w.Publish(0, 0, nil)
			for ticks.Load() == before {
				runtime.Gosched()
			}
			for k := 0; k < (r%40)*4; k++ {
				sink += k
			}
			w.Publish(0, 1, nil)
			w.Wait(0)
		}
		_ = sink
		close(stop)
		wg.Wait()
		w.Bus.Wait()
		sig, nontriv := checkWait(run, w, i, procs[i%len(procs)], &sync.Map{})
		run.Case(fmt.Sprintf("storm p%d r%d %s", procs[i%len(procs)], rounds/20, sig), nontriv)
		run.Count("history_events", int64(len(w.Log)))
		if i == 0 {
			run.Sample(map[string]any{"rounds": rounds, "history_len": len(w.Log)})
		}
	}
}
