//go:build verif

// C04 — A Once handler fires at most once, and exactly once when eligible.
package c04

import (
	"context"
	"fmt"
	ebu "github.com/jilio/ebu"
	"reflect"
	"runtime"
	"sync"
	"sync/atomic"
	"testing"

	"verif/harness/internal/conc"
	"verif/harness/internal/evt"
	"verif/harness/internal/prog"
	"verif/harness/internal/vk"
)

// TestC04Sequences: every ordering of {eligible, filter-rejected, pre-cancelled (cancel / deadline),
// cancelled-by-an-earlier-handler} publishes up to length 5, x {sync, async} x {filter, none} x
// {Handler, ContextHandler}, in lockstep with the registry model (HandlerCount after every publish).
func TestC04Sequences(t *testing.T) {
	run := vk.New("C04", "sequences")
	defer run.Finish()
	h := prog.NewHarness(run, "once")
	defer h.Dog.Stop()
	after := func(eng *prog.Engine) { h.CountStats(eng) }
	if p := prog.ReplayProgram(); p != nil {
		h.Exec(0, p, nil, after)
		return
	}
	if run.Shard == 0 {
		onceDuringShutdown(run)
	}
	kinds := []string{"E", "R", "P", "D", "H"} // eligible, rejected, pre-cancelled, pre-expired deadline, cancelled by earlier handler
	idx := 0
	maxLen := run.Scale(4, 5)
	var rec func(seq []string)
	emit := func(seq []string) {
		for variant := 0; variant < 128; variant++ {
			async, filter, ctxAware, sameClass := variant&1 != 0, variant&2 != 0, variant&4 != 0, variant&8 != 0
			seqOpt, loneResub := variant&16 != 0, variant&32 != 0
			viaReplay := variant&64 != 0 // the once handler is registered through SubscribeWithReplay on a persistent bus
			if viaReplay && (ctxAware || sameClass || loneResub) {
				continue
			}
			if loneResub && (sameClass || async) {
				continue
			}
			if sameClass && ctxAware {
				continue // the earlier handler is a plain one: a shared class needs a plain once handler
			}
			hasR := false
			for _, k := range seq {
				if k == "R" {
					hasR = true
				}
			}
			if hasR && !filter {
				continue
			}
			idx++
			if !run.Mine(idx) {
				continue
			}
			p := &prog.Program{Types: []int{idx % len(h.Drivers)}}
			earlier := &prog.Reg{Class: 0}
			once := &prog.Reg{Class: 1, Once: true, Async: async, Ctx: ctxAware, Seq: seqOpt, Replay: viaReplay}
			if viaReplay {
				p.Cfg.Store, p.Cfg.StoreFirst = true, true
			}
			if loneResub {
				// the once handler is the only subscriber and subscribes a successor from inside its invocation
				once.Script = [][]prog.Op{{{K: prog.Sub, T: 0, Reg: &prog.Reg{Class: 5}}}}
			}
			if ctxAware || sameClass {
				once.Class = 0 // sameClass: closures of one func literal - same code pointer as the earlier handler
			}
			if filter {
				once.Filter = 5
			}
			for i, k := range seq {
				id := uint64(i + 1)
				switch k {
				case "R":
					once.RejectIDs = append(once.RejectIDs, id)
				case "H":
					earlier.CancelIDs = append(earlier.CancelIDs, id)
				}
			}
			hasH := false
			for _, k := range seq {
				hasH = hasH || k == "H"
			}
			if loneResub && hasH {
				continue // "cancelled by an earlier handler" needs the earlier handler
			}
			if !loneResub {
				p.Ops = append(p.Ops, prog.Op{K: prog.Sub, T: 0, Reg: earlier})
			}
			p.Ops = append(p.Ops, prog.Op{K: prog.Sub, T: 0, Reg: once}, prog.Op{K: prog.Count, T: 0})
			for i, k := range seq {
				o := prog.Op{K: prog.Pub, T: 0, UseCtx: true}
				switch k {
				case "P":
					o.PreCancelled = true
				case "D":
					o.PreCancelled, o.Deadline = true, true
				case "E":
					o.UseCtx = i%2 == 0
					o.Detached = i%4 == 2 // a live context that carries the values of a request that is over
				case "H":
					// every other one through the caller's own context type (which ends on its own
					// terms while the application context it wraps stays live)
					o.Deadline = i%2 == 1
				}
				p.Ops = append(p.Ops, o, prog.Op{K: prog.Wait}, prog.Op{K: prog.Count, T: 0}, prog.Op{K: prog.Has, T: 0})
			}
			h.Exec(idx, p, nil, after)
			nonConsumingFirst := false
			for _, k := range seq {
				if k == "E" {
					break
				}
				nonConsumingFirst = true
			}
			run.Case(fmt.Sprintf("%v|a%v f%v c%v s%v q%v l%v r%v", seq, async, filter, ctxAware, sameClass, seqOpt, loneResub, viaReplay), nonConsumingFirst && len(seq) >= 2)
			if idx == 4321 {
				run.Sample(map[string]any{"sequence": seq, "program": p})
			}
		}
	}
	rec = func(seq []string) {
		if len(seq) > 0 {
			emit(seq)
		}
		if len(seq) == maxLen {
			return
		}
		for _, k := range kinds {
			rec(append(append([]string{}, seq...), k))
		}
	}
	rec(nil)
	// two (or three) once handlers fired by one publish, the first of which has left the registry
	// before the publish retires them — it unsubscribes itself, or a plain handler of the same
	// publish unsubscribes it: every one of them ran once and none is counted afterwards
	for v := 0; v < 128; v++ {
		self, janitor, a1, a2, f2, third := v&1 != 0, v&2 != 0, v&4 != 0, v&8 != 0, v&16 != 0, v&32 != 0
		panicky := v&64 != 0 // the second once handler panics when it runs: it has fired all the same
		if self == janitor || (self && a1) {
			continue // exactly one remover; a script runs on synchronous invocations only
		}
		idx++
		if !run.Mine(idx) {
			continue
		}
		p := &prog.Program{Types: []int{idx % len(h.Drivers)}}
		once1 := &prog.Reg{Class: 1, Once: true, Async: a1}
		if self {
			once1.Script = [][]prog.Op{{{K: prog.Unsub, T: 0, Class: 1}}}
		}
		p.Ops = append(p.Ops, prog.Op{K: prog.Sub, T: 0, Reg: once1})
		if janitor {
			p.Ops = append(p.Ops, prog.Op{K: prog.Sub, T: 0, Reg: &prog.Reg{Class: 2, Script: [][]prog.Op{{{K: prog.Unsub, T: 0, Class: 1}}}}})
		}
		once2 := &prog.Reg{Class: 3, Once: true, Async: a2}
		if f2 {
			once2.Filter = 1
		}
		if panicky {
			once2.PanicKind = 1 + v%3
			p.Cfg.PanicHandler = v%2 == 0
		}
		p.Ops = append(p.Ops, prog.Op{K: prog.Sub, T: 0, Reg: once2})
		if third {
			p.Ops = append(p.Ops, prog.Op{K: prog.Sub, T: 0, Reg: &prog.Reg{Class: 4, Once: true, Ctx: true}})
		}
		p.Ops = append(p.Ops, prog.Op{K: prog.Count, T: 0})
		for k := 0; k < 2; k++ {
			p.Ops = append(p.Ops, prog.Op{K: prog.Pub, T: 0, UseCtx: k == 1}, prog.Op{K: prog.Wait}, prog.Op{K: prog.Count, T: 0}, prog.Op{K: prog.Has, T: 0})
		}
		h.Exec(idx, p, nil, after)
		run.Case(fmt.Sprintf("several-once self%v janitor%v a%v/%v f%v third%v panic%v", self, janitor, a1, a2, f2, third, panicky), true)
	}
	// re-armed one-shot listeners: after a once handler has fired, the next one is subscribed with
	// nothing else happening in between (same function or another one; alone or next to permanent
	// subscribers); every one of them fires exactly once
	for v := 0; v < 64; v++ {
		perm, sameFn, async, ctxAware, filter := v&3, v&4 != 0, v&8 != 0, v&16 != 0, v&32 != 0
		if perm == 3 {
			continue
		}
		idx++
		if !run.Mine(idx) {
			continue
		}
		p := &prog.Program{Types: []int{idx % len(h.Drivers)}}
		for j := 0; j < perm; j++ {
			p.Ops = append(p.Ops, prog.Op{K: prog.Sub, T: 0, Reg: &prog.Reg{Class: 8 + j}})
		}
		for round := 0; round < 4; round++ {
			once := &prog.Reg{Class: 1 + round, Once: true, Async: async, Ctx: ctxAware}
			if sameFn {
				once.Class = 1
			}
			if filter {
				once.Filter = 4
			}
			p.Ops = append(p.Ops, prog.Op{K: prog.Sub, T: 0, Reg: once}, prog.Op{K: prog.Count, T: 0})
			for k := 0; k < 2; k++ { // two publishes (ids differ in what an id-dependent filter makes of them)
				p.Ops = append(p.Ops, prog.Op{K: prog.Pub, T: 0, UseCtx: k == 1}, prog.Op{K: prog.Wait}, prog.Op{K: prog.Count, T: 0}, prog.Op{K: prog.Has, T: 0})
			}
		}
		h.Exec(idx, p, nil, after)
		run.Case(fmt.Sprintf("re-armed perm%d same%v a%v c%v f%v", perm, sameFn, async, ctxAware, filter), true)
	}
	// wide registries: more handlers of one type than any small internal capacity; once handlers at
	// the far end of the list (and everywhere): each fires once and none is counted afterwards
	for wi, n := range []int{64, 65, 70, 100, 129, 260} {
		for _, shape := range []string{"all-once", "regular-then-once", "mixed"} {
			idx++
			if !run.Mine(idx) {
				continue
			}
			p := &prog.Program{Types: []int{(idx + wi) % len(h.Drivers)}}
			for j := 0; j < n; j++ {
				reg := &prog.Reg{Class: j % 12}
				switch shape {
				case "all-once":
					reg.Once = true
				case "regular-then-once":
					reg.Once = j == n-1
				default:
					reg.Once, reg.Async, reg.Ctx = j%2 == 1, j%5 == 0, j%7 == 0
					if reg.Ctx {
						reg.Class = j % 6
					}
				}
				p.Ops = append(p.Ops, prog.Op{K: prog.Sub, T: 0, Reg: reg})
			}
			for k := 0; k < 2; k++ {
				p.Ops = append(p.Ops, prog.Op{K: prog.Pub, T: 0, UseCtx: k == 1}, prog.Op{K: prog.Wait}, prog.Op{K: prog.Count, T: 0}, prog.Op{K: prog.Has, T: 0})
			}
			h.Exec(idx, p, nil, after)
			run.Case(fmt.Sprintf("wide n%d %s", n, shape), true)
		}
	}
	// one option value (or one slice of options) given to several Subscribe calls: the subscriptions
	// are still separate ones - each Once handler fires exactly once and is then gone
	type soA struct{ ID int }
	type soB struct{ ID int }
	for v := 0; v < 16; v++ {
		idx++
		if !run.Mine(idx) {
			continue
		}
		async, seq, filter, twoTypes := v&1 != 0, v&2 != 0, v&4 != 0, v&8 != 0
		shared := []ebu.SubscribeOption{ebu.Once()}
		if async {
			shared = append(shared, ebu.Async())
		}
		if seq {
			shared = append(shared, ebu.Sequential())
		}
		if filter {
			shared = append(shared, ebu.WithFilter(func(e soA) bool { return e.ID > 0 }))
		}
		bus := ebu.New()
		var c1, c2, c3 atomic.Int32
		ebu.Subscribe(bus, func(soA) { c1.Add(1) }, shared...)
		ebu.Subscribe(bus, func(soA) { c2.Add(1) }, shared...)
		if twoTypes {
			ebu.Subscribe(bus, func(soB) { c3.Add(1) }, shared...)
		}
		ebu.Publish(bus, soA{ID: 0}) // rejected by the filter, when there is one
		ebu.Publish(bus, soA{ID: 1})
		ebu.Publish(bus, soB{ID: 1})
		ebu.Publish(bus, soA{ID: 2})
		bus.Wait()
		want1 := int32(1)
		want3 := int32(0)
		if twoTypes {
			want3 = 1
		}
		sigv := fmt.Sprintf("shared-options async%v seq%v filter%v twoTypes%v", async, seq, filter, twoTypes)
		if c1.Load() != want1 || c2.Load() != want1 || c3.Load() != want3 || ebu.HandlerCount[soA](bus) != 0 || ebu.HandlerCount[soB](bus) != 0 {
			run.Violation("once:shared-option-values", fmt.Sprintf("%s: two (three) Once handlers subscribed with the same option values were invoked %d / %d / %d times (want %d / %d / %d) and HandlerCount is %d + %d afterwards (want 0)", sigv, c1.Load(), c2.Load(), c3.Load(), want1, want1, want3, ebu.HandlerCount[soA](bus), ebu.HandlerCount[soB](bus)), map[string]any{"variant": sigv})
		}
		run.Case(sigv, true)
	}
	// an after-publish hook that panics (the publisher recovers and carries on): the once handler that
	// fired in that publish has fired - it is not counted afterwards and never runs again
	type ohEv struct{ ID int }
	for v := 0; v < 8; v++ {
		idx++
		if !run.Mine(idx) {
			continue
		}
		ctxHook, async, twice := v&1 != 0, v&2 != 0, v&4 != 0
		boom := func() { panic("c04: after-publish hook panics") }
		var opts []ebu.Option
		if ctxHook {
			opts = append(opts, ebu.WithAfterPublishContext(func(context.Context, reflect.Type, any) { boom() }))
		} else {
			opts = append(opts, ebu.WithAfterPublish(func(reflect.Type, any) { boom() }))
		}
		bus := ebu.New(opts...)
		var calls atomic.Int32
		so := []ebu.SubscribeOption{ebu.Once()}
		if async {
			so = append(so, ebu.Async())
		}
		ebu.Subscribe(bus, func(ohEv) { calls.Add(1) }, so...)
		if twice {
			ebu.Subscribe(bus, func(ohEv) { calls.Add(1) }, ebu.Once())
		}
		pub := func(id int) {
			defer func() { recover() }()
			ebu.Publish(bus, ohEv{ID: id})
		}
		pub(1)
		bus.Wait()
		n1 := ebu.HandlerCount[ohEv](bus)
		pub(2)
		bus.Wait()
		want := int32(1)
		if twice {
			want = 2
		}
		sigv := fmt.Sprintf("after-hook-panics ctx%v async%v twice%v", ctxHook, async, twice)
		if calls.Load() != want || n1 != 0 || ebu.HasHandlers[ohEv](bus) {
			run.Violation("once:counted-after-hook-panic", fmt.Sprintf("%s: after a publish whose after-publish hook panicked, the once handlers that fired in it are counted as %d subscribers (want 0); after a second publish they have run %d times in total (want %d)", sigv, n1, calls.Load(), want), map[string]any{"variant": sigv})
		}
		run.Case(sigv, true)
	}
	run.Count("enumerated_sequences_x_variants", int64(idx))
	run.Exhaustive(true)
}

// TestC04Concurrent: N publishers x K once handlers. Phase 1: only rejected / cancelled publishes
// (expect zero calls, still counted). Phase 2: eligible publishes released by a barrier together
// with further rejected / cancelled ones, noise at filter and body (expect exactly one call each,
// count drops to the non-once remainder).
func TestC04Concurrent(t *testing.T) {
	run := vk.New("C04", "concurrent")
	defer run.Finish()
	all := evt.Drivers()
	n := run.Scale(400, 30000)
	procs := []int{1, 2, 4, 16}
	defer runtime.GOMAXPROCS(runtime.GOMAXPROCS(0))
	for i := 0; i < n; i++ {
		rng := run.Rand(uint64(i))
		runtime.GOMAXPROCS(procs[i%len(procs)])
		drivers := conc.SameShardTypes(all, 1, rng.Uint64())
		w := conc.NewWorld(drivers, rng.Uint64(), true)
		w.NoisePct = 30 + rng.IntN(50)
		K := 1 + rng.IntN(4)
		N := 2 + rng.IntN(15)
		var calls [8]atomic.Int32
		regs := make([]*conc.Reg, K)
		pc, cc := 0, 0
		for k := 0; k < K; k++ {
			r := &conc.Reg{T: 0, Once: true, Async: rng.IntN(2) == 0, Filter: rng.IntN(2) == 0, Ctx: rng.IntN(3) == 0}
			if r.Ctx {
				r.Class, cc = cc, cc+1
			} else {
				r.Class, pc = pc, pc+1
			}
			kk := k
			r.Body = func(w *conc.World, r *conc.Reg, _ context.Context, _ uint64) { calls[kk].Add(1) }
			regs[k] = r
			w.Subscribe(90, r)
		}
		keeper := &conc.Reg{T: 0, Class: 11}
		w.Subscribe(90, keeper)
		cancelled := map[uint64]bool{}
		var cmu sync.Mutex
		dead, cancel := context.WithCancel(context.Background())
		cancel()
		// phase 1: non-consuming publishes from several goroutines
		phase1 := func() {
			var wg sync.WaitGroup
			for g := 0; g < 3; g++ {
				wg.Add(1)
				go func(g int) {
					defer wg.Done()
					for j := 0; j < 3; j++ {
						id := w.NextEID()
						if id%2 == 1 {
							w.PublishID(g, 0, context.Background(), id) // odd: rejected by filtered once handlers...
						} else {
							cmu.Lock()
							cancelled[id] = true
							cmu.Unlock()
							w.PublishID(g, 0, dead, id)
						}
					}
				}(g)
			}
			wg.Wait()
			w.Bus.Wait()
		}
		// ... but unfiltered once handlers are eligible for odd ids too: phase 1 uses only cancelled
		// publishes when some once handler has no filter
		allFiltered := true
		for _, r := range regs {
			if !r.Filter {
				allFiltered = false
			}
		}
		if allFiltered {
			phase1()
		} else {
			for j := 0; j < 4; j++ {
				id := w.NextEID()
				cancelled[id] = true
				w.PublishID(0, 0, dead, id)
			}
			w.Bus.Wait()
		}
		for k := range regs {
			if c := calls[k].Load(); c != 0 {
				run.Violation("once:ran-on-ineligible", fmt.Sprintf("once handler ran %d times although only filter-rejected / cancelled publishes were made", c), map[string]any{"case": i, "history": w.Log})
			}
		}
		if c := w.Count(90, 0); c != K+1 {
			run.Violation("once:consumed-by-ineligible", fmt.Sprintf("after only filter-rejected / cancelled publishes HandlerCount is %d, want %d: a once handler was used up without running", c, K+1), map[string]any{"case": i, "history": w.Log})
		}
		// phase 2
		var wg sync.WaitGroup
		start := make(chan struct{})
		for g := 0; g < N; g++ {
			wg.Add(1)
			go func(g int) {
				defer wg.Done()
				<-start
				w.Noise()
				switch g % 4 {
				case 3:
					id := w.NextEID()
					cmu.Lock()
					cancelled[id] = true
					cmu.Unlock()
					w.PublishID(g, 0, &conc.NoisyCtx{Context: dead, W: w, EID: id}, id)
				default:
					id := w.NextEID()
					for id%2 == 1 && g%4 != 2 {
						id = w.NextEID() // even: eligible for every handler
					}
					if g%2 == 0 {
						w.PublishID(g, 0, &conc.NoisyCtx{Context: context.Background(), W: w, EID: id}, id)
					} else {
						w.PublishID(g, 0, nil, id)
					}
				}
			}(g)
		}
		close(start)
		wg.Wait()
		w.Bus.Wait()
		for k := range regs {
			if c := calls[k].Load(); c != 1 {
				run.Violation("once:not-exactly-once", fmt.Sprintf("once handler #%d ran %d times under %d concurrent publishers (at least one eligible publish ran entirely within its subscription)", regs[k].ID, c, N), map[string]any{"case": i, "gomaxprocs": procs[i%len(procs)], "history": w.Log})
			}
		}
		if c := w.Count(90, 0); c != 1 {
			run.Violation("once:still-counted", fmt.Sprintf("HandlerCount is %d after every once handler fired, want 1", c), map[string]any{"case": i, "history": w.Log})
		}
		if !w.Has(90, 0) {
			run.Violation("once:keeper-lost", "the non-once handler is no longer subscribed", map[string]any{"case": i, "history": w.Log})
		}
		// the interval oracle as a second opinion (at-most-once, exactly-once-when-eligible)
		hh := conc.Index(w.Log)
		for _, f := range conc.CheckIntervals(w, hh, nil, cancelled) {
			run.Violation("once:"+f.Sig, f.Desc, map[string]any{"case": i, "history": w.Log})
		}
		// how many publishers reached a once handler's filter/body window concurrently
		_, mut := conc.OverlapSignature(w.Log)
		_ = mut
		overl := overlappingPubs(w.Log)
		run.Case(fmt.Sprintf("N%d K%d ov%d p%d", N, K, min(overl, 6), procs[i%len(procs)]), overl >= 2)
		run.Max("max_overlapping_publishers", int64(overl))
		run.Count("history_events", int64(len(w.Log)))
		if i < 1 && run.Shard == 0 {
			run.Sample(map[string]any{"publishers": N, "once_handlers": K, "history_len": len(w.Log), "max_overlapping_publishes": overl})
		}
	}
}

func overlappingPubs(log []conc.Ev) int {
	type iv struct{ c, r uint64 }
	var l []iv
	for _, e := range log {
		if e.K == "pub" {
			l = append(l, iv{e.Call, e.St})
		}
	}
	best := 0
	for i := range l {
		n := 0
		for j := range l {
			if l[j].c <= l[i].c && l[i].c <= l[j].r {
				n++
			}
		}
		if n > best {
			best = n
		}
	}
	return best
}
