//go:build verif

package c04

import (
	"context"
	"fmt"
	"sync"
	"sync/atomic"
	"time"

	ebu "github.com/jilio/ebu"

	"verif/harness/internal/vk"
)

type sdFirst struct{ N int }
type sdFollow struct{ N int }

// tellingCtx is never done; it reports the first time somebody asks for its Done channel (which
// is what a Shutdown does once it starts waiting).
type tellingCtx struct {
	context.Context
	once  sync.Once
	asked chan struct{}
}

func (c *tellingCtx) Done() <-chan struct{} {
	c.once.Do(func() { close(c.asked) })
	return nil
}

// onceDuringShutdown: while Shutdown waits for an asynchronous handler, that handler publishes a
// follow-up event whose only subscriber is an asynchronous once handler. That event is the once
// handler's first eligible event: it runs exactly once (Shutdown waits for it too), is no longer
// counted afterwards, and a second follow-up does not reach it.
func onceDuringShutdown(run *vk.Run) {
	for variant := 0; variant < 4; variant++ {
		ctxAware, filtered := variant&1 != 0, variant&2 != 0
		bus := ebu.New()
		started, goOn := make(chan struct{}), make(chan struct{})
		var ran atomic.Int32
		ebu.Subscribe(bus, func(e sdFirst) {
			close(started)
			<-goOn
			ebu.Publish(bus, sdFollow{N: 1})
			ebu.Publish(bus, sdFollow{N: 2})
		}, ebu.Async())
		opts := []ebu.SubscribeOption{ebu.Async(), ebu.Once()}
		if filtered {
			opts = append(opts, ebu.WithFilter(func(e sdFollow) bool { return e.N >= 1 }))
		}
		if ctxAware {
			ebu.SubscribeContext(bus, func(context.Context, sdFollow) { ran.Add(1) }, opts...)
		} else {
			ebu.Subscribe(bus, func(sdFollow) { ran.Add(1) }, opts...)
		}
		ebu.Publish(bus, sdFirst{N: 1})
		<-started
		tc := &tellingCtx{Context: context.Background(), asked: make(chan struct{})}
		done := make(chan error, 1)
		go func() { done <- bus.Shutdown(tc) }()
		select {
		case <-tc.asked:
		case <-time.After(5 * time.Second): // (this Shutdown never looked at its context: carry on regardless)
		}
		close(goOn)
		var err error
		select {
		case err = <-done:
		case <-time.After(60 * time.Second):
			err = fmt.Errorf("Shutdown did not return within 60 s")
		}
		bus.Wait()
		run.Case(fmt.Sprintf("once handler first reached while Shutdown waits|ctx%v|filter%v", ctxAware, filtered), true)
		if n, c := ran.Load(), ebu.HandlerCount[sdFollow](bus); n != 1 || c != 0 || err != nil {
			run.Violation("once:first-event-during-shutdown", fmt.Sprintf("an in-flight asynchronous handler published two follow-up events while Shutdown was waiting for it; their only subscriber, an asynchronous once handler (context-aware %v, filtered %v), ran %d times (want 1), HandlerCount afterwards %d (want 0), Shutdown returned %v", ctxAware, filtered, n, c, err), nil)
		}
	}
}
