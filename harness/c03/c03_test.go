//go:build verif

// C03 — Concurrent use of the API is free of data races and deadlocks.
// (a) recorder-free all-API mix under the race detector; (b) deterministic re-entrancy matrix.
package c03

import (
	"context"
	"encoding/json"
	"errors"
	"fmt"
	ebuotel "github.com/jilio/ebu/otel"
	"math/rand/v2"
	"os"
	"reflect"
	"runtime"
	"sort"
	"strings"
	"sync"
	"sync/atomic"
	"testing"
	"time"

	ebu "github.com/jilio/ebu"
	"github.com/jilio/ebu/state"

	"verif/harness/internal/conc"
	"verif/harness/internal/evt"
	"verif/harness/internal/stores"
	"verif/harness/internal/vk"
	"verif/harness/internal/watchdog"
)

type evA struct{ N int }
type evB struct{ N int }
type evC struct {
	N int
	S string
}
type entity struct {
	Name string
	N    int
}

// noise without any synchronisation of its own (runtime per-thread PRNG): monitor code must not
// add happens-before edges in race-hunting runs.
func noise() {
	switch rand.Uint32() % 12 {
	case 0, 1, 2:
		runtime.Gosched()
	case 3:
		s := 0
		for i := 0; i < 200; i++ {
			s += i
		}
		_ = s
	}
}

func hA0(evA)                  { noise() }
func hA1(evA)                  { noise() }
func hA2(context.Context, evA) { noise() }
func hB0(evB)                  { noise() }
func hB1(evB)                  {}
func hC0(evC)                  { noise() }

var upNames = []string{"c03.A", "c03.B", "c03.C", "c03.D"}

func TestC03Mix(t *testing.T) {
	run := vk.New("C03", "mix")
	defer run.Finish()
	scratch := os.Getenv("VERIF_SCRATCH")
	if scratch == "" {
		scratch = t.TempDir()
	}
	kinds := []string{"memory", "sqlite-file", "memory-paged", "sqlite-batch3", "durable", "sqlite-mem"}
	rounds := run.Scale(6, 36)
	var curCase string
	dog := watchdog.Start(45*time.Second, func(v watchdog.Verdict) {
		if v.Deadlock {
			run.Violation("mix:deadlock", "the concurrent API mix stopped making progress with goroutines parked below ebu frames", map[string]any{"case": curCase, "dump": v.Dump[:min(len(v.Dump), 30000)]})
		} else {
			run.Count("watchdog_slow_windows", 1)
			return
		}
		run.Finish()
		watchdog.Exit()
	})
	defer dog.Stop()
	for i := 0; i < rounds; i++ {
		kind := kinds[(i+run.Shard)%len(kinds)]
		rng := run.Rand(uint64(i))
		G := 4 + rng.IntN(13)
		N := run.Scale(150, 400)
		if strings.HasPrefix(kind, "sqlite") || kind == "durable" {
			N /= 3
		}
		curCase = fmt.Sprintf("round %d store %s G=%d N=%d", i, kind, G, N)
		vk.Logf("BEGIN %s", curCase)
		st, err := stores.Open(kind, scratch)
		if err != nil {
			t.Fatalf("open %s: %v", kind, err)
		}
		opts := []ebu.Option{ebu.WithStore(st.Store), ebu.WithPanicHandler(func(any, reflect.Type, any) {}),
			ebu.WithPersistenceErrorHandler(func(any, reflect.Type, error) {}), ebu.WithUpcastErrorHandler(func(string, json.RawMessage, error) {}),
			ebu.WithReplayBatchSize(1 + rng.IntN(7))}
		if st.Sub != nil {
			opts = append(opts, ebu.WithSubscriptionStore(st.Sub))
		} else {
			opts = append(opts, ebu.WithSubscriptionStore(ebu.NewMemoryStore()))
		}
		if (i/len(kinds))%2 == 1 || run.Shard%2 == 1 {
			// every other round / shard: an Observability implementation next to the store (its callbacks run on
			// the publishers' and the async handlers' goroutines)
			if (i+run.Shard)%4 < 2 {
				opts = append(opts, ebu.WithObservability(&countingObs{}))
			} else if o, err := ebuotel.New(); err == nil {
				// the bundled OpenTelemetry implementation (no-op providers): its own bookkeeping runs on
				// the publishers' and the async handlers' goroutines too
				opts = append(opts, ebu.WithObservability(o))
			}
		}
		bus := ebu.New(opts...) // setters are applied before concurrent use begins
		mat := state.NewMaterializer()
		coll := state.NewTypedCollection[entity](state.NewMemoryStore[entity]())
		state.RegisterCollection(mat, coll)
		// base registrations
		ebu.Subscribe(bus, hA0)
		ebu.Subscribe(bus, hA1, ebu.Async())
		ebu.SubscribeContext(bus, hA2, ebu.Sequential(), ebu.Async())
		ebu.Subscribe(bus, hB0, ebu.Sequential())
		ebu.Subscribe(bus, func(e evB) {
			if e.N%5 == 0 {
				ebu.Publish(bus, evC{N: e.N}) // re-entrant publish of another type
			}
			if e.N%7 == 0 {
				panic("c03 handler panic")
			}
		})
		ebu.Subscribe(bus, hC0, ebu.WithFilter(func(e evC) bool { noise(); return e.N%2 == 0 }))
		opCounts := make([]map[string]int, G)
		var wg sync.WaitGroup
		start := make(chan struct{})
		ctx := context.Background()
		deadCtx, deadCancel := context.WithCancel(ctx)
		deadCancel()
		for g := 0; g < G; g++ {
			opCounts[g] = map[string]int{}
			seed := rng.Uint64()
			wg.Add(1)
			go func(g int) {
				defer wg.Done()
				r := rand.New(rand.NewPCG(seed, uint64(g)))
				cnt := opCounts[g]
				<-start
				for k := 0; k < N; k++ {
					op := r.IntN(40)
					name := ""
					switch op {
					case 0, 1, 2:
						name = "Publish"
						ebu.Publish(bus, evA{N: k})
					case 3:
						name = "PublishContext(cancelled)"
						ebu.PublishContext(bus, deadCtx, evA{N: k}) // reaches the Async+Sequential handler's queue while it is busy
					case 4, 5:
						name = "PublishContext"
						ebu.PublishContext(bus, ctx, evB{N: k})
					case 6:
						name = "Publish"
						ebu.Publish(bus, evC{N: k, S: "x"})
					case 7:
						name = "Subscribe"
						ebu.Subscribe(bus, hB1, ebu.Once())
					case 8:
						name = "SubscribeContext"
						ebu.SubscribeContext(bus, hA2)
					case 9:
						name = "Unsubscribe"
						ebu.Unsubscribe[evB](bus, hB1)
					case 10:
						name = "Unsubscribe"
						ebu.Unsubscribe[evA](bus, hA2)
					case 11:
						name = "Clear"
						if k%9 == 0 {
							ebu.Clear[evC](bus)
							ebu.Subscribe(bus, hC0)
						}
					case 12:
						name = "ClearAll"
						if k%31 == 0 {
							ebu.ClearAll(bus)
							ebu.Subscribe(bus, hA1, ebu.Async())
						}
					case 13:
						name = "HasHandlers"
						ebu.HasHandlers[evA](bus)
					case 14:
						name = "HandlerCount"
						ebu.HandlerCount[evB](bus)
					case 15, 16:
						name = "Wait"
						bus.Wait()
					case 17:
						name = "Replay"
						n := 0
						from := ebu.OffsetOldest
						if k%4 == 0 {
							from = ebu.OffsetNewest // "only what comes from now on": nothing, or an error - but it returns
							if s, ok := st.Store.(ebu.EventStoreStreamer); ok && k%8 == 0 {
								for range s.ReadStream(ctx, ebu.OffsetNewest) {
									break
								}
							}
						}
						bus.Replay(ctx, from, func(*ebu.StoredEvent) error {
							n++
							if n > 40 {
								return errors.New("enough")
							}
							return nil
						})
					case 18:
						name = "ReplayWithUpcast"
						n := 0
						bus.ReplayWithUpcast(ctx, ebu.OffsetOldest, func(*ebu.StoredEvent) error {
							n++
							if n > 40 {
								return errors.New("enough")
							}
							return nil
						})
					case 19, 20:
						name = "RegisterUpcastFunc"
						a, b := upNames[r.IntN(4)], upNames[r.IntN(4)]
						ebu.RegisterUpcastFunc(bus, a, b, func(d json.RawMessage) (json.RawMessage, string, error) { return d, b, nil })
					case 21:
						name = "RegisterUpcast"
						ebu.RegisterUpcast(bus, func(a evA) evC { return evC{N: a.N} })
					case 22:
						name = "ClearUpcasts"
						if k%5 == 0 {
							bus.ClearUpcasts()
						}
					case 23:
						name = "ClearUpcastsForType"
						bus.ClearUpcastsForType(upNames[r.IntN(4)])
					case 24:
						name = "SubscribeWithReplay"
						if k%6 == 0 {
							ebu.SubscribeWithReplay(ctx, bus, fmt.Sprintf("sub-%d-%d", g, k), func(evA) {})
						}
					case 25, 26:
						name = "Store.Append"
						st.Store.Append(ctx, &ebu.Event{Type: "c03.A", Data: json.RawMessage(`{"N":1}`), Timestamp: time.Unix(int64(k), 0)})
					case 27:
						name = "Store.Read"
						st.Store.Read(ctx, ebu.OffsetOldest, 5)
					case 28:
						name = "Store.ReadStream"
						if s, ok := st.Store.(ebu.EventStoreStreamer); ok {
							n := 0
							for range s.ReadStream(ctx, ebu.OffsetOldest) {
								if n++; n > 20 {
									break
								}
							}
						}
					case 29:
						name = "Store.SaveOffset"
						if st.Sub != nil {
							st.Sub.SaveOffset(ctx, fmt.Sprintf("s%d", r.IntN(3)), ebu.OffsetOldest)
						}
					case 30:
						name = "Store.LoadOffset"
						if st.Sub != nil {
							st.Sub.LoadOffset(ctx, fmt.Sprintf("s%d", r.IntN(3)))
						}
					case 31, 32:
						name = "state.Publish"
						if m, err := state.Insert(fmt.Sprintf("k%d", r.IntN(5)), entity{Name: "n", N: k}); err == nil {
							ebu.Publish(bus, *m)
						}
					case 33:
						name = "Materializer.Apply"
						m, _ := state.Update(fmt.Sprintf("k%d", r.IntN(5)), entity{N: k})
						b, _ := json.Marshal(m)
						mat.Apply(&ebu.StoredEvent{Offset: ebu.Offset(fmt.Sprintf("%020d", k)), Type: "state.ChangeMessage", Data: b})
					case 34:
						name = "Materializer.Replay"
						if k%4 == 0 {
							mat.Replay(ctx, bus, ebu.OffsetOldest)
						}
					case 35:
						name = "Materializer.LastOffset"
						mat.LastOffset()
					case 36:
						name = "RegisterCollection"
						state.RegisterCollection(mat, state.NewTypedCollectionWithType[entity](state.NewMemoryStore[entity](), fmt.Sprintf("t%d", r.IntN(3))))
					case 37:
						name = "Collection.Get/All"
						coll.Get("k1")
						coll.All()
					case 38:
						name = "Materializer.Reset"
						b, _ := json.Marshal(state.Reset(""))
						mat.Apply(&ebu.StoredEvent{Offset: "x", Type: "state.ControlMessage", Data: b})
					case 39:
						name = "GetStore/IsPersistent"
						bus.GetStore()
						bus.IsPersistent()
					}
					cnt[name]++
					dog.Tick()
				}
			}(g)
		}
		close(start)
		wg.Wait()
		bus.Wait()
		st.Close()
		st.Remove()
		dog.Tick()
		total := map[string]int{}
		for _, c := range opCounts {
			for k, v := range c {
				total[k] += v
			}
		}
		var ks []string
		for k, v := range total {
			ks = append(ks, k)
			run.Count("ops."+k, int64(v))
		}
		sort.Strings(ks)
		run.Case(fmt.Sprintf("%s G%d kinds%d", kind, G, len(ks)), G >= 2 && len(ks) >= 8)
		run.SetAdd("store_kinds", kind)
		run.Count("goroutines_started", int64(G))
		if i == 0 {
			run.Sample(map[string]any{"store": kind, "goroutines": G, "ops_each": N, "op_counts": total})
		}
	}
}

// TestC03RegistryStress: the registry / publish stress histories of C02 in recorder-free mode — no
// stamps, no harness synchronisation inside callbacks, so that the monitor cannot hide a race
// between Subscribe / Unsubscribe / Clear / Publish / HandlerCount from the race detector.
func TestC03RegistryStress(t *testing.T) {
	run := vk.New("C03", "registry-stress")
	defer run.Finish()
	all := evt.Drivers()
	n := run.Scale(1200, 30000)
	procs := []int{2, 4, 16, 1}
	defer runtime.GOMAXPROCS(runtime.GOMAXPROCS(0))
	for i := 0; i < n; i++ {
		rng := run.Rand(uint64(i))
		runtime.GOMAXPROCS(procs[i%len(procs)])
		w, plans, _ := conc.StressHistory(rng, all, false)
		w.Bus.Wait()
		kinds := map[string]bool{}
		ops := 0
		for _, p := range plans {
			for _, o := range p {
				kinds[o.K] = true
				ops++
			}
		}
		run.Case(fmt.Sprintf("G%d kinds%d p%d", len(plans), len(kinds), procs[i%len(procs)]), len(plans) >= 2 && (kinds["sub"] || kinds["unsub"] || kinds["clear"]) && kinds["pub"])
		run.Count("operations", int64(ops))
		if i == 0 {
			run.Sample(map[string]any{"plans": plans})
		}
	}
}

// countingObs is an Observability whose callbacks only touch their own atomic counters.
type countingObs struct{ pub, handler, persist atomic.Int64 }

func (o *countingObs) OnPublishStart(ctx context.Context, _ string, _ any) context.Context {
	o.pub.Add(1)
	return ctx
}
func (o *countingObs) OnPublishComplete(context.Context, string) {}
func (o *countingObs) OnHandlerStart(ctx context.Context, _ string, _ bool) context.Context {
	o.handler.Add(1)
	return ctx
}
func (o *countingObs) OnHandlerComplete(context.Context, time.Duration, error) {}
func (o *countingObs) OnPersistStart(ctx context.Context, _ string, _ int64) context.Context {
	o.persist.Add(1)
	return ctx
}
func (o *countingObs) OnPersistComplete(context.Context, time.Duration, error) {}
