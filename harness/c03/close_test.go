//go:build verif

package c03

import (
	"context"
	"fmt"
	"os"
	"runtime"
	"time"

	ebu "github.com/jilio/ebu"

	"verif/harness/internal/stores"
	"verif/harness/internal/vk"
	"verif/harness/internal/watchdog"
)

// closeDuringReplay: while a resumable subscription is replaying (its handler runs and the library
// saves its offsets in the same store), another goroutine closes the store or shuts the bus down.
// Whatever errors that produces, nothing hangs: the subscription call, the Close / Shutdown and a
// later publish all return.
func closeDuringReplay(run *vk.Run) {
	for _, kind := range []string{"sqlite-mem", "sqlite-file", "memory"} {
		for _, how := range []string{"close", "shutdown"} {
			sig := "close-during-replay|" + kind + "|" + how
			done := make(chan string, 1)
			go func() {
				st, err := stores.Open(kind, os.Getenv("VERIF_SCRATCH"))
				if err != nil {
					done <- "open: " + err.Error()
					return
				}
				defer st.Remove()
				opts := []ebu.Option{ebu.WithStore(st.Store)}
				if _, isSub := st.Store.(ebu.SubscriptionStore); !isSub {
					opts = append(opts, ebu.WithSubscriptionStore(ebu.NewMemoryStore()))
				}
				bus := ebu.New(opts...)
				for k := 1; k <= 5; k++ {
					ebu.Publish(bus, rA{N: k})
				}
				in, goOn := make(chan struct{}), make(chan struct{})
				first := true
				closed := make(chan struct{})
				go func() {
					<-in
					go func() {
						defer close(closed)
						if how == "close" {
							st.Close()
						} else {
							bus.Shutdown(context.Background())
						}
					}()
					for y := 0; y < 200; y++ {
						runtime.Gosched()
					}
					time.Sleep(3 * time.Millisecond)
					close(goOn)
				}()
				ebu.SubscribeWithReplay(context.Background(), bus, "closing", func(rA) {
					if first {
						first = false
						close(in)
						<-goOn
					}
				})
				<-closed
				ebu.Publish(bus, rA{N: 6})
				done <- ""
			}()
			select {
			case msg := <-done:
				if msg != "" {
					run.Count("close_during_replay_setup_problems", 1)
				}
			case <-time.After(40 * time.Second):
				buf := make([]byte, 1<<20)
				d := string(buf[:runtime.Stack(buf, true)])
				if watchdog.BlockedUnderEbu(d) {
					run.Violation("reentrancy:deadlock:"+sig, fmt.Sprintf("the store was closed (%s) while a resumable subscription was replaying it: 40 s later the subscription call, the %s or the publish that follows had still not returned; goroutines are parked below ebu frames", how, how), map[string]any{"scenario": sig, "dump": d[:min(len(d), 20000)]})
					run.Finish()
					watchdog.Exit()
				}
				run.Inconclusive("close-during-replay scenario slow without a confirmed deadlock")
			}
			run.Case(sig, true)
		}
	}
}
