//go:build verif

package c03

import (
	"os"
	"strings"

	"context"
	"fmt"
	"reflect"
	"runtime"
	"sync/atomic"
	"testing"
	"time"
	"verif/harness/internal/stores"

	ebu "github.com/jilio/ebu"

	"verif/harness/internal/vk"
	"verif/harness/internal/watchdog"
)

type rA struct{ N int }
type rB struct{ N int }

func tgt0(rA)                  {}
func tgt1(context.Context, rA) {}

// TestC03Reentrancy: each callback site x each re-entrant call x handler options, excluding only
// the documented exception (a synchronous Sequential handler publishing an event delivered to itself).
func TestC03Reentrancy(t *testing.T) {
	run := vk.New("C03", "reentrancy")
	defer run.Finish()
	if run.Shard == 0 {
		closeDuringReplay(run)
	}
	sites := []string{"handler", "ctxhandler", "asynchandler", "filter", "before", "beforectx", "after", "afterctx", "replayhandler", "asyncduringshutdown", "syncduringshutdown", "panichandler", "replayphase|memory", "replayphase|memory-paged", "replayphase|sqlite-mem", "replayphase|sqlite-file", "replayphase|sqlite-batch2", "replayphase|durable"}
	calls := []string{"pub-same", "pub-other", "subscribe", "subscribectx", "unsubscribe", "unsubscribe-self", "clear", "clearall", "has", "count"}
	optss := []string{"-", "once", "sequential", "async+sequential"}
	idx := 0
	for _, site := range sites {
		for _, call := range calls {
			for _, opt := range optss {
				idx++
				if !run.Mine(idx) {
					continue
				}
				sig := site + "|" + call + "|" + opt
				syncSeqSelf := (site == "handler" || site == "ctxhandler" || site == "filter" || site == "replayhandler" || site == "syncduringshutdown") && opt == "sequential" && call == "pub-same"
				if site == "filter" {
					syncSeqSelf = false // the filter runs before the sequential lock is taken
				}
				if syncSeqSelf {
					run.Count("excluded_documented_exception", 1)
					continue
				}
				done := make(chan string, 1)
				go func() { done <- scenario(site, call, opt) }()
				finished := false
				for waited := 0; !finished; waited++ {
					select {
					case msg := <-done:
						if msg != "" {
							run.Violation("reentrancy:wrong-result:"+sig, msg, map[string]any{"scenario": sig})
						}
						run.Case(sig, call != "has" && call != "count")
						finished = true
					case <-time.After(20 * time.Second):
						buf := make([]byte, 1<<20)
						d1 := string(buf[:runtime.Stack(buf, true)])
						time.Sleep(time.Second)
						d2 := string(buf[:runtime.Stack(buf, true)])
						if watchdog.BlockedUnderEbu(d1) && watchdog.BlockedUnderEbu(d2) {
							run.Violation("reentrancy:deadlock:"+sig, "re-entrant call from "+site+" ("+call+", handler option "+opt+") never returned; goroutines are parked below ebu frames", map[string]any{"scenario": sig, "dump": d2[:min(len(d2), 20000)]})
							run.Finish()
							t.Fatalf("hang in %s", sig)
						}
						// not a lock cycle by the dump rule: a slow machine; keep waiting (bounded)
						run.Count("watchdog_slow_windows", 1)
						if waited >= 30 {
							run.Inconclusive("re-entrancy scenario did not finish within 10 minutes without a lock cycle in the dumps: " + sig)
							finished = true
						}
					}
				}
			}
		}
	}
	run.Count("matrix_size", int64(idx))
	run.Exhaustive(true)
}

// scenario returns "" when the re-entrant call completed and its visible effect is right.
func scenario(site, call, opt string) string {
	var bus *ebu.EventBus
	var selfHandler func(rA)
	var enteredN atomic.Int32
	reenter := func() {
		if enteredN.Add(1) > 1 {
			return // the re-entrant publish reaches this site again: re-enter once per scenario
		}
		switch call {
		case "pub-same":
			ebu.Publish(bus, rA{N: 2})
		case "pub-other":
			ebu.Publish(bus, rB{N: 2})
		case "subscribe":
			ebu.Subscribe(bus, tgt0)
		case "subscribectx":
			ebu.SubscribeContext(bus, tgt1)
		case "unsubscribe":
			ebu.Unsubscribe[rA](bus, tgt0)
		case "unsubscribe-self":
			// the handler takes itself out of the registry from inside its own invocation (for the other
			// sites: the handler that is being dispatched at that moment)
			ebu.Unsubscribe[rA](bus, selfHandler)
		case "clear":
			ebu.Clear[rA](bus)
		case "clearall":
			ebu.ClearAll(bus)
		case "has":
			ebu.HasHandlers[rA](bus)
		case "count":
			ebu.HandlerCount[rA](bus)
		}
	}
	var opts []ebu.Option
	switch site {
	case "before":
		opts = append(opts, ebu.WithBeforePublish(func(reflect.Type, any) { reenter() }))
	case "beforectx":
		opts = append(opts, ebu.WithBeforePublishContext(func(context.Context, reflect.Type, any) { reenter() }))
	case "after":
		opts = append(opts, ebu.WithAfterPublish(func(reflect.Type, any) { reenter() }))
	case "afterctx":
		opts = append(opts, ebu.WithAfterPublishContext(func(context.Context, reflect.Type, any) { reenter() }))
	}
	if site == "panichandler" {
		// the bus's panic handler, called for a handler that panicked, calls back into the bus
		opts = append(opts, ebu.WithPanicHandler(func(any, reflect.Type, any) { reenter() }))
	}
	if site == "replayhandler" || site == "asyncduringshutdown" || site == "syncduringshutdown" {
		opts = append(opts, ebu.WithStore(ebu.NewMemoryStore()))
	}
	if kind, ok := strings.CutPrefix(site, "replayphase|"); ok {
		// a handler registered through SubscribeWithReplay, invoked for stored events during the replay
		// phase (the store is being read at that moment), calls back into the bus
		st, err := stores.Open(kind, os.Getenv("VERIF_SCRATCH"))
		if err != nil {
			return "open " + kind + ": " + err.Error()
		}
		defer func() { st.Close(); st.Remove() }()
		opts = append(opts, ebu.WithStore(st.Store))
		if _, isSub := st.Store.(ebu.SubscriptionStore); !isSub {
			opts = append(opts, ebu.WithSubscriptionStore(ebu.NewMemoryStore()))
		}
	}
	// on a persistent bus nothing is injected: every append these scenarios make succeeds
	var persistErr atomic.Value
	opts = append(opts, ebu.WithPersistenceErrorHandler(func(_ any, _ reflect.Type, err error) { persistErr.Store(err.Error()) }))
	gate := make(chan struct{})
	inHandler := make(chan struct{})
	bus = ebu.New(opts...)
	var so []ebu.SubscribeOption
	switch opt {
	case "once":
		so = append(so, ebu.Once())
	case "sequential":
		so = append(so, ebu.Sequential())
	case "async+sequential":
		so = append(so, ebu.Async(), ebu.Sequential())
	}
	otherRan := 0
	ebu.Subscribe(bus, func(rB) { otherRan++ })
	if call == "unsubscribe" {
		ebu.Subscribe(bus, tgt0)
	}
	selfHandler = func(rA) { reenter() }
	switch site {
	case "handler":
		if call == "unsubscribe-self" {
			ebu.Subscribe(bus, selfHandler, so...)
			break
		}
		ebu.Subscribe(bus, func(rA) { reenter() }, so...)
	case "ctxhandler":
		ebu.SubscribeContext(bus, func(context.Context, rA) { reenter() }, so...)
	case "asynchandler":
		if call == "unsubscribe-self" {
			ebu.Subscribe(bus, selfHandler, append(so, ebu.Async())...)
			break
		}
		ebu.Subscribe(bus, func(rA) { reenter() }, append(so, ebu.Async())...)
	case "filter":
		ebu.Subscribe(bus, func(rA) {}, append(so, ebu.WithFilter(func(rA) bool { reenter(); return true }))...)
	case "panichandler":
		ebu.Subscribe(bus, func(rA) { panic("c03: handler panics") }, so...)
	case "replayphase|memory", "replayphase|memory-paged", "replayphase|sqlite-mem", "replayphase|sqlite-file", "replayphase|sqlite-batch2", "replayphase|durable":
		ebu.Publish(bus, rA{N: 1})
		ebu.Publish(bus, rA{N: 3})
		if err := ebu.SubscribeWithReplay(context.Background(), bus, "sub", func(rA) { reenter() }, so...); err != nil {
			return "SubscribeWithReplay: " + err.Error()
		}
	case "syncduringshutdown":
		// a handler (synchronous unless the option says otherwise) that is in the middle of its
		// invocation when another goroutine calls Shutdown, and then calls back into the bus
		ebu.Subscribe(bus, func(rA) { close(inHandler); <-gate; reenter() }, so...)
	case "asyncduringshutdown":
		// an async handler on a persistent bus that is still in flight when Shutdown is called and
		// calls back into the bus while Shutdown waits for it
		ebu.Subscribe(bus, func(rA) { <-gate; reenter() }, append(so, ebu.Async())...)
	case "replayhandler":
		// a handler registered through SubscribeWithReplay on a persistent bus (live phase)
		if err := ebu.SubscribeWithReplay(context.Background(), bus, "sub", func(rA) { reenter() }, so...); err != nil {
			return "SubscribeWithReplay: " + err.Error()
		}
	default:
		ebu.Subscribe(bus, func(rA) {}, so...)
	}
	if site == "syncduringshutdown" {
		pubDone := make(chan struct{})
		go func() { defer close(pubDone); ebu.Publish(bus, rA{N: 1}) }()
		<-inHandler
		sd := make(chan error, 1)
		go func() { sd <- bus.Shutdown(context.Background()) }()
		for i := 0; i < 50; i++ {
			runtime.Gosched()
		}
		time.Sleep(2 * time.Millisecond) // let Shutdown get going; either order is legal
		close(gate)
		<-pubDone
		if err := <-sd; err != nil {
			return "Shutdown with a live context returned " + err.Error()
		}
	} else {
		ebu.Publish(bus, rA{N: 1})
	}
	if site == "asyncduringshutdown" {
		sd := make(chan error, 1)
		go func() { sd <- bus.Shutdown(context.Background()) }()
		for i := 0; i < 50; i++ {
			runtime.Gosched()
		}
		time.Sleep(2 * time.Millisecond) // let Shutdown start waiting; either order is legal
		close(gate)
		if err := <-sd; err != nil {
			return "Shutdown with a live context returned " + err.Error()
		}
	}
	bus.Wait()
	if enteredN.Load() == 0 {
		return "the callback site was never reached"
	}
	if pe, _ := persistErr.Load().(string); pe != "" {
		return "an append made in this scenario (no fault injected) was refused by the store: " + pe
	}
	// visible effect of the re-entrant call
	if strings.HasPrefix(site, "replayphase|") && (call == "clear" || call == "clearall") {
		return "" // the live registration of the subscription itself follows the replay phase
	}
	switch call {
	case "pub-other":
		if otherRan != 1 {
			return fmt.Sprintf("re-entrant publish of another type reached its handler %d times", otherRan)
		}
	case "clear":
		if n := ebu.HandlerCount[rA](bus); n != 0 {
			return fmt.Sprintf("after a re-entrant Clear HandlerCount is %d", n)
		}
	case "clearall":
		if ebu.HasHandlers[rB](bus) || ebu.HasHandlers[rA](bus) {
			return "after a re-entrant ClearAll handlers remain"
		}
	}
	return ""
}

// TestC03Burst: more asynchronous invocations in flight at once than any plausible internal capacity
// (thousands), every one of which calls back into the bus before it finishes — plain async handlers
// parked on a gate, and the backlog of an Async+Sequential handler. Nothing may deadlock; Wait returns.
func TestC03Burst(t *testing.T) {
	run := vk.New("C03", "burst")
	defer run.Finish()
	idx := 0
	for _, n := range []int{300, 1100, 4200, 9000} {
		for _, shape := range []string{"async-gated", "async-sequential-backlog"} {
			idx++
			if !run.Mine(idx) {
				continue
			}
			if shape == "async-sequential-backlog" && n > 5000 && !run.Thorough() {
				continue // (the backlog's wake-ups are quadratic; the largest one is left to the thorough tier)
			}
			sig := fmt.Sprintf("%s|n%d", shape, n)
			done := make(chan string, 1)
			go func() {
				bus := ebu.New()
				var follow atomic.Int32
				ebu.Subscribe(bus, func(rB) { follow.Add(1) })
				gate := make(chan struct{})
				var so []ebu.SubscribeOption
				if shape == "async-sequential-backlog" {
					so = append(so, ebu.Sequential())
				}
				ebu.Subscribe(bus, func(e rA) {
					<-gate
					ebu.Publish(bus, rB{N: e.N}) // a follow-up from inside the in-flight invocation
				}, append(so, ebu.Async())...)
				for i := 0; i < n; i++ {
					ebu.Publish(bus, rA{N: i})
				}
				close(gate)
				bus.Wait()
				if int(follow.Load()) != n {
					done <- fmt.Sprintf("%d of %d follow-up events were delivered", follow.Load(), n)
					return
				}
				done <- ""
			}()
			finished := false
			for waited := 0; !finished; waited++ {
				select {
				case msg := <-done:
					if msg != "" {
						run.Violation("burst:wrong-result:"+sig, msg, map[string]any{"scenario": sig})
					}
					run.Case(sig, true)
					run.Max("max_async_invocations_in_flight", int64(n))
					finished = true
				case <-time.After(20 * time.Second):
					buf := make([]byte, 8<<20)
					d1 := string(buf[:runtime.Stack(buf, true)])
					time.Sleep(time.Second)
					d2 := string(buf[:runtime.Stack(buf, true)])
					if watchdog.BlockedUnderEbu(d1) && watchdog.BlockedUnderEbu(d2) {
						run.Violation("burst:deadlock:"+sig, fmt.Sprintf("%d asynchronous invocations in flight, each publishing a follow-up event: publishers / handlers / Wait are parked below ebu frames and nothing moves", n), map[string]any{"scenario": sig, "dump": d2[:min(len(d2), 20000)]})
						run.Finish()
						t.Fatalf("hang in %s", sig)
					}
					run.Count("watchdog_slow_windows", 1)
					if waited >= 30 {
						run.Inconclusive("burst scenario did not finish within 10 minutes without a lock cycle in the dumps: " + sig)
						finished = true
					}
				}
			}
		}
	}
	run.Exhaustive(true)
}
