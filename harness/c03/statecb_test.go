//go:build verif

package c03

import (
	"encoding/json"
	"fmt"
	"runtime"
	"testing"
	"time"

	ebu "github.com/jilio/ebu"
	"github.com/jilio/ebu/state"

	"verif/harness/internal/vk"
	"verif/harness/internal/watchdog"
)

type cbEntity struct{ N int }

// TestC03StateCallbacks: the materializer's callbacks (reset, snapshot, error) call back into the
// same materializer - read its position, apply a further message, register a collection - while it
// is in the middle of applying the event that triggered them. None of these may deadlock.
func TestC03StateCallbacks(t *testing.T) {
	run := vk.New("C03", "state-callbacks")
	defer run.Finish()
	idx := 0
	for _, site := range []string{"onreset", "onsnapshot-start", "onsnapshot-end", "onerror"} {
		for _, call := range []string{"lastoffset", "applychange", "applycontrol", "register", "apply-event"} {
			for _, strict := range []bool{false, true} {
				idx++
				if !run.Mine(idx) {
					continue
				}
				sig := fmt.Sprintf("%s|%s|strict=%v", site, call, strict)
				done := make(chan string, 1)
				go func() {
					var mat *state.Materializer
					entered := 0
					reenter := func() {
						if entered++; entered > 1 {
							return
						}
						switch call {
						case "lastoffset":
							_ = mat.LastOffset()
						case "applychange":
							m, _ := state.Insert("seed", cbEntity{N: 1})
							mat.ApplyChangeMessage(m)
						case "applycontrol":
							mat.ApplyControlMessage(state.SnapshotStart("1"))
						case "register":
							state.RegisterCollection(mat, state.NewTypedCollectionWithType[cbEntity](state.NewMemoryStore[cbEntity](), "c03.extra"))
						case "apply-event":
							m, _ := state.Insert("seed2", cbEntity{N: 2})
							b, _ := json.Marshal(m)
							mat.Apply(&ebu.StoredEvent{Offset: "9", Type: "state.ChangeMessage", Data: b})
						}
					}
					opts := []state.MaterializerOption{}
					if strict {
						opts = append(opts, state.WithStrictSchema())
					}
					switch site {
					case "onreset":
						opts = append(opts, state.WithOnReset(reenter))
					case "onsnapshot-start", "onsnapshot-end":
						opts = append(opts, state.WithOnSnapshot(func(bool) { reenter() }))
					case "onerror":
						opts = append(opts, state.WithOnError(func(error) { reenter() }))
					}
					mat = state.NewMaterializer(opts...)
					coll := state.NewTypedCollection[cbEntity](state.NewMemoryStore[cbEntity]())
					state.RegisterCollection(mat, coll)
					var trigger any
					switch site {
					case "onreset":
						trigger = state.Reset("")
					case "onsnapshot-start":
						trigger = state.SnapshotStart("3")
					case "onsnapshot-end":
						trigger = state.SnapshotEnd("4")
					default:
						trigger = &state.ChangeMessage{Type: state.EntityType(cbEntity{}), Key: "k", Value: json.RawMessage(`{"N":"not a number"}`), Headers: state.Headers{Operation: state.OperationInsert}}
					}
					b, _ := json.Marshal(trigger)
					mat.Apply(&ebu.StoredEvent{Offset: "5", Type: "state.ChangeMessage", Data: b})
					// and the materializer is usable afterwards
					m, _ := state.Insert("after", cbEntity{N: 3})
					if err := mat.ApplyChangeMessage(m); err != nil {
						done <- "a change applied after the callback returned an error: " + err.Error()
						return
					}
					if entered == 0 {
						done <- "the callback site was never reached"
						return
					}
					done <- ""
				}()
				finished := false
				for waited := 0; !finished; waited++ {
					select {
					case msg := <-done:
						if msg != "" {
							run.Violation("state-callbacks:wrong-result:"+sig, msg, map[string]any{"scenario": sig})
						}
						run.Case(sig, true)
						finished = true
					case <-time.After(20 * time.Second):
						buf := make([]byte, 1<<20)
						d1 := string(buf[:runtime.Stack(buf, true)])
						time.Sleep(time.Second)
						d2 := string(buf[:runtime.Stack(buf, true)])
						if watchdog.BlockedUnderEbu(d1) && watchdog.BlockedUnderEbu(d2) {
							run.Violation("state-callbacks:deadlock:"+sig, "a materializer callback ("+site+") that calls back into its materializer ("+call+") never returned; goroutines are parked below ebu frames", map[string]any{"scenario": sig, "dump": d2[:min(len(d2), 20000)]})
							run.Finish()
							t.Fatalf("hang in %s", sig)
						}
						run.Count("watchdog_slow_windows", 1)
						if waited >= 30 {
							run.Inconclusive("state callback scenario did not finish within 10 minutes: " + sig)
							finished = true
						}
					}
				}
			}
		}
	}
	run.Exhaustive(true)
}
