//go:build verif

// C16 — Upcaster registration can never create a cycle and upcasting always terminates.
package c16

import (
	"context"
	"encoding/json"
	"errors"
	"fmt"
	ebustate "github.com/jilio/ebu/state"
	"math/rand/v2"
	"os"
	"runtime"
	"sort"
	"strings"
	"sync"
	"sync/atomic"
	"testing"
	"time"
	shadowstate "verif/harness/internal/shadow/state"

	"github.com/anishathalye/porcupine"
	ebu "github.com/jilio/ebu"

	"verif/harness/internal/stores"
	"verif/harness/internal/vk"
	"verif/harness/internal/watchdog"
)

type op struct {
	K    string `json:"k"` // reg, regnil, clear, cleartype
	From string `json:"from,omitempty"`
	To   string `json:"to,omitempty"`
}

func (o op) String() string {
	switch o.K {
	case "reg":
		return fmt.Sprintf("Register(%q->%q)", o.From, o.To)
	case "regnil":
		return fmt.Sprintf("Register(%q->%q, nil)", o.From, o.To)
	case "clear":
		return "ClearUpcasts()"
	}
	return fmt.Sprintf("ClearUpcastsForType(%q)", o.From)
}

// graph is the model: a multiset of edges.
type graph map[string][]string

func (g graph) reaches(from, to string) bool {
	seen := map[string]bool{}
	var dfs func(string) bool
	dfs = func(x string) bool {
		if x == to {
			return true
		}
		if seen[x] {
			return false
		}
		seen[x] = true
		for _, y := range g[x] {
			if dfs(y) {
				return true
			}
		}
		return false
	}
	return dfs(from)
}

func (g graph) clone() graph {
	h := graph{}
	for k, v := range g {
		h[k] = append([]string{}, v...)
	}
	return h
}

func (g graph) key() string {
	var es []string
	for f, ts := range g {
		for _, t := range ts {
			es = append(es, f+">"+t)
		}
	}
	sort.Strings(es)
	return strings.Join(es, ",")
}

// step applies o to the model and returns whether a registration must be accepted.
func (g graph) step(o op) (accept bool) {
	switch o.K {
	case "reg":
		if o.From == "" || o.To == "" || o.From == o.To || g.reaches(o.To, o.From) {
			return false
		}
		g[o.From] = append(g[o.From], o.To)
		return true
	case "regnil":
		return false
	case "clear":
		for k := range g {
			delete(g, k)
		}
	case "cleartype":
		delete(g, o.From)
	}
	return true
}

func apply(bus *ebu.EventBus, o op) (accepted bool) {
	ident := func(to string) ebu.UpcastFunc {
		return func(d json.RawMessage) (json.RawMessage, string, error) { return d, to, nil }
	}
	switch o.K {
	case "reg":
		return ebu.RegisterUpcastFunc(bus, o.From, o.To, ident(o.To)) == nil
	case "regnil":
		return ebu.RegisterUpcastFunc(bus, o.From, o.To, nil) == nil
	case "clear":
		bus.ClearUpcasts()
	case "cleartype":
		bus.ClearUpcastsForType(o.From)
	}
	return true
}

func alphabet(names []string) []op {
	var ops []op
	all := append([]string{""}, names...)
	for _, f := range all {
		for _, t := range all {
			ops = append(ops, op{K: "reg", From: f, To: t})
		}
	}
	ops = append(ops, op{K: "regnil", From: names[0], To: names[1]}, op{K: "clear"})
	for _, n := range names {
		ops = append(ops, op{K: "cleartype", From: n})
	}
	return ops
}

var inReplaySeqs atomic.Int64

// runSeqInReplay: the operations after the first one are issued from inside the callback of a running
// ReplayWithUpcast (a handler that migrates the registry while it replays): each is accepted or
// rejected by the same rule — and returns.
func runSeqInReplay(run *vk.Run, seq []op, tag string) {
	store := ebu.NewMemoryStore()
	store.Append(context.Background(), &ebu.Event{Type: "c16.unrelated", Data: json.RawMessage(`{}`)})
	bus := ebu.New(ebu.WithStore(store))
	g := graph{}
	done := make(chan string, 1)
	go func() {
		msg := ""
		step := func(i int, o op) bool {
			before := g.clone()
			want := g.step(o)
			if got := apply(bus, o); got != want {
				msg = fmt.Sprintf("operation %d (%s), issued from inside a ReplayWithUpcast callback with the registry holding {%s}: accepted=%v, the rule says %v", i, o, before.key(), got, want)
				return false
			}
			return true
		}
		if step(0, seq[0]) {
			bus.ReplayWithUpcast(context.Background(), ebu.OffsetOldest, func(*ebu.StoredEvent) error {
				for i, o := range seq[1:] {
					if !step(i+1, o) {
						break
					}
				}
				return nil
			})
		}
		done <- msg
	}()
	for waited := 0; ; waited++ {
		select {
		case msg := <-done:
			if msg != "" {
				run.Violation("upcast-registration:inside-replay-callback", msg, map[string]any{"sequence": fmt.Sprint(seq)})
			}
			inReplaySeqs.Add(1)
			return
		case <-time.After(20 * time.Second):
			buf := make([]byte, 1<<20)
			d := string(buf[:runtime.Stack(buf, true)])
			if watchdog.BlockedUnderEbu(d) {
				run.Violation("upcast-registration:inside-replay-callback-hangs", fmt.Sprintf("sequence %v: a registry operation issued from inside a ReplayWithUpcast callback never returned (goroutines are parked below ebu frames)", seq), map[string]any{"sequence": fmt.Sprint(seq), "dump": d[:min(len(d), 8000)]})
				run.Finish()
				watchdog.Exit()
			}
			if waited >= 30 {
				run.Inconclusive("registry operations inside a replay callback did not finish within 10 minutes")
				return
			}
		}
	}
}

func runSeq(run *vk.Run, seq []op, tag string) {
	if len(seq) >= 2 && vk.Hash64(fmt.Sprint(seq))%4 == 0 {
		runSeqInReplay(run, seq, tag+"-in-replay")
	}
	runSeqVia(run, seq, tag, false)
	if len(seq) >= 2 && (seq[0].K == "reg" || seq[0].K == "regnil") {
		runSeqVia(run, seq, tag+"-opt", true)
	}
}

// runSeqVia: with viaOptions the leading run of registrations is given to New as WithUpcast options
// (which drop the error: a rejected registration simply has no effect), the rest through the API.
func runSeqVia(run *vk.Run, seq []op, tag string, viaOptions bool) {
	g := graph{}
	lead := 0
	var opts []ebu.Option
	if viaOptions {
		for lead < len(seq)-1 && (seq[lead].K == "reg" || seq[lead].K == "regnil") {
			o := seq[lead]
			to := o.To
			if o.K == "regnil" {
				opts = append(opts, ebu.WithUpcast(o.From, o.To, nil)) // a nil function is no upcaster, by whatever route
			} else {
				opts = append(opts, ebu.WithUpcast(o.From, o.To, func(d json.RawMessage) (json.RawMessage, string, error) { return d, to, nil }))
			}
			g.step(o)
			lead++
		}
	}
	bus := ebu.New(opts...)
	rejectedByReach := false
	for i, o := range seq {
		if i < lead {
			continue
		}
		before := g.clone()
		want := g.step(o)
		got := apply(bus, o)
		if o.K == "reg" && !want && o.From != "" && o.To != "" && o.From != o.To {
			rejectedByReach = true
		}
		if got != want {
			var ss []string
			for _, x := range seq[:i+1] {
				ss = append(ss, x.String())
			}
			rule := "accepted-must-reject"
			if want {
				rule = "rejected-must-accept"
			}
			run.Violation("upcast-registration:"+rule, fmt.Sprintf("after %v the registry holds {%s}; %s returned accepted=%v, the rule (empty name / from==to / nil func / target reaches source) says %v", ss[:i], before.key(), o, got, want), map[string]any{"sequence": ss})
			break
		}
	}
	run.Case(tag+"|"+fmt.Sprint(seq), rejectedByReach)
}

func TestC16Sequences(t *testing.T) {
	run := vk.New("C16", "sequences")
	defer run.Finish()
	defer func() { run.Count("sequences_issued_from_inside_a_replay_callback", inReplaySeqs.Load()) }()
	names := []string{"A", "B", "C"}
	alpha := alphabet(names)
	L := run.Scale(3, 4)
	idx := 0
	var rec func(seq []op)
	rec = func(seq []op) {
		if len(seq) > 0 {
			idx++
			if run.Mine(idx) {
				runSeq(run, seq, "ex")
			}
		}
		if len(seq) == L {
			return
		}
		for _, o := range alpha {
			rec(append(append([]op{}, seq...), o))
		}
	}
	rec(nil)
	// two different Go types that reflect prints alike ("state.ChangeMessage": an application's own
	// package named state next to ebu's) but whose event names differ: a typed upcast between them is
	// an ordinary acyclic registration and is applied to events persisted under the legacy name
	if run.Shard == 0 {
		store := ebu.NewMemoryStore()
		bus := ebu.New(ebu.WithStore(store))
		ebu.Publish(bus, shadowstate.ChangeMessage{Entity: "user", ID: "7", Body: `{"n":1}`})
		// (the other order of first use as well: names must not be remembered by printed type)
		_ = ebu.EventType(ebustate.ChangeMessage{})
		err := ebu.RegisterUpcast(bus, func(l shadowstate.ChangeMessage) ebustate.ChangeMessage {
			return ebustate.ChangeMessage{Type: l.Entity, Key: l.ID, Value: json.RawMessage(l.Body), Headers: ebustate.Headers{Operation: ebustate.OperationInsert}}
		})
		var types []string
		bus.ReplayWithUpcast(context.Background(), ebu.OffsetOldest, func(e *ebu.StoredEvent) error { types = append(types, e.Type); return nil })
		if err != nil || fmt.Sprint(types) != "[state.ChangeMessage]" {
			run.Violation("upcast-registration:rejected-must-accept", fmt.Sprintf("RegisterUpcast from an application type named state.ChangeMessage (event name %q) to ebu's state.ChangeMessage (event name %q) returned %v; an upcasting replay of one legacy event handed out %v", ebu.EventType(shadowstate.ChangeMessage{}), ebu.EventType(ebustate.ChangeMessage{}), err, types), nil)
		}
		run.Case("same-printed-type-name-in-two-packages", true)
	}
	// names that are spelled like two other names joined by something (an arrow, a colon, nothing
	// at all ...): every sequence of three registrations over ten pairs of such names. A pair of
	// names is a pair, however its members are spelled.
	for _, sep := range []string{"->", "→", ":", "|", "/", "", " ", ",", "=>", "\x00", ".", "-"} {
		a, b, c := "a", "b", "c"
		ab, bc := a+sep+b, b+sep+c
		pairs := [][2]string{{ab, c}, {bc, a}, {a, bc}, {c, ab}, {a, b}, {b, c}, {c, a}, {ab, bc}, {bc, ab}, {b, a}}
		for x := range pairs {
			for y := range pairs {
				for z := range pairs {
					idx++
					if !run.Mine(idx) {
						continue
					}
					runSeq(run, []op{{K: "reg", From: pairs[x][0], To: pairs[x][1]}, {K: "reg", From: pairs[y][0], To: pairs[y][1]}, {K: "reg", From: pairs[z][0], To: pairs[z][1]}}, "joined"+sep)
				}
			}
		}
	}
	run.Count("exhaustive_sequences", int64(idx))
	run.Exhaustive(true)
	// a service that reloads the upcasters of one type over and over (register, clear that type, ...):
	// the registry never holds more than one upcaster and every registration is accepted
	if run.Shard == 0 {
		var seq []op
		for k := 0; k < 2600; k++ {
			seq = append(seq, op{K: "reg", From: "cfg.v1", To: "cfg.v2"}, op{K: "cleartype", From: "cfg.v1"})
		}
		seq = append(seq, op{K: "reg", From: "cfg.v1", To: "cfg.v2"}, op{K: "reg", From: "cfg.v2", To: "cfg.v1"})
		runSeq(run, seq, "reload")
	}
	// very long version chains: the back edge must still be rejected, the forward shortcut accepted
	if run.Shard == 0 {
		for _, n := range []int{8, 70, 300} {
			var seq []op
			for k := 0; k < n; k++ {
				seq = append(seq, op{K: "reg", From: fmt.Sprintf("doc.v%d", k), To: fmt.Sprintf("doc.v%d", k+1)})
			}
			seq = append(seq, op{K: "reg", From: fmt.Sprintf("doc.v%d", n), To: "doc.v0"}, op{K: "reg", From: fmt.Sprintf("doc.v%d", n), To: "doc.v1"},
				op{K: "reg", From: "doc.v0", To: fmt.Sprintf("doc.v%d", n)}, op{K: "reg", From: fmt.Sprintf("doc.v%d", n/2), To: "doc.v0"})
			runSeq(run, seq, fmt.Sprintf("chain%d", n))
		}
	}
	// PRNG sequences of length <= 12 over 5 names (valid registrations favoured so that graphs grow)
	n := run.Scale(8000, 120000)
	names5 := []string{"A", "B", "C", "D", "E"}
	for i := 0; i < n; i++ {
		r := run.Rand(uint64(i))
		var seq []op
		names5 := names5
		switch i % 6 {
		case 0, 2:
			names5 = []string{"A", "B", "C", "A", "B"} // few names: shared targets, clears and back edges collide
		case 1:
			names5 = []string{"A", "AA", "A.A", "a", "Ä"} // names that are prefixes / case variants of each other
		case 4:
			names5 = []string{"A", "*A", "B", "*B", "C"} // the names of pointer events next to those of their value types: different names
		case 5:
			names5 = []string{"pkg.T", "*pkg.T", " pkg.T", "pkg.T ", "pkg/T"} // legal names that differ in one unusual character
		}
		for k := 1 + r.IntN(12); k > 0; k-- {
			switch x := r.IntN(20); {
			case x < 15:
				seq = append(seq, op{K: "reg", From: names5[r.IntN(5)], To: names5[r.IntN(5)]})
			case x < 16:
				seq = append(seq, op{K: "reg", From: "", To: names5[r.IntN(5)]})
			case x < 17:
				seq = append(seq, op{K: "regnil", From: "A", To: "B"})
			case x < 18:
				seq = append(seq, op{K: "clear"})
			default:
				seq = append(seq, op{K: "cleartype", From: names5[r.IntN(5)]})
			}
		}
		runSeq(run, seq, "rnd")
		if i == 0 {
			var ss []string
			for _, x := range seq {
				ss = append(ss, x.String())
			}
			run.Sample(map[string]any{"sequence": ss})
		}
	}
}

// ---------------------------------------------------------------------------------------------
// racing registrations, checked for linearizability against the sequential model

type pin struct {
	O op
}
type pout struct{ Accepted bool }

func model(init string) porcupine.Model {
	return porcupine.Model{
		Init: func() any { return init },
		Step: func(state, in, out any) (bool, any) {
			g := graph{}
			if s := state.(string); s != "" {
				for _, e := range strings.Split(s, ",") {
					f, t, _ := strings.Cut(e, ">")
					g[f] = append(g[f], t)
				}
			}
			want := g.step(in.(pin).O)
			return out.(pout).Accepted == want, g.key()
		},
		Equal: func(a, b any) bool { return a.(string) == b.(string) },
		DescribeOperation: func(in, out any) string {
			return fmt.Sprintf("%s -> accepted=%v", in.(pin).O, out.(pout).Accepted)
		},
	}
}

func TestC16Races(t *testing.T) {
	run := vk.New("C16", "races")
	defer run.Finish()
	names := []string{"A", "B", "C"}
	var regs []op
	for _, f := range names {
		for _, t := range names {
			if f != t {
				regs = append(regs, op{K: "reg", From: f, To: t})
			}
		}
	}
	others := []op{{K: "clear"}, {K: "cleartype", From: "A"}, {K: "cleartype", From: "B"}}
	reps := run.Scale(6, 40)
	var clock atomic.Int64
	procs := []int{2, 4, 16, 1}
	defer runtime.GOMAXPROCS(runtime.GOMAXPROCS(0))
	idx := 0
	runGroup := func(pre []op, heavy int, group []op, tag string) {
		idx++
		if !run.Mine(idx) {
			return
		}
		for rep := 0; rep < reps; rep++ {
			runtime.GOMAXPROCS(procs[rep%len(procs)])
			bus := ebu.New()
			var history []porcupine.Operation
			var hmu sync.Mutex
			do := func(client int, o op) {
				call := clock.Add(1)
				acc := apply(bus, o)
				ret := clock.Add(1)
				hmu.Lock()
				history = append(history, porcupine.Operation{ClientId: client, Input: pin{o}, Call: call, Output: pout{acc}, Return: ret})
				hmu.Unlock()
			}
			// long private chains make the reachability check take long, so the racing checks overlap
			// (they are registered directly and are part of the initial model state via the history)
			init := graph{}
			if heavy > 0 {
				for _, n := range names {
					prev := n
					for k := 0; k < heavy; k++ {
						next := fmt.Sprintf("%s_%d", n, k)
						o := op{K: "reg", From: prev, To: next}
						if !apply(bus, o) {
							run.Violation("upcast-registration:rejected-must-accept", fmt.Sprintf("registration %s -> %s, the %d-th edge of a plain version chain (no empty name, no nil function, source != target, the target reaches nothing), was rejected", prev, next, k+1), map[string]any{"chain_edges_before": k})
							return
						}
						init.step(o)
						prev = next
					}
				}
			}
			m := model(init.key())
			for _, o := range pre {
				do(0, o)
			}
			var wg sync.WaitGroup
			start := make(chan struct{})
			for c, o := range group {
				wg.Add(1)
				go func(c int, o op) {
					defer wg.Done()
					<-start
					if (rep+c)%3 == 0 {
						runtime.Gosched()
					}
					do(c+1, o)
				}(c, o)
			}
			close(start)
			wg.Wait()
			res, info := porcupine.CheckOperationsVerbose(m, history, 20*time.Second)
			switch res {
			case porcupine.Illegal:
				var hs []string
				for _, h := range history[len(history)-len(group):] {
					hs = append(hs, fmt.Sprintf("client %d [%d,%d] %s -> accepted=%v", h.ClientId, h.Call, h.Return, h.Input.(pin).O, h.Output.(pout).Accepted))
				}
				_ = info
				run.Violation("upcast-registration:race-not-linearizable", fmt.Sprintf("after %v (+%d-edge private chains), the racing calls %v returned results that no sequential order of the same calls explains (e.g. both directions of a cycle accepted)", pre, heavy, hs), map[string]any{"pre": pre, "racing": hs, "gomaxprocs": procs[rep%len(procs)]})
			case porcupine.Unknown:
				run.Inconclusive("porcupine timed out")
			}
			overlap := false
			tail := history[len(history)-len(group):]
			for i := range tail {
				for j := i + 1; j < len(tail); j++ {
					if tail[i].Call < tail[j].Return && tail[j].Call < tail[i].Return {
						overlap = true
					}
				}
			}
			run.Case(fmt.Sprintf("%s|%v|%v|h%d|ov%v", tag, pre, group, heavy, overlap), overlap)
			run.Count("histories_checked_by_porcupine", 1)
			if overlap {
				run.Count("histories_with_overlapping_calls", 1)
			}
		}
	}
	heavies := []int{0, run.Scale(1500, 4000)}
	for _, a := range regs {
		for _, b := range regs {
			for _, h := range heavies {
				runGroup(nil, h, []op{a, b}, "pair")
			}
		}
		for _, o := range others {
			runGroup([]op{{K: "reg", From: "B", To: "C"}}, 0, []op{a, o}, "reg-vs-clear")
		}
	}
	// PRNG triples, sometimes after a pre-registered edge
	n := run.Scale(60, 600)
	for i := 0; i < n; i++ {
		r := rand.New(rand.NewPCG(uint64(run.Seed), uint64(i)))
		var pre []op
		if r.IntN(2) == 0 {
			pre = append(pre, regs[r.IntN(len(regs))])
		}
		grp := []op{regs[r.IntN(len(regs))], regs[r.IntN(len(regs))], regs[r.IntN(len(regs))]}
		if r.IntN(4) == 0 {
			grp[2] = others[r.IntN(len(others))]
		}
		runGroup(pre, []int{0, 800}[r.IntN(2)], grp, "triple")
	}
	run.Sample(map[string]any{"racing": []string{regs[0].String(), regs[2].String()}, "checked_with": "porcupine.CheckOperationsVerbose against the multigraph acceptance model"})
}

// ---------------------------------------------------------------------------------------------
// termination: every acyclic graph x every assignment of returned types

var errBudget = errors.New("verif: step budget exceeded")

type nA struct{}
type nB struct{}
type nC struct{}
type nD struct{}

func (nA) EventTypeName() string { return "A" }
func (nB) EventTypeName() string { return "B" }
func (nC) EventTypeName() string { return "C" }
func (nD) EventTypeName() string { return "D" }

func TestC16Termination(t *testing.T) {
	run := vk.New("C16", "termination")
	defer run.Finish()
	var cur string
	dog := watchdog.Start(20*time.Second, func(v watchdog.Verdict) {
		if v.Deadlock {
			run.Violation("upcast-apply:does-not-terminate", "ReplayWithUpcast / SubscribeWithReplay did not return: "+cur, map[string]any{"case": cur, "dump": v.Dump[:min(len(v.Dump), 8000)]})
		} else {
			run.Count("watchdog_slow_windows", 1)
			return
		}
		run.Finish()
		watchdog.Exit()
	})
	defer dog.Stop()
	// upcasters that look things up on the bus they serve: the first step of a chain reads the
	// history (a nested upcasting replay, a plain replay, or both) before it converts; applying
	// the chain still terminates with the composed result
	if run.Shard == 0 {
		for mode := 0; mode < 5; mode++ {
			cur = fmt.Sprintf("chain A -> B -> C whose first upcaster runs a nested replay (mode %d) on the same bus", mode)
			if mode >= 3 {
				cur = fmt.Sprintf("chain A -> B -> C whose first upcaster configures another bus (mode %d)", mode)
			}
			dog.Case(cur)
			store := ebu.NewMemoryStore()
			bus := ebu.New(ebu.WithStore(store))
			other := ebu.New(ebu.WithStore(ebu.NewMemoryStore())) // a second bus: its registry is its own
			depth, nestedSeen := 0, 0
			ebu.RegisterUpcastFunc(bus, "A", "B", func(d json.RawMessage) (json.RawMessage, string, error) {
				if depth == 0 {
					depth++
					if mode == 3 {
						ebu.RegisterUpcastFunc(other, "c16.other.a", "c16.other.b", func(d json.RawMessage) (json.RawMessage, string, error) { return d, "c16.other.b", nil })
						nestedSeen++
					} else if mode == 4 {
						other.ClearUpcasts()
						other.ClearUpcastsForType("A")
						nestedSeen++
					} else if mode != 1 {
						bus.ReplayWithUpcast(context.Background(), ebu.OffsetOldest, func(*ebu.StoredEvent) error { nestedSeen++; return nil })
					}
					if mode != 0 && mode < 3 {
						bus.Replay(context.Background(), ebu.OffsetOldest, func(*ebu.StoredEvent) error { nestedSeen++; return nil })
					}
					depth--
				}
				return d, "B", nil
			})
			ebu.RegisterUpcastFunc(bus, "B", "C", func(d json.RawMessage) (json.RawMessage, string, error) { return d, "C", nil })
			for _, n := range []string{"A", "C", "A"} {
				store.Append(context.Background(), &ebu.Event{Type: n, Data: json.RawMessage(`{}`)})
			}
			var types []string
			err := bus.ReplayWithUpcast(context.Background(), ebu.OffsetOldest, func(e *ebu.StoredEvent) error { types = append(types, e.Type); return nil })
			dog.Tick()
			if err != nil || fmt.Sprint(types) != "[C C C]" || nestedSeen == 0 {
				run.Violation("upcast-apply:upcaster-reading-history", fmt.Sprintf("%s: the outer replay returned %v and delivered types %v (want [C C C]); the nested replays delivered %d events", cur, err, types, nestedSeen), nil)
			}
			run.Case(cur, true)
		}
	}
	// a dead-letter policy: the upcast error handler appends every event whose upcast failed to the
	// log again (to be retried by a later run). An upcasting replay of a long log on a SQLite file
	// with default options still terminates: it delivers the log as it was when it began
	if run.Shard == 0 {
		cur = "1100 events whose upcaster fails, on a SQLite file; the error handler appends each failed event again"
		dog.Case(cur)
		scratch := os.Getenv("VERIF_SCRATCH")
		if scratch == "" {
			scratch = t.TempDir()
		}
		os.MkdirAll(scratch, 0o755)
		st, err := stores.Open("sqlite-file", scratch)
		if err != nil {
			t.Fatal(err)
		}
		const L = 1100
		for k := 1; k <= L; k++ {
			st.Store.Append(context.Background(), &ebu.Event{Type: "c16.legacy", Data: json.RawMessage(fmt.Sprintf(`{"n":%d}`, k)), Timestamp: time.Unix(int64(k), 0)})
		}
		reappended := 0
		bus := ebu.New(ebu.WithStore(st.Store), ebu.WithUpcastErrorHandler(func(typ string, d json.RawMessage, _ error) {
			if reappended < 20*L { // (bounded so that a replay that never ends cannot fill the disk)
				reappended++
				st.Store.Append(context.Background(), &ebu.Event{Type: typ, Data: d, Timestamp: time.Unix(1, 0)})
			}
		}))
		ebu.RegisterUpcastFunc(bus, "c16.legacy", "c16.current", func(json.RawMessage) (json.RawMessage, string, error) {
			return nil, "", errors.New("verif: this record cannot be converted")
		})
		rctx, rcancel := context.WithCancel(context.Background())
		seen := 0
		rerr := bus.ReplayWithUpcast(rctx, ebu.OffsetOldest, func(*ebu.StoredEvent) error {
			if seen++; seen > 4*L {
				rcancel() // far beyond the log's length: give up
			}
			return nil
		})
		rcancel()
		dog.Tick()
		if seen > 4*L || rerr != nil {
			run.Violation("upcast-apply:replay-feeds-on-its-own-dead-letters", fmt.Sprintf("%s: the replay had delivered %d events when it was given up (err %v); the log held %d when it began", cur, seen, rerr, L), nil)
		}
		run.Case(cur, true)
		st.Close()
		st.Remove()
	}
	// a registration or a clear that arrives while a chain is being applied waits for it (or not),
	// but applying the chain terminates with the whole chain either way
	if run.Shard == 0 {
		for round := 0; round < 12; round++ {
			cur = fmt.Sprintf("chain A -> B -> C -> D while another goroutine queues a registry change (round %d)", round)
			dog.Case(cur)
			store := ebu.NewMemoryStore()
			bus := ebu.New(ebu.WithStore(store))
			var wg sync.WaitGroup
			fires := 0 // (the first step queues a registry change every time it is called, up to 40 times)
			for k, e := range [][2]string{{"A", "B"}, {"B", "C"}, {"C", "D"}} {
				k, e := k, e
				ebu.RegisterUpcastFunc(bus, e[0], e[1], func(d json.RawMessage) (json.RawMessage, string, error) {
					if k == 0 && fires < 40 {
						fires++
						started := make(chan struct{})
						wg.Add(1)
						go func() {
							defer wg.Done()
							close(started)
							switch round % 3 {
							case 0:
								bus.ClearUpcastsForType("c16.unrelated")
							case 1:
								ebu.RegisterUpcastFunc(bus, "c16.x", "c16.y", func(d json.RawMessage) (json.RawMessage, string, error) { return d, "c16.y", nil })
							default:
								bus.ClearUpcastsForType("c16.unrelated")
								bus.ClearUpcastsForType("c16.unrelated2")
							}
						}()
						<-started
						for y := 0; y < 200; y++ {
							runtime.Gosched()
						}
						time.Sleep(time.Duration(round) * time.Millisecond)
					}
					return d, e[1], nil
				})
			}
			store.Append(context.Background(), &ebu.Event{Type: "A", Data: json.RawMessage(`{}`)})
			var types []string
			err := bus.ReplayWithUpcast(context.Background(), ebu.OffsetOldest, func(e *ebu.StoredEvent) error { types = append(types, e.Type); return nil })
			wg.Wait()
			dog.Tick()
			if err != nil || fmt.Sprint(types) != "[D]" || fires > 3 {
				run.Violation("upcast-apply:chain-with-queued-registry-change", fmt.Sprintf("%s: replay returned %v and delivered %v (want [D]); the first step of the chain was run %d times for one stored event", cur, err, types, fires), nil)
			}
			run.Case(cur, true)
		}
	}
	nNames := run.Scale(3, 4)
	names := []string{"A", "B", "C", "D"}[:nNames]
	var edges [][2]string
	for _, f := range names {
		for _, t := range names {
			if f != t {
				edges = append(edges, [2]string{f, t})
			}
		}
	}
	rets := append(append([]string{}, names...), "FRESH")
	idx := 0
	for mask := 1; mask < 1<<len(edges); mask++ {
		var es [][2]string
		for i, e := range edges {
			if mask>>i&1 == 1 {
				es = append(es, e)
			}
		}
		// reachable through the API = acyclic
		g := graph{}
		ok := true
		for _, e := range es {
			if !g.step(op{K: "reg", From: e[0], To: e[1]}) {
				ok = false
				break
			}
		}
		if !ok {
			continue
		}
		total := 1
		for range es {
			total *= len(rets)
		}
		limit := total
		if total > 3000 {
			limit = 3000 // larger assignment spaces are sampled (seeded)
		}
		for a := 0; a < limit; a++ {
			idx++
			if !run.Mine(idx) {
				continue
			}
			asg := a
			if total > limit {
				asg = int(run.GlobalRand(uint64(idx)).Uint64() % uint64(total))
			}
			assign := make([]string, len(es))
			x := asg
			differs := false
			for i := range es {
				assign[i] = rets[x%len(rets)]
				x /= len(rets)
				if assign[i] != es[i][1] {
					differs = true
				}
			}
			cur = fmt.Sprintf("edges %v returning %v", es, assign)
			dog.Case(cur)
			store := ebu.NewMemoryStore()
			bus := ebu.New(ebu.WithStore(store))
			budget := 10 * (len(names) + 1)
			calls := 0
			for i, e := range es {
				ret := assign[i]
				if err := ebu.RegisterUpcastFunc(bus, e[0], e[1], func(d json.RawMessage) (json.RawMessage, string, error) {
					calls++
					if calls > budget {
						return nil, "", errBudget
					}
					if idx%2 == 0 {
						// (every other case: an upcaster that stamps the payload it hands on - a hop
						// counter - so that no two payloads of a run are the same)
						return json.RawMessage(fmt.Sprintf(`{"hops":%d}`, calls)), ret, nil
					}
					return d, ret, nil
				}); err != nil {
					t.Fatalf("registration of an acyclic edge rejected: %v", err)
				}
			}
			for _, n := range names {
				store.Append(context.Background(), &ebu.Event{Type: n, Data: json.RawMessage(`{}`)})
			}
			exceeded := false
			delivered := 0
			for k := 0; k < len(names); k++ {
				calls = 0
			}
			calls = 0
			perEventMax := 0
			err := bus.ReplayWithUpcast(context.Background(), ebu.OffsetOldest, func(e *ebu.StoredEvent) error {
				delivered++
				if calls > perEventMax {
					perEventMax = calls
				}
				if calls > budget {
					exceeded = true
				}
				calls = 0
				return nil
			})
			dog.Tick()
			if exceeded || err != nil || delivered != len(names) {
				run.Violation("upcast-apply:step-budget-exceeded", fmt.Sprintf("registry %v with raw upcasters returning %v: upcasting one stored event invoked upcasters more than %d times (err=%v, delivered %d of %d)", es, assign, budget, err, delivered, len(names)), map[string]any{"edges": es, "returns": assign})
			}
			// the same log through typed replay subscriptions (one per name): their replay phase upcasts
			// every stored event too and has to terminate likewise
			perEvent := budget
			budget = perEvent * len(names)
			for si, sub := range []func() error{
				func() error { return ebu.SubscribeWithReplay(context.Background(), bus, "sA", func(nA) {}) },
				func() error { return ebu.SubscribeWithReplay(context.Background(), bus, "sB", func(nB) {}) },
				func() error { return ebu.SubscribeWithReplay(context.Background(), bus, "sC", func(nC) {}) },
				func() error { return ebu.SubscribeWithReplay(context.Background(), bus, "sD", func(nD) {}) },
			}[:len(names)] {
				calls = 0
				serr := sub()
				dog.Tick()
				if calls > budget {
					run.Violation("upcast-apply:step-budget-exceeded", fmt.Sprintf("registry %v with raw upcasters returning %v: the replay phase of SubscribeWithReplay for type %q invoked upcasters more than %d times for %d stored events (err=%v)", es, assign, names[si], budget, len(names), serr), map[string]any{"edges": es, "returns": assign, "subscribed": names[si]})
					break
				}
				run.Count("replay_subscriptions_over_upcast_registries", 1)
			}
			// whatever the upcasters returned, the registry is usable afterwards: further registrations
			// and clears return (nothing the replays did may keep it locked)
			cur = fmt.Sprintf("registry operations after the replays of: edges %v returning %v", es, assign)
			dog.Case(cur)
			if err := ebu.RegisterUpcastFunc(bus, "c16.after", "c16.after.v2", func(d json.RawMessage) (json.RawMessage, string, error) { return d, "c16.after.v2", nil }); err != nil {
				run.Violation("upcast-registration:rejected-must-accept", fmt.Sprintf("after replays over registry %v (returns %v) a fresh acyclic registration was rejected: %v", es, assign, err), nil)
			}
			bus.ClearUpcastsForType(names[0])
			bus.ClearUpcasts()
			dog.Tick()
			run.Case(cur, differs)
			run.Max("max_upcaster_calls_for_one_event", int64(perEventMax))
			if run.WantSample() && differs && len(es) >= 2 {
				run.Sample(map[string]any{"edges": es, "returned_types": assign, "max_calls_per_event": perEventMax})
			}
		}
	}
	// a one-shot upcast error handler that uninstalls itself from inside the callback
	if run.Shard == 0 {
		cur = "self-uninstalling upcast error handler"
		dog.Case(cur)
		store := ebu.NewMemoryStore()
		bus := ebu.New(ebu.WithStore(store))
		calls := 0
		bus.SetUpcastErrorHandler(func(string, json.RawMessage, error) {
			calls++
			bus.SetUpcastErrorHandler(nil)
		})
		ebu.RegisterUpcastFunc(bus, "A", "B", func(json.RawMessage) (json.RawMessage, string, error) {
			return nil, "", errors.New("verif: upcast fails")
		})
		store.Append(context.Background(), &ebu.Event{Type: "A", Data: json.RawMessage(`{}`)})
		store.Append(context.Background(), &ebu.Event{Type: "A", Data: json.RawMessage(`{}`)})
		n := 0
		err := bus.ReplayWithUpcast(context.Background(), ebu.OffsetOldest, func(*ebu.StoredEvent) error { n++; return nil })
		dog.Tick()
		if err != nil || n != 2 || calls != 1 {
			run.Violation("upcast-apply:error-handler-reentry", fmt.Sprintf("an upcast error handler that calls SetUpcastErrorHandler(nil) from inside the callback: replay err=%v, %d of 2 events, handler calls %d", err, n, calls), nil)
		}
		run.Case(cur, true)
	}
	run.Count("graph_assignment_pairs", int64(idx))
	run.Exhaustive(nNames == 3)
}
