//go:build verif

package c12

import (
	"context"
	"database/sql"
	"fmt"
	"os"
	"path/filepath"
	"testing"

	ebu "github.com/jilio/ebu"
	"github.com/jilio/ebu/stores/sqlite"

	"verif/harness/internal/faultsql"
	"verif/harness/internal/vk"
)

type prOrder struct{ N int }
type prNoise struct{ N int }

// TestC12PrunedLog: histories on a SQLite file whose oldest / some middle rows were deleted by a
// retention job between two lives of the process (positions are never reused, so the sequence has
// holes). A subscription id attaches after the pruning, sees live events, the process restarts and
// the id attaches again: every remaining event of its type is delivered exactly once, in log order.
func TestC12PrunedLog(t *testing.T) {
	run := vk.New("C12", "pruned-log")
	defer run.Finish()
	scratch := os.Getenv("VERIF_SCRATCH")
	if scratch == "" {
		scratch = t.TempDir()
	}
	os.MkdirAll(scratch, 0o755)
	n := run.Scale(60, 2000)
	ctx := context.Background()
	restoreOpener := faultsql.Install()
	defer restoreOpener()
	for i := 0; i < n; i++ {
		if !run.Mine(i) {
			continue
		}
		rng := run.GlobalRand(uint64(i))
		path := filepath.Join(scratch, fmt.Sprintf("c12-pruned-%d-%d.db", os.Getpid(), i))
		sb := []int{0, 1, 2, 3, 4}[i%5]
		open := func() (*sqlite.SQLiteStore, *ebu.EventBus) {
			var opts []sqlite.Option
			if sb > 0 {
				opts = append(opts, sqlite.WithStreamBatchSize(sb))
			}
			st, err := sqlite.New(path, opts...)
			if err != nil {
				t.Fatal(err)
			}
			return st, ebu.New(ebu.WithStore(st))
		}
		// life 1: publishes only (orders at odd positions, noise at even ones); at most 4 orders so
		// that all positions of this history stay single-digit (ordering beyond "9": recorded finding)
		total := 2 + rng.IntN(2)
		st, bus := open()
		for k := 1; k <= total; k++ {
			ebu.Publish(bus, prOrder{N: k})
			ebu.Publish(bus, prNoise{N: k})
		}
		st.Close()
		// retention job
		var drop []int
		var want []int
		for pos := 1; pos <= 2*total; pos++ {
			if rng.IntN(3) == 0 {
				drop = append(drop, pos)
			} else if pos%2 == 1 {
				want = append(want, (pos+1)/2)
			}
		}
		db, err := sql.Open("sqlite", "file:"+path)
		if err != nil {
			t.Fatal(err)
		}
		for _, pos := range drop {
			if _, err := db.Exec("DELETE FROM events WHERE position = ?", pos); err != nil {
				t.Fatal(err)
			}
		}
		db.Close()
		// life 2: the id attaches, one live event; life 3: attaches again, one more live event
		var got []int
		for life := 2; life <= 3; life++ {
			st, bus = open()
			if err := ebu.SubscribeWithReplay(ctx, bus, "orders", func(o prOrder) { got = append(got, o.N) }); err != nil {
				run.Violation("resume:subscribe-error-on-pruned-log", fmt.Sprintf("SubscribeWithReplay on a pruned SQLite log returned %v", err), map[string]any{"case": i})
			}
			ebu.Publish(bus, prOrder{N: 100 + life})
			want = append(want, 100+life)
			st.Close()
			if life == 2 && i%2 == 0 {
				// a life in which the lookup of the saved position fails while its row is being
				// read: the id cannot attach (or attaches at its saved position) - nothing that
				// was already handled is handled again
				st, bus = open()
				faultsql.Set(faultsql.Plan{Match: "subscription_positions", QueryN: 0, FailRow: 1})
				serr := ebu.SubscribeWithReplay(ctx, bus, "orders", func(o prOrder) { got = append(got, o.N) })
				_, fired := faultsql.Stats()
				faultsql.Set(faultsql.Plan{})
				run.Count("lives_with_a_failing_position_lookup", int64(fired))
				if serr == nil && fired > 0 {
					run.Count("attached_despite_the_failing_lookup", 1)
				}
				st.Close()
			}
		}
		if fmt.Sprint(got) != fmt.Sprint(want) {
			run.Violation("resume:pruned-log-not-exactly-once-in-order", fmt.Sprintf("SQLite log (stream batch size %d) of %d orders and %d noise events with the rows at positions %v deleted before the subscription first attached: over two lives the subscription received %v, the remaining orders plus the live ones are %v", sb, total, total, drop, got, want),
				map[string]any{"case": i, "stream_batch": sb, "deleted_positions": drop, "delivered": got, "want": want})
		}
		run.Case(fmt.Sprintf("sb%d total%d drop%d", sb, total, len(drop)), len(drop) > 0)
		run.Count("deliveries_checked", int64(len(got)))
		os.Remove(path)
		os.Remove(path + "-wal")
		os.Remove(path + "-shm")
	}
}
