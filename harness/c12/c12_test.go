//go:build verif

// C12 — A resumable subscription sees each event of its type once across restarts.
package c12

import (
	"context"
	"fmt"
	"math/rand/v2"
	"os"
	"reflect"
	"runtime"
	"strings"
	"sync"
	"sync/atomic"
	"testing"
	"time"

	ebu "github.com/jilio/ebu"

	"verif/harness/internal/stores"
	"verif/harness/internal/vk"
)

// tA carries optional fields that are present for some ids only: an event decoded afresh does not
// inherit anything from the one decoded before it.
type tA struct {
	ID   int
	Opt  string         `json:"opt,omitempty"`
	Tags map[string]int `json:"tags,omitempty"`
}

func mkA(id int) tA {
	e := tA{ID: id}
	if id%2 == 0 {
		e.Opt = fmt.Sprintf("o%d", id)
	}
	if id%3 == 0 {
		e.Tags = map[string]int{fmt.Sprintf("t%d", id): id}
	}
	return e
}

func sameA(e tA) bool {
	w := mkA(e.ID)
	return e.Opt == w.Opt && len(e.Tags) == len(w.Tags) && (len(w.Tags) == 0 || e.Tags[fmt.Sprintf("t%d", e.ID)] == e.ID)
}

type tB struct{ ID int }
type tC struct{ ID int }

// further shapes of the second subscribed type (chosen per history from the number of steps): a
// pointer event whose type name comes from a pointer-receiver method, and a value event with a
// custom name
type tBP struct{ ID int }

func (*tBP) EventTypeName() string { return "c12.order.v1" }

type tBN struct{ ID int }

func (tBN) EventTypeName() string { return "c12.invoice" }

type step struct {
	K string `json:"k"` // pub, sub, restart
	T int    `json:"t,omitempty"`
	S int    `json:"s,omitempty"`
}

type faultSpec struct {
	Kind string `json:"kind"` // none, crash, fail, interleave
	K    int    `json:"k"`
}

// subscription ids and their event types: two ids share a type, one id has its own, type 2 has none
var subType = []int{0, 0, 1}

type rec struct {
	K     string `json:"k"` // append, deliver, save, restart, crash
	S     int    `json:"s,omitempty"`
	EID   int    `json:"eid,omitempty"`
	T     int    `json:"t,omitempty"`
	Off   string `json:"off,omitempty"`
	OK    bool   `json:"ok,omitempty"`
	Epoch int    `json:"epoch"`
	Fgn   bool   `json:"foreign,omitempty"` // event published while a SubscribeWithReplay was running
	N     int    `json:"n,omitempty"`       // store operation index (save records)
}

type keptPtr struct {
	e  *tBP
	id int
}

type world struct {
	badPayload string
	kept       []keptPtr
	hookMode   int // 0 none, 1 a before-hook that panics for some events, 2 one that publishes a further event first
	subCancel  map[int]context.CancelFunc
	shapeB     int // 0 plain struct, 1 pointer event with pointer-receiver TypeNamer, 2 value TypeNamer
	kind       string
	under      *stores.Opened
	subMem     *ebu.MemoryStore // separate subscription store, when used
	faults     *stores.Faults
	bus        *ebu.EventBus
	epoch      int
	log        []rec
	nextID     int
	subbed     map[int]bool
	inSub      int // subscription id whose SubscribeWithReplay is running (-1 none)
	opsSeen    int
	foreign    map[int]bool
	nestDepth  int
}

func (w *world) newBus() {
	opts := []ebu.Option{ebu.WithStore(stores.Wrap(w.under.Store, w.faults))}
	switch {
	case w.subMem != nil:
		opts = append(opts, ebu.WithSubscriptionStore(stores.WrapSub(w.subMem, w.faults)))
	case w.under.Sub == nil:
		panic("store without subscription store")
	}
	if w.hookMode != 0 {
		// a before-publish hook that vetoes some events by panicking (mode 1), or that publishes a
		// further event of the same type before the one being published (mode 2)
		opts = append(opts, ebu.WithBeforePublish(func(_ reflect.Type, e any) {
			id, typ := -1, -1
			switch x := e.(type) {
			case tA:
				id, typ = x.ID, 0
			case tB:
				id, typ = x.ID, 1
			case *tBP:
				id, typ = x.ID, 1
			case tBN:
				id, typ = x.ID, 1
			case tC:
				id, typ = x.ID, 2
			}
			if id < 0 || w.faults.IsDead() {
				return
			}
			switch {
			case w.hookMode == 1 && id%5 == 0:
				panic("c12: the hook rejects this event")
			case w.hookMode == 2 && id%4 == 0 && w.nestDepth == 0 && w.inSub < 0:
				w.nestDepth++
				w.publish(typ, false)
				w.nestDepth--
			}
		}))
	}
	w.bus = ebu.New(opts...)
	w.subbed = map[int]bool{}
	w.epoch++
}

// harvest turns new store operations into history records.
func (w *world) harvest(eid, typ int) {
	ops := w.faults.Snapshot()
	for _, op := range ops[w.opsSeen:] {
		if op.Dead {
			continue
		}
		switch op.Kind {
		case "append":
			if !op.Err {
				w.log = append(w.log, rec{K: "append", EID: eid, T: typ, Off: op.Res, OK: true, Epoch: w.epoch, Fgn: w.foreign[eid]})
			}
		}
	}
	w.opsSeen = len(ops)
}

func (w *world) publish(typ int, foreign bool) {
	w.nextID++
	id := w.nextID
	if foreign {
		w.foreign[id] = true
	}
	// appends of this publish are harvested right after it (single goroutine)
	before := len(w.faults.Snapshot())
	func() {
		defer func() {
			// a hook that rejects the event by panicking: the publisher carries on
			if r := recover(); r != nil && w.hookMode != 1 {
				panic(r)
			}
		}()
		switch typ {
		case 0:
			ebu.Publish(w.bus, mkA(id))
		case 1:
			switch w.shapeB {
			case 1:
				ebu.Publish(w.bus, &tBP{id})
			case 2:
				ebu.Publish(w.bus, tBN{id})
			default:
				ebu.Publish(w.bus, tB{id})
			}
		default:
			ebu.Publish(w.bus, tC{id})
		}
	}()
	ops := w.faults.Snapshot()
	for _, op := range ops[before:] {
		// this publish's own append carries its id (appends of publishes made from inside its hooks
		// and handlers carry theirs)
		if op.Kind == "append" && !op.Dead && (strings.Contains(op.Arg, fmt.Sprintf(`{"ID":%d}`, id)) || strings.Contains(op.Arg, fmt.Sprintf(`{"ID":%d,`, id))) {
			if !op.Err {
				w.log = append(w.log, rec{K: "append", EID: id, T: typ, Off: op.Res, OK: true, Epoch: w.epoch, Fgn: foreign})
			}
			break
		}
	}
}

func (w *world) deliver(s, id, typ int) {
	if w.faults.IsDead() {
		return // the process died before this point: nothing after the crash happened
	}
	w.log = append(w.log, rec{K: "deliver", S: s, EID: id, T: typ, Epoch: w.epoch})
}

// maybeNested: in the live phase a handler sometimes publishes a further event of its own type
// from inside the delivery (same goroutine).
func (w *world) maybeNested(s, id, typ int) {
	// only the subscription that is alone on its event type: with two subscriptions of one type a
	// nested synchronous publish reaches the second subscriber before the outer event does, which is
	// how re-entrant synchronous dispatch works and is outside this property's histories
	if w.inSub >= 0 || w.nestDepth > 0 || id%4 != 0 || w.faults.IsDead() || s != 2 {
		return
	}
	w.nestDepth++
	w.publish(typ, false)
	w.nestDepth--
}

func (w *world) subscribe(s int) error {
	w.inSub = s
	defer func() { w.inSub = -1 }()
	id := fmt.Sprintf("sub-%d", s)
	ctx, cancel := context.WithCancel(context.Background())
	if w.subCancel == nil {
		w.subCancel = map[int]context.CancelFunc{}
	}
	w.subCancel[s] = cancel
	var err error
	switch subType[s] {
	case 0:
		err = ebu.SubscribeWithReplay(ctx, w.bus, id, func(e tA) {
			if !sameA(e) && w.badPayload == "" {
				w.badPayload = fmt.Sprintf("sub-%d received event %d as %+v, it was published as %+v", s, e.ID, e, mkA(e.ID))
			}
			w.deliver(s, e.ID, 0)
			w.maybeNested(s, e.ID, 0)
		})
	case 1:
		switch w.shapeB {
		case 1:
			err = ebu.SubscribeWithReplay(ctx, w.bus, id, func(e *tBP) {
				w.kept = append(w.kept, keptPtr{e, e.ID}) // a consumer that keeps the events it was given
				w.deliver(s, e.ID, 1)
				w.maybeNested(s, e.ID, 1)
			})
		case 2:
			err = ebu.SubscribeWithReplay(ctx, w.bus, id, func(e tBN) { w.deliver(s, e.ID, 1); w.maybeNested(s, e.ID, 1) })
		default:
			err = ebu.SubscribeWithReplay(ctx, w.bus, id, func(e tB) { w.deliver(s, e.ID, 1); w.maybeNested(s, e.ID, 1) })
		}
	}
	return err
}

type result struct {
	payload string // a delivered event whose content is not what was published
	log     []rec
	ops     []stores.OpRec
	nOps    int
	subOp   map[int]bool // op indices that happened inside a SubscribeWithReplay call
}

func openWorld(kind, scratch string) (*world, error) {
	w := &world{kind: kind, faults: stores.NewFaults(), inSub: -1, foreign: map[int]bool{}}
	base := kind
	if strings.HasSuffix(kind, "+memsub") {
		base = strings.TrimSuffix(kind, "+memsub")
		w.subMem = ebu.NewMemoryStore()
	}
	u, err := stores.Open(base, scratch)
	if err != nil {
		return nil, err
	}
	w.under = u
	return w, nil
}

func execute(kind, scratch string, steps []step, f faultSpec) (*result, error) {
	w, err := openWorld(kind, scratch)
	if w != nil {
		w.shapeB = len(steps) % 3
		w.hookMode = (len(steps) / 3) % 3
	}
	if err != nil {
		return nil, err
	}
	defer func() { w.under.Close(); w.under.Remove() }()
	res := &result{subOp: map[int]bool{}}
	saveHook := func(op stores.OpRec) {
		if w.inSub >= 0 {
			res.subOp[op.N] = true
		}
		if op.Kind == "save" {
			// recorded in the same timeline as the deliveries (one goroutine); OK is filled in afterwards
			id, off, _ := strings.Cut(op.Arg, "=")
			var sid int
			fmt.Sscanf(id, "sub-%d", &sid)
			w.log = append(w.log, rec{K: "save", S: sid, Off: off, N: op.N, Epoch: w.epoch})
		}
	}
	w.faults.OnOp = saveHook
	switch f.Kind {
	case "crash":
		w.faults.Plan[f.K] = stores.Crash
	case "fail":
		w.faults.Plan[f.K] = stores.Fail
	case "ctx-ends":
		// the context the running SubscribeWithReplay was called with ends at this store operation
		w.faults.Plan[f.K] = stores.Gate
		w.faults.OnGate = func(op stores.OpRec) {
			if w.inSub >= 0 {
				if c := w.subCancel[w.inSub]; c != nil {
					c()
				}
			}
		}
	case "interleave":
		w.faults.Plan[f.K] = stores.Gate
		w.faults.OnGate = func(op stores.OpRec) {
			if w.inSub >= 0 {
				// another publisher gets in at this point of the running SubscribeWithReplay
				w.publish(subType[w.inSub], true)
			}
		}
	}
	w.newBus()
	for _, st := range steps {
		switch st.K {
		case "pub":
			w.publish(st.T, false)
		case "sub":
			if !w.subbed[st.S] {
				if err := w.subscribe(st.S); err == nil {
					w.subbed[st.S] = true
				}
			}
		case "cancel":
			// the context this subscription was made with ends (its owner went away): the other ids —
			// also the one sharing its event type — are not affected
			if c := w.subCancel[st.S]; c != nil && w.subbed[st.S] {
				c()
			}
		case "restart":
			w.log = append(w.log, rec{K: "restart", Epoch: w.epoch})
			w.newBus()
		}
		if w.faults.IsDead() {
			w.log = append(w.log, rec{K: "crash", Epoch: w.epoch})
			w.faults.Revive()
			w.faults.ClearPlan()
			w.newBus()
		}
	}
	// saves, from the store log
	res.nOps = w.faults.Ops()
	// final drain: restart, no faults, every id resubscribes
	w.faults.ClearPlan()
	w.faults.Revive()
	w.log = append(w.log, rec{K: "restart", Epoch: w.epoch})
	w.newBus()
	for s := range subType {
		if err := w.subscribe(s); err != nil {
			w.log = append(w.log, rec{K: "drain-error", S: s, Off: err.Error(), Epoch: w.epoch})
		}
	}
	res.log = w.log
	res.payload = w.badPayload
	for _, k := range w.kept {
		if k.e.ID != k.id && res.payload == "" {
			res.payload = fmt.Sprintf("an event delivered as #%d (kept by the handler) later reads as #%d: deliveries share one value", k.id, k.e.ID)
		}
	}
	res.ops = w.faults.Snapshot()
	byN := map[int]stores.OpRec{}
	for _, op := range res.ops {
		if !op.Dead {
			byN[op.N] = op
		}
	}
	for i := range res.log {
		if res.log[i].K == "save" {
			op, ok := byN[res.log[i].N]
			res.log[i].OK = ok && op.Kind == "save" && !op.Err
		}
	}
	return res, nil
}

// check evaluates the clauses of the property on one executed history.
func check(r *result, f faultSpec, durable bool) (sig, desc string) {
	if r.payload != "" {
		return "resume:delivered-event-differs-from-published", r.payload
	}
	// position of every appended event, in log order; offsets -> position
	pos := map[string]int{"": 0}
	evPos := map[int]int{}
	evType := map[int]int{}
	foreign := map[int]bool{}
	n := 0
	for _, op := range r.ops { // the store's own order of successful appends
		if op.Kind == "append" && !op.Err && !op.Dead && op.Res != "" {
			n++
			pos[op.Res] = n
		}
	}
	for _, x := range r.log {
		if x.K == "append" {
			evPos[x.EID] = pos[x.Off]
			evType[x.EID] = x.T
			foreign[x.EID] = x.Fgn
		}
	}
	synthetic := false
	for _, x := range r.log {
		if x.K == "save" {
			if _, known := pos[x.Off]; !known {
				synthetic = true
			}
		}
	}
	kf := func(rule string, involvesForeign bool) string {
		switch {
		case durable && synthetic:
			return "durable:resume-from-synthetic-event-offset"
		case involvesForeign && f.Kind == "interleave":
			return "handover:event-published-during-subscribe:" + rule
		}
		return "resume:" + rule
	}
	// one timeline: deliveries and saves in the order they happened
	for s := range subType {
		count := map[int]int{}
		var firsts []int
		savedMax := 0
		for _, x := range r.log {
			if x.S != s {
				continue
			}
			if x.K == "save" {
				p, known := pos[x.Off]
				if !x.OK || !known {
					continue
				}
				// (e) the saved offset never moves backwards
				if p < savedMax {
					return kf("saved-offset-moved-backwards", false), fmt.Sprintf("sub-%d saved offset %q (log position %d) after position %d had been saved", s, x.Off, p, savedMax)
				}
				savedMax = p
				continue
			}
			if x.K != "deliver" {
				continue
			}
			if _, inLog := evPos[x.EID]; !inLog {
				continue // its append failed: not a persisted event
			}
			if evType[x.EID] != subType[s] || x.T != subType[s] {
				return kf("wrong-type", foreign[x.EID]), fmt.Sprintf("sub-%d received event %d of another type", s, x.EID)
			}
			count[x.EID]++
			if count[x.EID] == 1 {
				firsts = append(firsts, x.EID)
			} else if savedMax >= evPos[x.EID] {
				// (d) only an event whose position had not yet been saved can be delivered again
				return kf("redelivered-after-save", foreign[x.EID]), fmt.Sprintf("sub-%d received event %d (log position %d) again although an offset at position %d had been saved successfully before", s, x.EID, evPos[x.EID], savedMax)
			}
		}
		// (a) nothing lost
		for eid, p := range evPos {
			if evType[eid] == subType[s] && count[eid] == 0 {
				return kf("event-lost", foreign[eid]), fmt.Sprintf("sub-%d never received persisted event %d (log position %d), not even after the final restart and drain", s, eid, p)
			}
		}
		// (b) exactly once without faults - and without a store operation having failed of its own accord
		// (a save rejected because the context the subscription was made with has ended is a failed save
		// like any other: clause (d) above governs what may be delivered again)
		opFailed := false
		for _, op := range r.ops {
			if op.Err && !op.Dead {
				opFailed = true
			}
		}
		// a store operation that fails of its own accord for another reason than an ended context,
		// in a history without any injected fault, is the store refusing a legitimate call
		if f.Kind == "none" {
			for _, op := range r.ops {
				if op.Own != "" && !strings.Contains(op.Own, "context") {
					return kf("store-operation-failed-without-fault", false), fmt.Sprintf("fault-free history: store operation #%d %s(%s) failed: %s", op.N, op.Kind, op.Arg, op.Own)
				}
			}
		}
		if f.Kind == "none" && !opFailed {
			for eid, c := range count {
				if c != 1 {
					return kf("duplicate-without-fault", foreign[eid]), fmt.Sprintf("fault-free history: sub-%d received event %d %d times", s, eid, c)
				}
			}
		}
		// (c) first occurrences in log order
		for i := 1; i < len(firsts); i++ {
			if evPos[firsts[i]] < evPos[firsts[i-1]] {
				return kf("out-of-log-order", foreign[firsts[i]] || foreign[firsts[i-1]]), fmt.Sprintf("sub-%d received event %d (position %d) for the first time after event %d (position %d)", s, firsts[i], evPos[firsts[i]], firsts[i-1], evPos[firsts[i-1]])
			}
		}
	}
	for _, x := range r.log {
		if x.K == "drain-error" {
			return kf("drain-subscribe-failed", false), fmt.Sprintf("SubscribeWithReplay of sub-%d failed in the fault-free final run: %s", x.S, x.Off)
		}
	}
	return "", ""
}

func genHistory(r *rand.Rand) []step {
	n := 8 + r.IntN(25)
	var st []step
	for i := 0; i < n; i++ {
		x := r.IntN(100)
		switch {
		case x < 55:
			st = append(st, step{K: "pub", T: []int{0, 0, 1, 1, 2}[r.IntN(5)]})
		case x < 86:
			st = append(st, step{K: "sub", S: r.IntN(3)})
		case x < 89:
			st = append(st, step{K: "cancel", S: r.IntN(3)})
		default:
			st = append(st, step{K: "restart"})
		}
	}
	return st
}

func shape(steps []step) string {
	var b strings.Builder
	for _, s := range steps {
		switch s.K {
		case "pub":
			b.WriteString(fmt.Sprintf("p%d", s.T))
		case "sub":
			b.WriteString(fmt.Sprintf("s%d", s.S))
		case "cancel":
			b.WriteString(fmt.Sprintf("c%d", s.S))
		default:
			b.WriteString("R")
		}
	}
	return b.String()
}

func TestC12(t *testing.T) {
	run := vk.New("C12", "resume")
	defer run.Finish()
	scratch := os.Getenv("VERIF_SCRATCH")
	if scratch == "" {
		scratch = t.TempDir()
	}
	type cfg struct {
		kind string
		n    int
	}
	cfgs := []cfg{{"memory", run.Scale(10, 120)}, {"memory+memsub", run.Scale(6, 60)}, {"memory-paged+memsub", run.Scale(6, 60)}, {"memory-capped+memsub", run.Scale(5, 50)}, {"sqlite-file", run.Scale(1, 8)}, {"sqlite-batch2", run.Scale(1, 6)}, {"durable+memsub", run.Scale(1, 4)}, {"sqlite-file+memsub", run.Scale(2, 6)}}
	caseNo := 0
	for _, c := range cfgs {
		for h := 0; h < c.n; h++ {
			caseNo++
			rng := run.Rand(uint64(caseNo))
			steps := genHistory(rng)
			if strings.HasPrefix(c.kind, "sqlite") || strings.HasPrefix(c.kind, "durable") {
				if len(steps) > 14 {
					steps = steps[:14]
				}
			}
			if strings.HasPrefix(c.kind, "sqlite") && h == 0 {
				// a live subscription over a log that grows past nine events, then restarts (unpadded offsets)
				steps = []step{{K: "sub", S: 0}}
				for k := 0; k < 12; k++ {
					steps = append(steps, step{K: "pub", T: 0})
				}
				steps = append(steps, step{K: "restart"}, step{K: "sub", S: 0}, step{K: "pub", T: 0}, step{K: "pub", T: 0}, step{K: "restart"}, step{K: "sub", S: 0}, step{K: "sub", S: 1})
			}
			durable := strings.HasPrefix(c.kind, "durable")
			base, err := execute(c.kind, scratch, steps, faultSpec{Kind: "none"})
			if err != nil {
				t.Fatalf("execute: %v", err)
			}
			report := func(f faultSpec, r *result) {
				sig, desc := check(r, f, durable)
				hasRestart := strings.Contains(shape(steps), "R")
				nontriv := hasRestart
				if f.Kind != "none" && f.K < len(base.ops) {
					k := base.ops[f.K].Kind
					nontriv = nontriv || k == "save" || k == "append" || f.Kind == "interleave"
				}
				run.Case(fmt.Sprintf("%s|%s|%s@%d", c.kind, shape(steps), f.Kind, f.K), nontriv)
				if sig != "" {
					run.Violation(sig, fmt.Sprintf("[%s, %s at store op %d] %s", c.kind, f.Kind, f.K, desc), map[string]any{"store": c.kind, "steps": steps, "fault": f, "history": r.log, "store_ops": r.ops})
				}
			}
			report(faultSpec{Kind: "none"}, base)
			run.Count("fault_free_histories", 1)
			run.Count("store_ops_in_fault_free_runs", int64(base.nOps))
			if h == 0 && run.WantSample() {
				run.Sample(map[string]any{"store": c.kind, "steps": steps, "store_ops": base.nOps, "history_len": len(base.log)})
			}
			for k := 0; k < base.nOps; k++ {
				for _, kind := range []string{"crash", "fail", "interleave", "ctx-ends"} {
					if (kind == "interleave" || kind == "ctx-ends") && !base.subOp[k] {
						continue
					}
					f := faultSpec{Kind: kind, K: k}
					r, err := execute(c.kind, scratch, steps, f)
					if err != nil {
						t.Fatalf("execute: %v", err)
					}
					report(f, r)
					run.Count("runs_"+kind, 1)
				}
			}
		}
	}
}

// ---------------------------------------------------------------------------------------------
// concurrent live publishers against a Sequential replay subscription: with the handler, the read
// of the bus's last offset and the save serialised per subscription, the saved offset must be
// monotonic whatever the publishers' interleaving (clause "never moves backwards").

type lateStore struct {
	inner *ebu.MemoryStore
	seed  uint64
	ctr   atomic.Uint64
	saves []string // "id=offset" in call order (guarded by mu)
	mu    sync.Mutex
}

func (s *lateStore) Append(ctx context.Context, e *ebu.Event) (ebu.Offset, error) {
	off, err := s.inner.Append(ctx, e)
	// the append is in the log but has not returned yet: widen this window
	n := s.ctr.Add(1)
	x := (n*0x9E3779B97F4A7C15 ^ s.seed) * 0xBF58476D1CE4E5B9
	switch (x >> 33) % 5 {
	case 0:
		runtime.Gosched()
	case 1:
		time.Sleep(time.Duration((x>>40)%60) * time.Microsecond)
	case 2:
		for i := 0; i < int((x>>40)%2000); i++ {
			_ = i * i
		}
	}
	return off, err
}
func (s *lateStore) Read(ctx context.Context, from ebu.Offset, limit int) ([]*ebu.StoredEvent, ebu.Offset, error) {
	return s.inner.Read(ctx, from, limit)
}
func (s *lateStore) SaveOffset(ctx context.Context, id string, off ebu.Offset) error {
	s.mu.Lock()
	s.saves = append(s.saves, id+"="+string(off))
	s.mu.Unlock()
	return s.inner.SaveOffset(ctx, id, off)
}
func (s *lateStore) LoadOffset(ctx context.Context, id string) (ebu.Offset, error) {
	return s.inner.LoadOffset(ctx, id)
}

func TestC12Concurrent(t *testing.T) {
	run := vk.New("C12", "concurrent-live")
	defer run.Finish()
	if run.Shard == 0 {
		parkedPublisher(run)
		reattachedID(run)
		publishContextEndsInHandler(run)
		scratch := os.Getenv("VERIF_SCRATCH")
		if scratch == "" {
			scratch = t.TempDir()
		}
		os.MkdirAll(scratch, 0o755)
		overlapOnFileStore(run, scratch)
	}
	n := run.Scale(150, 5000)
	procs := []int{2, 4, 16, 1}
	defer runtime.GOMAXPROCS(runtime.GOMAXPROCS(0))
	for i := 0; i < n; i++ {
		rng := run.Rand(uint64(i))
		runtime.GOMAXPROCS(procs[i%len(procs)])
		st := &lateStore{inner: ebu.NewMemoryStore(), seed: rng.Uint64()}
		bus := ebu.New(ebu.WithStore(st))
		var mu sync.Mutex
		got := map[int]int{}
		if err := ebu.SubscribeWithReplay(context.Background(), bus, "seq", func(e tA) {
			mu.Lock()
			got[e.ID]++
			mu.Unlock()
		}, ebu.Sequential()); err != nil {
			t.Fatal(err)
		}
		P := 2 + rng.IntN(5)
		E := 2 + rng.IntN(8)
		var wg sync.WaitGroup
		start := make(chan struct{})
		for p := 0; p < P; p++ {
			wg.Add(1)
			go func(p int) {
				defer wg.Done()
				<-start
				for k := 0; k < E; k++ {
					ebu.Publish(bus, tA{ID: p*100 + k})
				}
			}(p)
		}
		if i%2 == 1 {
			// other subscription ids attach (and replay the growing log) while the publishers run:
			// different ids progress independently - the position saved for "seq" is not theirs to move
			wg.Add(1)
			go func() {
				defer wg.Done()
				<-start
				for j := 0; j < 3; j++ {
					ebu.SubscribeWithReplay(context.Background(), bus, fmt.Sprintf("late-%d", j), func(tA) { runtime.Gosched() }, ebu.Sequential())
				}
			}()
		}
		close(start)
		wg.Wait()
		bus.Wait()
		witness := map[string]any{"publishers": P, "events_each": E, "gomaxprocs": procs[i%len(procs)], "saves_in_call_order": st.saves}
		prev := ebu.Offset("")
		for _, sv := range st.saves {
			sid, off, _ := strings.Cut(sv, "=")
			if sid != "seq" {
				continue
			}
			if ebu.Offset(off) < prev {
				run.Violation("resume:saved-offset-moved-backwards-under-concurrent-publishers", fmt.Sprintf("a Sequential replay subscription saved offset %s after %s with %d concurrent publishers", off, prev, P), witness)
				break
			}
			prev = ebu.Offset(off)
		}
		for p := 0; p < P; p++ {
			for k := 0; k < E; k++ {
				if got[p*100+k] != 1 {
					run.Violation("resume:live-delivery-count", fmt.Sprintf("event %d delivered %d times to the live subscription", p*100+k, got[p*100+k]), witness)
				}
			}
		}
		// restart: nothing at or below the saved position may come again, nothing above it may be lost
		saved, _ := st.inner.LoadOffset(context.Background(), "seq")
		bus2 := ebu.New(ebu.WithStore(st))
		again := 0
		ebu.SubscribeWithReplay(context.Background(), bus2, "seq", func(e tA) { again++ })
		evs, _, _ := st.inner.Read(context.Background(), saved, 0)
		if again != len(evs) {
			run.Violation("resume:restart-after-concurrent-publishers", fmt.Sprintf("after restart %d events were replayed, %d lie after the saved offset %s", again, len(evs), saved), witness)
		}
		run.Case(fmt.Sprintf("P%d E%d p%d", P, E, procs[i%len(procs)]), P >= 2)
		run.Count("saves_checked", int64(len(st.saves)))
		if i == 0 {
			run.Sample(witness)
		}
	}
}
