//go:build verif

// C12 — A resumable subscription sees each event of its type once across restarts.
package c12

import (
	"context"
	"fmt"
	"math/rand/v2"
	"os"
	"strings"
	"testing"

	ebu "github.com/jilio/ebu"

	"verif/harness/internal/stores"
	"verif/harness/internal/vk"
)

type tA struct{ ID int }
type tB struct{ ID int }
type tC struct{ ID int }

type step struct {
	K string `json:"k"` // pub, sub, restart
	T int    `json:"t,omitempty"`
	S int    `json:"s,omitempty"`
}

type faultSpec struct {
	Kind string `json:"kind"` // none, crash, fail, interleave
	K    int    `json:"k"`
}

// subscription ids and their event types: two ids share a type, one id has its own, type 2 has none
var subType = []int{0, 0, 1}

type rec struct {
	K     string `json:"k"` // append, deliver, save, restart, crash
	S     int    `json:"s,omitempty"`
	EID   int    `json:"eid,omitempty"`
	T     int    `json:"t,omitempty"`
	Off   string `json:"off,omitempty"`
	OK    bool   `json:"ok,omitempty"`
	Epoch int    `json:"epoch"`
	Fgn   bool   `json:"foreign,omitempty"` // event published while a SubscribeWithReplay was running
	N     int    `json:"n,omitempty"`       // store operation index (save records)
}

type world struct {
	kind    string
	under   *stores.Opened
	subMem  *ebu.MemoryStore // separate subscription store, when used
	faults  *stores.Faults
	bus     *ebu.EventBus
	epoch   int
	log     []rec
	nextID  int
	subbed  map[int]bool
	inSub   int // subscription id whose SubscribeWithReplay is running (-1 none)
	opsSeen int
	foreign map[int]bool
}

func (w *world) newBus() {
	opts := []ebu.Option{ebu.WithStore(stores.Wrap(w.under.Store, w.faults))}
	switch {
	case w.subMem != nil:
		opts = append(opts, ebu.WithSubscriptionStore(stores.WrapSub(w.subMem, w.faults)))
	case w.under.Sub == nil:
		panic("store without subscription store")
	}
	w.bus = ebu.New(opts...)
	w.subbed = map[int]bool{}
	w.epoch++
}

// harvest turns new store operations into history records.
func (w *world) harvest(eid, typ int) {
	ops := w.faults.Snapshot()
	for _, op := range ops[w.opsSeen:] {
		if op.Dead {
			continue
		}
		switch op.Kind {
		case "append":
			if !op.Err {
				w.log = append(w.log, rec{K: "append", EID: eid, T: typ, Off: op.Res, OK: true, Epoch: w.epoch, Fgn: w.foreign[eid]})
			}
		}
	}
	w.opsSeen = len(ops)
}

func (w *world) publish(typ int, foreign bool) {
	w.nextID++
	id := w.nextID
	if foreign {
		w.foreign[id] = true
	}
	// appends of this publish are harvested right after it (single goroutine)
	before := len(w.faults.Snapshot())
	switch typ {
	case 0:
		ebu.Publish(w.bus, tA{id})
	case 1:
		ebu.Publish(w.bus, tB{id})
	default:
		ebu.Publish(w.bus, tC{id})
	}
	ops := w.faults.Snapshot()
	for _, op := range ops[before:] {
		if op.Kind == "append" && !op.Err && !op.Dead {
			w.log = append(w.log, rec{K: "append", EID: id, T: typ, Off: op.Res, OK: true, Epoch: w.epoch, Fgn: foreign})
		}
	}
}

func (w *world) deliver(s, id, typ int) {
	if w.faults.IsDead() {
		return // the process died before this point: nothing after the crash happened
	}
	w.log = append(w.log, rec{K: "deliver", S: s, EID: id, T: typ, Epoch: w.epoch})
}

func (w *world) subscribe(s int) error {
	w.inSub = s
	defer func() { w.inSub = -1 }()
	id := fmt.Sprintf("sub-%d", s)
	ctx := context.Background()
	var err error
	switch subType[s] {
	case 0:
		err = ebu.SubscribeWithReplay(ctx, w.bus, id, func(e tA) { w.deliver(s, e.ID, 0) })
	case 1:
		err = ebu.SubscribeWithReplay(ctx, w.bus, id, func(e tB) { w.deliver(s, e.ID, 1) })
	}
	return err
}

type result struct {
	log   []rec
	ops   []stores.OpRec
	nOps  int
	subOp map[int]bool // op indices that happened inside a SubscribeWithReplay call
}

func openWorld(kind, scratch string) (*world, error) {
	w := &world{kind: kind, faults: stores.NewFaults(), inSub: -1, foreign: map[int]bool{}}
	base := kind
	if strings.HasSuffix(kind, "+memsub") {
		base = strings.TrimSuffix(kind, "+memsub")
		w.subMem = ebu.NewMemoryStore()
	}
	u, err := stores.Open(base, scratch)
	if err != nil {
		return nil, err
	}
	w.under = u
	return w, nil
}

func execute(kind, scratch string, steps []step, f faultSpec) (*result, error) {
	w, err := openWorld(kind, scratch)
	if err != nil {
		return nil, err
	}
	defer func() { w.under.Close(); w.under.Remove() }()
	res := &result{subOp: map[int]bool{}}
	saveHook := func(op stores.OpRec) {
		if w.inSub >= 0 {
			res.subOp[op.N] = true
		}
		if op.Kind == "save" {
			// recorded in the same timeline as the deliveries (one goroutine); OK is filled in afterwards
			id, off, _ := strings.Cut(op.Arg, "=")
			var sid int
			fmt.Sscanf(id, "sub-%d", &sid)
			w.log = append(w.log, rec{K: "save", S: sid, Off: off, N: op.N, Epoch: w.epoch})
		}
	}
	w.faults.OnOp = saveHook
	switch f.Kind {
	case "crash":
		w.faults.Plan[f.K] = stores.Crash
	case "fail":
		w.faults.Plan[f.K] = stores.Fail
	case "interleave":
		w.faults.Plan[f.K] = stores.Gate
		w.faults.OnGate = func(op stores.OpRec) {
			if w.inSub >= 0 {
				// another publisher gets in at this point of the running SubscribeWithReplay
				w.publish(subType[w.inSub], true)
			}
		}
	}
	w.newBus()
	for _, st := range steps {
		switch st.K {
		case "pub":
			w.publish(st.T, false)
		case "sub":
			if !w.subbed[st.S] {
				if err := w.subscribe(st.S); err == nil {
					w.subbed[st.S] = true
				}
			}
		case "restart":
			w.log = append(w.log, rec{K: "restart", Epoch: w.epoch})
			w.newBus()
		}
		if w.faults.IsDead() {
			w.log = append(w.log, rec{K: "crash", Epoch: w.epoch})
			w.faults.Revive()
			w.faults.ClearPlan()
			w.newBus()
		}
	}
	// saves, from the store log
	res.nOps = w.faults.Ops()
	// final drain: restart, no faults, every id resubscribes
	w.faults.ClearPlan()
	w.faults.Revive()
	w.log = append(w.log, rec{K: "restart", Epoch: w.epoch})
	w.newBus()
	for s := range subType {
		if err := w.subscribe(s); err != nil {
			w.log = append(w.log, rec{K: "drain-error", S: s, Off: err.Error(), Epoch: w.epoch})
		}
	}
	res.log = w.log
	res.ops = w.faults.Snapshot()
	byN := map[int]stores.OpRec{}
	for _, op := range res.ops {
		if !op.Dead {
			byN[op.N] = op
		}
	}
	for i := range res.log {
		if res.log[i].K == "save" {
			op, ok := byN[res.log[i].N]
			res.log[i].OK = ok && op.Kind == "save" && !op.Err
		}
	}
	return res, nil
}

// check evaluates the clauses of the property on one executed history.
func check(r *result, f faultSpec, durable bool) (sig, desc string) {
	// position of every appended event, in log order; offsets -> position
	pos := map[string]int{"": 0}
	evPos := map[int]int{}
	evType := map[int]int{}
	foreign := map[int]bool{}
	n := 0
	for _, x := range r.log {
		if x.K == "append" {
			n++
			pos[x.Off] = n
			evPos[x.EID] = n
			evType[x.EID] = x.T
			foreign[x.EID] = x.Fgn
		}
	}
	synthetic := false
	for _, x := range r.log {
		if x.K == "save" {
			if _, known := pos[x.Off]; !known {
				synthetic = true
			}
		}
	}
	kf := func(rule string, involvesForeign bool) string {
		switch {
		case durable && synthetic:
			return "durable:resume-from-synthetic-event-offset"
		case involvesForeign && f.Kind == "interleave":
			return "handover:event-published-during-subscribe:" + rule
		}
		return "resume:" + rule
	}
	// one timeline: deliveries and saves in the order they happened
	for s := range subType {
		count := map[int]int{}
		var firsts []int
		savedMax := 0
		for _, x := range r.log {
			if x.S != s {
				continue
			}
			if x.K == "save" {
				p, known := pos[x.Off]
				if !x.OK || !known {
					continue
				}
				// (e) the saved offset never moves backwards
				if p < savedMax {
					return kf("saved-offset-moved-backwards", false), fmt.Sprintf("sub-%d saved offset %q (log position %d) after position %d had been saved", s, x.Off, p, savedMax)
				}
				savedMax = p
				continue
			}
			if x.K != "deliver" {
				continue
			}
			if _, inLog := evPos[x.EID]; !inLog {
				continue // its append failed: not a persisted event
			}
			if evType[x.EID] != subType[s] || x.T != subType[s] {
				return kf("wrong-type", foreign[x.EID]), fmt.Sprintf("sub-%d received event %d of another type", s, x.EID)
			}
			count[x.EID]++
			if count[x.EID] == 1 {
				firsts = append(firsts, x.EID)
			} else if savedMax >= evPos[x.EID] {
				// (d) only an event whose position had not yet been saved can be delivered again
				return kf("redelivered-after-save", foreign[x.EID]), fmt.Sprintf("sub-%d received event %d (log position %d) again although an offset at position %d had been saved successfully before", s, x.EID, evPos[x.EID], savedMax)
			}
		}
		// (a) nothing lost
		for eid, p := range evPos {
			if evType[eid] == subType[s] && count[eid] == 0 {
				return kf("event-lost", foreign[eid]), fmt.Sprintf("sub-%d never received persisted event %d (log position %d), not even after the final restart and drain", s, eid, p)
			}
		}
		// (b) exactly once without faults
		if f.Kind == "none" {
			for eid, c := range count {
				if c != 1 {
					return kf("duplicate-without-fault", foreign[eid]), fmt.Sprintf("fault-free history: sub-%d received event %d %d times", s, eid, c)
				}
			}
		}
		// (c) first occurrences in log order
		for i := 1; i < len(firsts); i++ {
			if evPos[firsts[i]] < evPos[firsts[i-1]] {
				return kf("out-of-log-order", foreign[firsts[i]] || foreign[firsts[i-1]]), fmt.Sprintf("sub-%d received event %d (position %d) for the first time after event %d (position %d)", s, firsts[i], evPos[firsts[i]], firsts[i-1], evPos[firsts[i-1]])
			}
		}
	}
	for _, x := range r.log {
		if x.K == "drain-error" {
			return kf("drain-subscribe-failed", false), fmt.Sprintf("SubscribeWithReplay of sub-%d failed in the fault-free final run: %s", x.S, x.Off)
		}
	}
	return "", ""
}

func genHistory(r *rand.Rand) []step {
	n := 8 + r.IntN(25)
	var st []step
	for i := 0; i < n; i++ {
		x := r.IntN(100)
		switch {
		case x < 55:
			st = append(st, step{K: "pub", T: []int{0, 0, 1, 1, 2}[r.IntN(5)]})
		case x < 88:
			st = append(st, step{K: "sub", S: r.IntN(3)})
		default:
			st = append(st, step{K: "restart"})
		}
	}
	return st
}

func shape(steps []step) string {
	var b strings.Builder
	for _, s := range steps {
		switch s.K {
		case "pub":
			b.WriteString(fmt.Sprintf("p%d", s.T))
		case "sub":
			b.WriteString(fmt.Sprintf("s%d", s.S))
		default:
			b.WriteString("R")
		}
	}
	return b.String()
}

func TestC12(t *testing.T) {
	run := vk.New("C12", "resume")
	defer run.Finish()
	scratch := os.Getenv("VERIF_SCRATCH")
	if scratch == "" {
		scratch = t.TempDir()
	}
	type cfg struct {
		kind string
		n    int
	}
	cfgs := []cfg{{"memory", run.Scale(10, 120)}, {"memory+memsub", run.Scale(6, 60)}, {"memory-paged+memsub", run.Scale(6, 60)}, {"sqlite-file", run.Scale(1, 8)}, {"sqlite-batch2", run.Scale(1, 6)}, {"durable+memsub", run.Scale(1, 4)}}
	caseNo := 0
	for _, c := range cfgs {
		for h := 0; h < c.n; h++ {
			caseNo++
			rng := run.Rand(uint64(caseNo))
			steps := genHistory(rng)
			if strings.HasPrefix(c.kind, "sqlite") || strings.HasPrefix(c.kind, "durable") {
				if len(steps) > 14 {
					steps = steps[:14]
				}
			}
			durable := strings.HasPrefix(c.kind, "durable")
			base, err := execute(c.kind, scratch, steps, faultSpec{Kind: "none"})
			if err != nil {
				t.Fatalf("execute: %v", err)
			}
			report := func(f faultSpec, r *result) {
				sig, desc := check(r, f, durable)
				hasRestart := strings.Contains(shape(steps), "R")
				nontriv := hasRestart
				if f.Kind != "none" && f.K < len(base.ops) {
					k := base.ops[f.K].Kind
					nontriv = nontriv || k == "save" || k == "append" || f.Kind == "interleave"
				}
				run.Case(fmt.Sprintf("%s|%s|%s@%d", c.kind, shape(steps), f.Kind, f.K), nontriv)
				if sig != "" {
					run.Violation(sig, fmt.Sprintf("[%s, %s at store op %d] %s", c.kind, f.Kind, f.K, desc), map[string]any{"store": c.kind, "steps": steps, "fault": f, "history": r.log, "store_ops": r.ops})
				}
			}
			report(faultSpec{Kind: "none"}, base)
			run.Count("fault_free_histories", 1)
			run.Count("store_ops_in_fault_free_runs", int64(base.nOps))
			if h == 0 && run.WantSample() {
				run.Sample(map[string]any{"store": c.kind, "steps": steps, "store_ops": base.nOps, "history_len": len(base.log)})
			}
			for k := 0; k < base.nOps; k++ {
				for _, kind := range []string{"crash", "fail", "interleave"} {
					if kind == "interleave" && !base.subOp[k] {
						continue
					}
					f := faultSpec{Kind: kind, K: k}
					r, err := execute(c.kind, scratch, steps, f)
					if err != nil {
						t.Fatalf("execute: %v", err)
					}
					report(f, r)
					run.Count("runs_"+kind, 1)
				}
			}
		}
	}
}
