//go:build verif

package c12

import (
	"context"
	"encoding/json"
	"fmt"
	"time"

	ebu "github.com/jilio/ebu"

	"verif/harness/internal/stores"
	"verif/harness/internal/vk"
)

// parkedPublisher: a publisher is still inside the store's Append (a slow disk, a network round
// trip) when a resumable subscription attaches and goes live; its event is appended after the live
// handler was registered. The subscription receives it - live now, or from the log after the next
// restart - exactly once, and in log order.
func parkedPublisher(run *vk.Run) {
	ctx := context.Background()
	for variant := 0; variant < 4; variant++ {
		mem, subs, faults := ebu.NewMemoryStore(), ebu.NewMemoryStore(), stores.NewFaults()
		newBus := func() *ebu.EventBus {
			return ebu.New(ebu.WithStore(stores.Wrap(mem, faults)), ebu.WithSubscriptionStore(subs))
		}
		bus := newBus()
		pre := variant % 2 * 2 // events already in the log when the subscription attaches: 0 or 2
		for k := 1; k <= pre; k++ {
			ebu.Publish(bus, tA{ID: k})
		}
		parked, gate, done := make(chan struct{}), make(chan struct{}), make(chan struct{})
		faults.ByKind["append"] = map[int]stores.Action{pre: stores.Gate}
		faults.OnGate = func(stores.OpRec) { close(parked); <-gate }
		go func() {
			defer close(done)
			ebu.Publish(bus, tA{ID: pre + 1})
		}()
		<-parked
		var got []int
		handler := func(e tA) { got = append(got, e.ID) }
		var opts []ebu.SubscribeOption
		if variant >= 2 {
			opts = append(opts, ebu.Sequential())
		}
		err := ebu.SubscribeWithReplay(ctx, bus, "parked", handler, opts...)
		close(gate)
		<-done
		ebu.Publish(bus, tA{ID: pre + 2})
		bus.Wait()
		// restart
		bus2 := newBus()
		err2 := ebu.SubscribeWithReplay(ctx, bus2, "parked", handler, opts...)
		var want []int
		for k := 1; k <= pre+2; k++ {
			want = append(want, k)
		}
		run.Case(fmt.Sprintf("publisher parked in Append while the subscription attaches|pre%d|seq%v", pre, variant >= 2), true)
		if err != nil || err2 != nil || fmt.Sprint(got) != fmt.Sprint(want) {
			run.Violation("resume:publisher-parked-in-append", fmt.Sprintf("%d events in the log, event %d's publisher parked inside Append while SubscribeWithReplay ran and went live (its append completed afterwards), then event %d, a restart and a second attach: received %v (errors %v / %v), want %v", pre, pre+1, pre+2, got, err, err2, want), map[string]any{"pre": pre, "delivered": got})
		}
	}
}

// reattachedID: two subscription ids follow the same event type on one bus; one of them is attached
// a second time (a component that reconnects). Whatever that does to the id itself, the other id
// goes on receiving every event exactly once.
func reattachedID(run *vk.Run) {
	ctx := context.Background()
	for variant := 0; variant < 4; variant++ {
		again := []string{"billing", "audit"}[variant%2]
		other := []string{"audit", "billing"}[variant%2]
		third := variant >= 2 // a third id of the same type in between
		mem, subs := ebu.NewMemoryStore(), ebu.NewMemoryStore()
		bus := ebu.New(ebu.WithStore(mem), ebu.WithSubscriptionStore(subs))
		got := map[string][]int{}
		h := func(id string) func(tA) { return func(e tA) { got[id] = append(got[id], e.ID) } }
		ebu.SubscribeWithReplay(ctx, bus, "billing", h("billing"))
		if third {
			ebu.SubscribeWithReplay(ctx, bus, "metrics", h("metrics"))
		}
		ebu.SubscribeWithReplay(ctx, bus, "audit", h("audit"))
		ebu.Publish(bus, tA{ID: 1})
		ebu.Publish(bus, tA{ID: 2})
		err := ebu.SubscribeWithReplay(ctx, bus, again, h(again+"-again"))
		ebu.Publish(bus, tA{ID: 3})
		ebu.Publish(bus, tA{ID: 4})
		run.Case(fmt.Sprintf("an id attached a second time next to other ids|%s|third%v", again, third), true)
		bad := fmt.Sprint(got[other]) != "[1 2 3 4]"
		if third && fmt.Sprint(got["metrics"]) != "[1 2 3 4]" {
			bad = true
		}
		if bad {
			run.Violation("resume:other-id-starved-by-a-reattached-id", fmt.Sprintf("ids billing%s and audit follow one event type; %q is attached a second time after events 1 and 2 (returned %v), then events 3 and 4 are published: %q received %v, metrics %v (want [1 2 3 4] each)", map[bool]string{true: ", metrics", false: ""}[third], again, err, other, got[other], got["metrics"]), map[string]any{"delivered": got})
		}
	}
}

type markKey struct{}

// parkAfterAppend is an Observability implementation that parks the publish carrying a marked
// context right after its record has been appended.
type parkAfterAppend struct {
	appended, goOn chan struct{}
}

func (o *parkAfterAppend) OnPublishStart(ctx context.Context, _ string, _ any) context.Context {
	return ctx
}
func (o *parkAfterAppend) OnPublishComplete(context.Context, string) {}
func (o *parkAfterAppend) OnHandlerStart(ctx context.Context, _ string, _ bool) context.Context {
	return ctx
}
func (o *parkAfterAppend) OnHandlerComplete(context.Context, time.Duration, error) {}
func (o *parkAfterAppend) OnPersistStart(ctx context.Context, _ string, _ int64) context.Context {
	return ctx
}
func (o *parkAfterAppend) OnPersistComplete(ctx context.Context, _ time.Duration, _ error) {
	if ctx.Value(markKey{}) != nil {
		close(o.appended)
		<-o.goOn
	}
}

// overlapOnFileStore: a SQLite file with default options holding a backlog of 1100 events; while
// the subscription is replaying it, another goroutine publishes one more event whose record is
// appended during the replay and whose delivery starts after the subscription has gone live. That
// event reaches the subscription exactly once - like every event of the backlog.
func overlapOnFileStore(run *vk.Run, scratch string) {
	ctx := context.Background()
	st, err := stores.Open("sqlite-file", scratch)
	if err != nil {
		panic(err)
	}
	defer func() { st.Close(); st.Remove() }()
	const backlog = 1100
	for k := 1; k <= backlog; k++ {
		d, _ := json.Marshal(tA{ID: k})
		if _, err := st.Store.Append(ctx, &ebu.Event{Type: ebu.EventType(tA{}), Data: d, Timestamp: time.Unix(int64(k), 0)}); err != nil {
			panic(err)
		}
	}
	obs := &parkAfterAppend{appended: make(chan struct{}), goOn: make(chan struct{})}
	bus := ebu.New(ebu.WithStore(st.Store), ebu.WithObservability(obs))
	count := map[int]int{}
	order := 0
	outOfOrder := false
	pubDone := make(chan struct{})
	started := false
	err = ebu.SubscribeWithReplay(ctx, bus, "file-overlap", func(e tA) {
		count[e.ID]++
		if e.ID <= backlog {
			if e.ID != order+1 {
				outOfOrder = true
			}
			order = e.ID
		}
		if e.ID == 10 && !started {
			started = true
			go func() {
				defer close(pubDone)
				ebu.PublishContext(bus, context.WithValue(ctx, markKey{}, true), tA{ID: 5000})
			}()
			<-obs.appended // the other publisher's record is in the file now
		}
	})
	close(obs.goOn)
	if started {
		<-pubDone
	}
	bus.Wait()
	missing, dup := 0, 0
	for k := 1; k <= backlog; k++ {
		switch c := count[k]; {
		case c == 0:
			missing++
		case c > 1:
			dup++
		}
	}
	run.Case("publish overlapping the replay of a long backlog on a SQLite file", true)
	if err != nil || missing != 0 || dup != 0 || outOfOrder || count[5000] != 1 {
		run.Violation("resume:overlapping-publish-on-file-store", fmt.Sprintf("SQLite file (default options) with a backlog of %d events; an event published by another goroutine was appended while the subscription replayed and dispatched after it had gone live: SubscribeWithReplay returned %v, %d backlog events missing, %d delivered more than once, out of order: %v, the overlapping event was delivered %d times (want 1)", backlog, err, missing, dup, outOfOrder, count[5000]), nil)
	}
}

// ctxTracker is an offset tracker that, like a networked one, refuses to write for a caller whose
// context has ended.
type ctxTracker struct{ inner *ebu.MemoryStore }

func (c ctxTracker) SaveOffset(ctx context.Context, id string, off ebu.Offset) error {
	if err := ctx.Err(); err != nil {
		return err
	}
	return c.inner.SaveOffset(ctx, id, off)
}
func (c ctxTracker) LoadOffset(ctx context.Context, id string) (ebu.Offset, error) {
	if err := ctx.Err(); err != nil {
		return "", err
	}
	return c.inner.LoadOffset(ctx, id)
}

// publishContextEndsInHandler: the context of one publish ends while the subscription's handler is
// still running for it (a request-scoped context). The subscription was made with a context of its
// own that is still live: the event's position is saved, and a restart does not deliver it again.
func publishContextEndsInHandler(run *vk.Run) {
	ctx := context.Background()
	for variant := 0; variant < 2; variant++ {
		mem, tr := ebu.NewMemoryStore(), ctxTracker{ebu.NewMemoryStore()}
		newBus := func() *ebu.EventBus { return ebu.New(ebu.WithStore(mem), ebu.WithSubscriptionStore(tr)) }
		bus := newBus()
		var got []int
		var cancel2 context.CancelFunc
		h := func(e tA) {
			got = append(got, e.ID)
			if e.ID == 2 && cancel2 != nil {
				cancel2() // the request that published this event is over
			}
		}
		var opts []ebu.SubscribeOption
		if variant == 1 {
			opts = append(opts, ebu.Sequential())
		}
		err := ebu.SubscribeWithReplay(ctx, bus, "request-scoped", h, opts...)
		ebu.Publish(bus, tA{ID: 1})
		var ctx2 context.Context
		ctx2, cancel2 = context.WithCancel(ctx)
		ebu.PublishContext(bus, ctx2, tA{ID: 2})
		cancel2 = nil
		bus2 := newBus()
		err2 := ebu.SubscribeWithReplay(ctx, bus2, "request-scoped", h, opts...)
		ebu.Publish(bus2, tA{ID: 3})
		run.Case(fmt.Sprintf("publish context ends while the handler runs|seq%v", variant == 1), true)
		if err != nil || err2 != nil || fmt.Sprint(got) != "[1 2 3]" {
			run.Violation("resume:redelivered-after-the-publish-context-ended", fmt.Sprintf("event 2 was published with a context that ended while the subscription's handler was running for it (the subscription's own context is live; the offset tracker refuses callers whose context has ended); after a restart the subscription had received %v over both lives (errors %v / %v), want [1 2 3]", got, err, err2), nil)
		}
	}
}
