//go:build verif

package c12

import (
	"context"
	"fmt"

	ebu "github.com/jilio/ebu"

	"verif/harness/internal/stores"
	"verif/harness/internal/vk"
)

// parkedPublisher: a publisher is still inside the store's Append (a slow disk, a network round
// trip) when a resumable subscription attaches and goes live; its event is appended after the live
// handler was registered. The subscription receives it - live now, or from the log after the next
// restart - exactly once, and in log order.
func parkedPublisher(run *vk.Run) {
	ctx := context.Background()
	for variant := 0; variant < 4; variant++ {
		mem, subs, faults := ebu.NewMemoryStore(), ebu.NewMemoryStore(), stores.NewFaults()
		newBus := func() *ebu.EventBus {
			return ebu.New(ebu.WithStore(stores.Wrap(mem, faults)), ebu.WithSubscriptionStore(subs))
		}
		bus := newBus()
		pre := variant % 2 * 2 // events already in the log when the subscription attaches: 0 or 2
		for k := 1; k <= pre; k++ {
			ebu.Publish(bus, tA{ID: k})
		}
		parked, gate, done := make(chan struct{}), make(chan struct{}), make(chan struct{})
		faults.ByKind["append"] = map[int]stores.Action{pre: stores.Gate}
		faults.OnGate = func(stores.OpRec) { close(parked); <-gate }
		go func() {
			defer close(done)
			ebu.Publish(bus, tA{ID: pre + 1})
		}()
		<-parked
		var got []int
		handler := func(e tA) { got = append(got, e.ID) }
		var opts []ebu.SubscribeOption
		if variant >= 2 {
			opts = append(opts, ebu.Sequential())
		}
		err := ebu.SubscribeWithReplay(ctx, bus, "parked", handler, opts...)
		close(gate)
		<-done
		ebu.Publish(bus, tA{ID: pre + 2})
		bus.Wait()
		// restart
		bus2 := newBus()
		err2 := ebu.SubscribeWithReplay(ctx, bus2, "parked", handler, opts...)
		var want []int
		for k := 1; k <= pre+2; k++ {
			want = append(want, k)
		}
		run.Case(fmt.Sprintf("publisher parked in Append while the subscription attaches|pre%d|seq%v", pre, variant >= 2), true)
		if err != nil || err2 != nil || fmt.Sprint(got) != fmt.Sprint(want) {
			run.Violation("resume:publisher-parked-in-append", fmt.Sprintf("%d events in the log, event %d's publisher parked inside Append while SubscribeWithReplay ran and went live (its append completed afterwards), then event %d, a restart and a second attach: received %v (errors %v / %v), want %v", pre, pre+1, pre+2, got, err, err2, want), map[string]any{"pre": pre, "delivered": got})
		}
	}
}

// reattachedID: two subscription ids follow the same event type on one bus; one of them is attached
// a second time (a component that reconnects). Whatever that does to the id itself, the other id
// goes on receiving every event exactly once.
func reattachedID(run *vk.Run) {
	ctx := context.Background()
	for variant := 0; variant < 4; variant++ {
		again := []string{"billing", "audit"}[variant%2]
		other := []string{"audit", "billing"}[variant%2]
		third := variant >= 2 // a third id of the same type in between
		mem, subs := ebu.NewMemoryStore(), ebu.NewMemoryStore()
		bus := ebu.New(ebu.WithStore(mem), ebu.WithSubscriptionStore(subs))
		got := map[string][]int{}
		h := func(id string) func(tA) { return func(e tA) { got[id] = append(got[id], e.ID) } }
		ebu.SubscribeWithReplay(ctx, bus, "billing", h("billing"))
		if third {
			ebu.SubscribeWithReplay(ctx, bus, "metrics", h("metrics"))
		}
		ebu.SubscribeWithReplay(ctx, bus, "audit", h("audit"))
		ebu.Publish(bus, tA{ID: 1})
		ebu.Publish(bus, tA{ID: 2})
		err := ebu.SubscribeWithReplay(ctx, bus, again, h(again+"-again"))
		ebu.Publish(bus, tA{ID: 3})
		ebu.Publish(bus, tA{ID: 4})
		run.Case(fmt.Sprintf("an id attached a second time next to other ids|%s|third%v", again, third), true)
		bad := fmt.Sprint(got[other]) != "[1 2 3 4]"
		if third && fmt.Sprint(got["metrics"]) != "[1 2 3 4]" {
			bad = true
		}
		if bad {
			run.Violation("resume:other-id-starved-by-a-reattached-id", fmt.Sprintf("ids billing%s and audit follow one event type; %q is attached a second time after events 1 and 2 (returned %v), then events 3 and 4 are published: %q received %v, metrics %v (want [1 2 3 4] each)", map[bool]string{true: ", metrics", false: ""}[third], again, err, other, got[other], got["metrics"]), map[string]any{"delivered": got})
		}
	}
}
