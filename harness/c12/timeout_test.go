//go:build verif

package c12

import (
	"context"
	"fmt"
	"testing"
	"testing/synctest"
	"time"

	ebu "github.com/jilio/ebu"

	"verif/harness/internal/vk"
)

// ctxStore honours its context the way the SQLite and durable-streams stores do: an operation
// whose context has ended is rejected.
type ctxStore struct{ *ebu.MemoryStore }

func (s ctxStore) Append(ctx context.Context, e *ebu.Event) (ebu.Offset, error) {
	if err := ctx.Err(); err != nil {
		return "", err
	}
	return s.MemoryStore.Append(ctx, e)
}
func (s ctxStore) SaveOffset(ctx context.Context, id string, off ebu.Offset) error {
	if err := ctx.Err(); err != nil {
		return err
	}
	return s.MemoryStore.SaveOffset(ctx, id, off)
}
func (s ctxStore) LoadOffset(ctx context.Context, id string) (ebu.Offset, error) {
	if err := ctx.Err(); err != nil {
		return "", err
	}
	return s.MemoryStore.LoadOffset(ctx, id)
}

// TestC12SlowHandlers: a resumable subscription whose handler takes (virtual) time, on a bus with a
// persistence timeout shorter or longer than the handler, over a store that honours its context.
// No fault is injected: across a restart every event is delivered exactly once, in order.
func TestC12SlowHandlers(t *testing.T) {
	run := vk.New("C12", "slow-handlers")
	defer run.Finish()
	durs := []time.Duration{0, 5 * time.Millisecond, 50 * time.Millisecond, 3 * time.Second}
	timeouts := []time.Duration{0, 10 * time.Millisecond, time.Second, time.Hour}
	idx := 0
	for _, d := range durs {
		for _, to := range timeouts {
			for _, opt := range []string{"-", "async", "sequential", "async+sequential"} {
				idx++
				if !run.Mine(idx) {
					continue
				}
				sig := fmt.Sprintf("handler=%v timeout=%v %s", d, to, opt)
				var got []int
				synctest.Test(t, func(t *testing.T) {
					st := ctxStore{ebu.NewMemoryStore()}
					newBus := func() *ebu.EventBus {
						o := []ebu.Option{ebu.WithStore(st)}
						if to > 0 {
							o = append(o, ebu.WithPersistenceTimeout(to))
						}
						return ebu.New(o...)
					}
					var so []ebu.SubscribeOption
					switch opt {
					case "async":
						so = append(so, ebu.Async())
					case "sequential":
						so = append(so, ebu.Sequential())
					case "async+sequential":
						so = append(so, ebu.Async(), ebu.Sequential())
					}
					h := func(e tA) {
						if d > 0 {
							time.Sleep(d)
						}
						got = append(got, e.ID)
					}
					id := 0
					for life := 0; life < 3; life++ {
						bus := newBus()
						if err := ebu.SubscribeWithReplay(context.Background(), bus, "slow", h, so...); err != nil {
							run.Violation("resume:subscribe-error", sig+": "+err.Error(), nil)
							return
						}
						for k := 0; k < 2; k++ {
							id++
							ebu.Publish(bus, tA{ID: id})
							bus.Wait() // one at a time: the order of async deliveries is not this part's subject
						}
					}
				})
				if fmt.Sprint(got) != "[1 2 3 4 5 6]" {
					run.Violation("resume:slow-handler-not-exactly-once", fmt.Sprintf("%s: over three lives of the process (no fault injected) the subscription received %v, want [1 2 3 4 5 6]", sig, got), map[string]any{"scenario": sig, "delivered": got})
				}
				run.Case(sig, to > 0 && d > to)
			}
		}
	}
	run.Exhaustive(true)
}
