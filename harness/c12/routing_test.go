//go:build verif

package c12

import (
	"context"
	"encoding/json"
	"errors"
	"fmt"
	"testing"
	"time"

	ebu "github.com/jilio/ebu"

	"verif/harness/internal/vk"
)

type rtOrder struct{ N int }
type rtRefund struct{ N int }

// TestC12RoutingUpcaster: the log holds records of a legacy catch-all type next to native ones; a
// raw upcaster splits the legacy records by a field of their payload into orders, refunds and
// records it cannot convert (it fails for those). A resumable subscription for orders attaches in
// two lives of the process with the log growing in between: it receives every record that ends up
// as an order - native or converted - exactly once, in log order, whatever came before it.
func TestC12RoutingUpcaster(t *testing.T) {
	run := vk.New("C12", "routing-upcaster")
	defer run.Finish()
	n := run.Scale(300, 20000)
	ctx := context.Background()
	const legacy = "c12.legacy-record"
	for i := 0; i < n; i++ {
		if !run.Mine(i) {
			continue
		}
		rng := run.GlobalRand(uint64(i))
		total := 2 + rng.IntN(13)
		type rec struct {
			typ  string
			data string
		}
		var log []rec
		var want []int
		kinds := ""
		for k := 1; k <= total; k++ {
			switch x := rng.IntN(10); {
			case x < 3:
				log = append(log, rec{legacy, fmt.Sprintf(`{"kind":"order","n":%d}`, k)})
				want = append(want, k)
				kinds += "o"
			case x < 6:
				log = append(log, rec{legacy, fmt.Sprintf(`{"kind":"refund","n":%d}`, k)})
				kinds += "r"
			case x < 7:
				log = append(log, rec{legacy, fmt.Sprintf(`{"kind":"unknown","n":%d}`, k)})
				kinds += "x"
			case x < 9:
				log = append(log, rec{ebu.EventType(rtOrder{}), fmt.Sprintf(`{"N":%d}`, k)})
				want = append(want, k)
				kinds += "O"
			default:
				log = append(log, rec{ebu.EventType(rtRefund{}), fmt.Sprintf(`{"N":%d}`, k)})
				kinds += "R"
			}
		}
		split := rng.IntN(total + 1)
		store, subs := ebu.NewMemoryStore(), ebu.NewMemoryStore()
		put := func(r rec) {
			if _, err := store.Append(ctx, &ebu.Event{Type: r.typ, Data: json.RawMessage(r.data), Timestamp: time.Unix(1, 0)}); err != nil {
				t.Fatal(err)
			}
		}
		upcastErrs := 0
		newBus := func() *ebu.EventBus {
			bus := ebu.New(ebu.WithStore(store), ebu.WithSubscriptionStore(subs), ebu.WithUpcastErrorHandler(func(string, json.RawMessage, error) { upcastErrs++ }))
			err := ebu.RegisterUpcastFunc(bus, legacy, "c12.converted-record", func(d json.RawMessage) (json.RawMessage, string, error) {
				var l struct {
					Kind string `json:"kind"`
					N    int    `json:"n"`
				}
				if err := json.Unmarshal(d, &l); err != nil {
					return nil, "", err
				}
				switch l.Kind {
				case "order":
					out, _ := json.Marshal(rtOrder{N: l.N})
					return out, ebu.EventType(rtOrder{}), nil
				case "refund":
					out, _ := json.Marshal(rtRefund{N: l.N})
					return out, ebu.EventType(rtRefund{}), nil
				}
				return nil, "", errors.New("verif: a legacy record of a kind nobody knows")
			})
			if err != nil {
				t.Fatal(err)
			}
			return bus
		}
		var got []int
		for _, r := range log[:split] {
			put(r)
		}
		for life := 1; life <= 2; life++ {
			bus := newBus()
			if err := ebu.SubscribeWithReplay(ctx, bus, "orders", func(o rtOrder) { got = append(got, o.N) }); err != nil {
				run.Violation("resume:routing-upcaster:subscribe-error", fmt.Sprintf("SubscribeWithReplay over a log with legacy records (%s) returned %v", kinds, err), map[string]any{"case": i, "kinds": kinds})
			}
			if life == 1 {
				for _, r := range log[split:] {
					put(r) // written by another process: this bus does not see them live
				}
			}
		}
		if fmt.Sprint(got) != fmt.Sprint(want) {
			run.Violation("resume:routing-upcaster:not-exactly-once-in-order", fmt.Sprintf("log %s (o/r/x legacy records that convert to an order / a refund / not at all, O/R native orders / refunds), the first %d present at the first attach, the rest at the second: the order subscription received %v, the records that end up as orders are %v", kinds, split, got, want),
				map[string]any{"case": i, "kinds": kinds, "split": split, "delivered": got, "want": want})
		}
		run.Case(fmt.Sprintf("%s|%d", kinds, split), len(want) > 0 && len(want) < total)
		run.Count("deliveries_checked", int64(len(got)))
		run.Count("records_the_upcaster_refused", int64(upcastErrs))
	}
}
