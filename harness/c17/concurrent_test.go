//go:build verif

package c17

import (
	"context"
	"encoding/json"
	"fmt"
	"runtime"
	"sync"
	"testing"
	"time"

	ebu "github.com/jilio/ebu"

	"verif/harness/internal/vk"
)

// TestC17ConcurrentClear: while the first step of a chain of 2-5 raw upcasters is running, another
// goroutine clears the registry (all of it, or the upcasters of one type in the middle of the
// chain). The event being upcast comes out under the registry as it was before the clear (the whole
// chain) or as it is after it (untouched, or the chain up to the cleared type when that is where the
// new registry ends) - never a prefix of the chain that neither registry describes.
func TestC17ConcurrentClear(t *testing.T) {
	run := vk.New("C17", "concurrent-clear")
	defer run.Finish()
	n := run.Scale(400, 20000)
	ctx := context.Background()
	for i := 0; i < n; i++ {
		if !run.Mine(i) {
			continue
		}
		rng := run.GlobalRand(uint64(i))
		L := 2 + rng.IntN(4)
		clearAt := -1 // -1: ClearUpcasts; k: ClearUpcastsForType(name k)
		if rng.IntN(2) == 0 {
			clearAt = rng.IntN(L)
		}
		// every third case: the other goroutine registers an upcaster for unrelated types instead, and
		// the last step of the chain fails - the callback sees the original event and the failure is
		// reported exactly once
		unrelated := rng.IntN(3) == 0
		yields := 1 + rng.IntN(200)
		name := func(k int) string { return fmt.Sprintf("c17c.v%d", k) }
		store := ebu.NewMemoryStore()
		errCalls := 0
		bus := ebu.New(ebu.WithStore(store), ebu.WithUpcastErrorHandler(func(string, json.RawMessage, error) { errCalls++ }))
		var wg sync.WaitGroup
		started := false
		for k := 0; k < L; k++ {
			k := k
			ebu.RegisterUpcastFunc(bus, name(k), name(k+1), func(d json.RawMessage) (json.RawMessage, string, error) {
				if k == 0 && !started {
					started = true
					wg.Add(1)
					go func() {
						defer wg.Done()
						if unrelated {
							ebu.RegisterUpcastFunc(bus, "c17c.unrelated.a", "c17c.unrelated.b", func(d json.RawMessage) (json.RawMessage, string, error) { return d, "c17c.unrelated.b", nil })
						} else if clearAt < 0 {
							bus.ClearUpcasts()
						} else {
							bus.ClearUpcastsForType(name(clearAt))
						}
					}()
					for y := 0; y < yields; y++ {
						runtime.Gosched()
					}
				}
				if unrelated && k == L-1 {
					return nil, "", fmt.Errorf("verif: the last step of the chain fails")
				}
				var tr []int
				json.Unmarshal(d, &tr)
				out, _ := json.Marshal(append(tr, k))
				return out, name(k + 1), nil
			})
		}
		store.Append(ctx, &ebu.Event{Type: name(0), Data: json.RawMessage(`[]`), Timestamp: time.Unix(1, 0)})
		var typ string
		var data string
		err := bus.ReplayWithUpcast(ctx, ebu.OffsetOldest, func(e *ebu.StoredEvent) error { typ, data = e.Type, string(e.Data); return nil })
		wg.Wait()
		// registry before the clear: the whole chain; after it: nothing (clear all / clear of type 0)
		// or the chain up to the cleared type
		full := "["
		for k := 0; k < L; k++ {
			if k > 0 {
				full += ","
			}
			full += fmt.Sprint(k)
		}
		full += "]"
		okFull := typ == name(L) && data == full
		okAfter := false
		switch {
		case clearAt <= 0:
			okAfter = typ == name(0) && data == "[]"
		default:
			pre := "["
			for k := 0; k < clearAt; k++ {
				if k > 0 {
					pre += ","
				}
				pre += fmt.Sprint(k)
			}
			pre += "]"
			okAfter = typ == name(clearAt) && data == pre
		}
		if unrelated {
			run.Case(fmt.Sprintf("L%d|unrelated-registration|failing-last-step", L), true)
			if err != nil || typ != name(0) || data != "[]" || errCalls != 1 {
				run.Violation("upcast:failure-reports-under-concurrent-registration", fmt.Sprintf("chain v0 -> ... -> v%d whose last step fails, an upcaster for unrelated types registered by another goroutine while the first step ran: the callback saw type %s data %s (err %v; want the original v0 []), the error handler was called %d times (want 1)", L, typ, data, err, errCalls), map[string]any{"case": i, "chain_length": L})
			}
			continue
		}
		what := "ClearUpcasts()"
		if clearAt >= 0 {
			what = fmt.Sprintf("ClearUpcastsForType(v%d)", clearAt)
		}
		run.Case(fmt.Sprintf("L%d|clear%d", L, clearAt), true)
		if okFull {
			run.Count("events_upcast_under_the_registry_before_the_clear", 1)
		}
		if okAfter && !okFull {
			run.Count("events_upcast_under_the_registry_after_the_clear", 1)
		}
		if err != nil || !(okFull || okAfter) {
			run.Violation("upcast:partly-upcast-under-concurrent-clear", fmt.Sprintf("chain v0 -> ... -> v%d, %s called by another goroutine while the first step ran: the callback saw type %s data %s (err %v); the whole chain gives v%d %s", L, what, typ, data, err, L, full),
				map[string]any{"case": i, "chain_length": L, "clear": what, "seen_type": typ, "seen_data": data})
		}
	}
}
