//go:build verif

// C17 — Upcasting applies the whole chain or nothing.
package c17

import (
	"bytes"
	"context"
	"encoding/json"
	"errors"
	"fmt"
	"github.com/jilio/ebu/state"
	"math/rand/v2"
	"reflect"
	"strings"
	"sync/atomic"
	"testing"
	"time"

	ebu "github.com/jilio/ebu"

	"verif/harness/internal/jgen"
	"verif/harness/internal/stores"
	"verif/harness/internal/vk"
)

// typed versions
type V1 struct {
	ID    int
	Trace []string
	Num   any `json:",omitempty"` // a schemaless member: whatever the decoder makes of it is what f sees
}
type V2 struct {
	ID    int
	Extra string
	Trace []string
	Bomb  bomb
	Num   any `json:",omitempty"`
}
type V3 struct {
	ID    int
	Extra string
	N     int
	Trace []string
}

// bomb fails to marshal when armed (typed marshal error)
type bomb struct{ Armed bool }

func (b bomb) MarshalJSON() ([]byte, error) {
	if b.Armed {
		return nil, errors.New("verif: marshal bomb")
	}
	return []byte(`false`), nil
}
func (b *bomb) UnmarshalJSON([]byte) error { return nil }

var (
	nV1 = reflect.TypeOf(V1{}).String()
	nV2 = reflect.TypeOf(V2{}).String()
	nV3 = reflect.TypeOf(V3{}).String()
)

// model upcaster
type mup struct {
	from, to string
	ret      string // the type a routing raw upcaster actually returns (differs from the declared target)
	label    string
	f        func(json.RawMessage) (json.RawMessage, string, error)
}

type registry struct {
	ups map[string][]*mup
}

type errCall struct {
	Type string
	Data string
}

// apply is the reference: first-registered upcaster of the current type until none; all or nothing.
func (r *registry) apply(data json.RawMessage, typ string) (json.RawMessage, string, *errCall) {
	cur, ct := data, typ
	seen := map[string]bool{}
	for {
		seen[ct] = true
		l := r.ups[ct]
		if len(l) == 0 {
			return cur, ct, nil
		}
		u := l[0]
		out, nt, err := u.f(cur)
		if err != nil {
			return data, typ, &errCall{Type: ct, Data: string(cur)}
		}
		if seen[nt] {
			return data, typ, nil // loop error: original event, no error-handler call required
		}
		cur, ct = out, nt
	}
}

type failPlan struct{ label string }

// failEcho is the type name some failing upcasters hand back with their error: the first name of the
// world, which most chains start from (an already-visited type for them)
var failEcho = "raw.A"

var routingUpcasters, materializerReplays atomic.Int64

func rawUp(label, to string, fp *failPlan) func(json.RawMessage) (json.RawMessage, string, error) {
	return func(d json.RawMessage) (json.RawMessage, string, error) {
		if fp.label == label {
			// what a failing upcaster returns next to its error is up to it: nothing, or its input back
			// under some type name (here: the declared target, or a name the chain has already seen)
			err := fmt.Errorf("verif: injected upcast failure in %s", label)
			switch vk.Hash64(label, "kind") % 4 {
			case 1:
				// the step's own lookup timed out / was given up (the replay's context is live)
				err = fmt.Errorf("verif: lookup for %s: %w", label, context.DeadlineExceeded)
			case 2:
				err = fmt.Errorf("verif: lookup for %s: %w", label, context.Canceled)
			}
			switch vk.Hash64(label) % 3 {
			case 1:
				return d, to, err
			case 2:
				return d, failEcho, err
			}
			return nil, "", err
		}
		if len(label)%5 == 4 || strings.HasSuffix(label, "7") {
			return d, to, nil // a rename-only migration: the data is handed on unchanged
		}
		var m map[string]any
		dec := json.NewDecoder(bytes.NewReader(d))
		dec.UseNumber()
		if err := dec.Decode(&m); err != nil {
			return nil, "", err
		}
		tr, _ := m["Trace"].([]any)
		m["Trace"] = append(tr, label)
		out, err := json.Marshal(m)
		return out, to, err
	}
}

type world struct {
	bus          *ebu.EventBus
	store        *ebu.MemoryStore
	reg          *registry
	fp           *failPlan
	errs         []errCall
	names        []string
	optLabels    []string
	handlerMode  int
	paged        bool
	gen, stale   int
	duringReplay func(i int) // called by the replay callback after event i (registry changes from inside the callback)
}

// newWorld builds the bus; viaOptions registers these raw edges through the WithUpcast option.
func newWorld(viaOptions [][2]string) *world {
	w := &world{store: ebu.NewMemoryStore(), reg: &registry{ups: map[string][]*mup{}}, fp: &failPlan{}}
	worlds++
	w.handlerMode = worlds % 4 // the error handler is given: 0 by option before the upcasters, 1 by option after them, 2 by the setter before every replay (replacing the one before), 3 explicitly as nil (an optional configuration field left unset): failures are then simply not reported
	opts := []ebu.Option{ebu.WithStore(w.store)}
	if w.paged = worlds%2 == 0; w.paged {
		// the bus sees the store through a decorator without the optional interfaces: replays page
		opts = []ebu.Option{ebu.WithStore(&stores.Paged{Inner: w.store}), ebu.WithSubscriptionStore(ebu.NewMemoryStore())}
	}
	if w.handlerMode == 0 {
		opts = append(opts, ebu.WithUpcastErrorHandler(w.handler()))
	}
	for i, e := range viaOptions {
		if e[0] == e[1] || w.reaches(e[1], e[0]) {
			continue
		}
		label := fmt.Sprintf("o%d", i)
		f := rawUp(label, e[1], w.fp)
		opts = append(opts, ebu.WithUpcast(e[0], e[1], f))
		w.reg.ups[e[0]] = append(w.reg.ups[e[0]], &mup{from: e[0], to: e[1], label: label, f: f})
		w.optLabels = append(w.optLabels, label)
	}
	if w.handlerMode == 3 {
		opts = append(opts, ebu.WithUpcastErrorHandler(nil))
	} else if w.handlerMode != 0 {
		opts = append(opts, ebu.WithUpcastErrorHandler(w.handler()))
	}
	w.bus = ebu.New(opts...)
	if w.handlerMode == 3 && worlds%8 == 7 {
		w.bus.SetUpcastErrorHandler(nil)
	}
	return w
}

var worlds int

// handler returns a new generation of the world's error handler; calls that reach an older
// generation after it was replaced are counted as stale.
func (w *world) handler() ebu.UpcastErrorHandler {
	w.gen++
	g := w.gen
	return func(t string, d json.RawMessage, err error) {
		if g != w.gen {
			w.stale++
		}
		w.errs = append(w.errs, errCall{Type: t, Data: string(d)})
	}
}

func (w *world) reaches(from, to string) bool {
	seen := map[string]bool{}
	var dfs func(string) bool
	dfs = func(x string) bool {
		if x == to {
			return true
		}
		if seen[x] {
			return false
		}
		seen[x] = true
		for _, u := range w.reg.ups[x] {
			if dfs(u.to) || (u.ret != "" && dfs(u.ret)) {
				return true
			}
		}
		return false
	}
	return dfs(from)
}

func (w *world) addRaw(from, to, label string) bool {
	if from == to || w.reaches(to, from) {
		return false
	}
	// every fourth raw upcaster routes: it is declared from -> to but returns another name (content
	// routing); the chain continues from the type it returned
	ret := ""
	if h := vk.Hash64(label, from, to); h%4 == 0 {
		for k := range w.names {
			alt := w.names[(int(h>>8)+k)%len(w.names)]
			if alt != to && alt != from && alt != nV1 && alt != nV2 && alt != nV3 && !w.reaches(alt, from) {
				ret = alt
				break
			}
		}
	}
	target := to
	if ret != "" {
		target = ret
	}
	f := rawUp(label, target, w.fp)
	if err := ebu.RegisterUpcastFunc(w.bus, from, to, f); err != nil {
		panic(fmt.Sprintf("acyclic registration %s->%s rejected: %v", from, to, err))
	}
	w.reg.ups[from] = append(w.reg.ups[from], &mup{from: from, to: to, ret: ret, label: label, f: f})
	if ret != "" {
		routingUpcasters.Add(1)
	}
	return true
}

func (w *world) addTyped12() bool {
	if w.reaches(nV2, nV1) {
		return false
	}
	fn := func(v V1) V2 {
		return V2{ID: v.ID, Extra: fmt.Sprintf("x:%T", v.Num), Trace: append(v.Trace, "t12"), Bomb: bomb{Armed: v.ID == 666}, Num: v.Num}
	}
	if err := ebu.RegisterUpcast(w.bus, fn); err != nil {
		panic(err)
	}
	w.reg.ups[nV1] = append(w.reg.ups[nV1], &mup{from: nV1, to: nV2, label: "t12", f: func(d json.RawMessage) (json.RawMessage, string, error) {
		var v V1
		if err := json.Unmarshal(d, &v); err != nil {
			return nil, "", err
		}
		out, err := json.Marshal(fn(v))
		return out, nV2, err
	}})
	return true
}

func (w *world) addTyped23() bool {
	if w.reaches(nV3, nV2) {
		return false
	}
	fn := func(v V2) V3 { return V3{ID: v.ID, Extra: v.Extra, N: len(v.Trace), Trace: append(v.Trace, "t23")} }
	if err := ebu.RegisterUpcast(w.bus, fn); err != nil {
		panic(err)
	}
	w.reg.ups[nV2] = append(w.reg.ups[nV2], &mup{from: nV2, to: nV3, label: "t23", f: func(d json.RawMessage) (json.RawMessage, string, error) {
		var v V2
		if err := json.Unmarshal(d, &v); err != nil {
			return nil, "", err
		}
		out, err := json.Marshal(fn(v))
		return out, nV3, err
	}})
	return true
}

type stored struct {
	typ  string
	data json.RawMessage
	ts   time.Time
	off  ebu.Offset
	id   int
}

// replayCheck runs ReplayWithUpcast and SubscribeWithReplay for the typed versions and compares
// with the reference.
func (w *world) replayCheck(run *vk.Run, log []stored, witness map[string]any, phase string) (maxChain int, failedAtStep2 bool) {
	viol := func(rule, desc string) {
		run.Violation("upcast:"+rule, fmt.Sprintf("[%s, failing step %q] %s", phase, w.fp.label, desc), witness)
	}
	// a state materializer of its own (with its own error callback) reads the same bus first: that is
	// a reader, not a reconfiguration of the bus - the bus's upcast error handler stays the one in place
	if vk.Hash64(phase, w.fp.label)%3 == 0 {
		mat := state.NewMaterializer(state.WithOnError(func(error) {}))
		mat.Replay(context.Background(), w.bus, ebu.OffsetOldest)
		materializerReplays.Add(1)
	}
	w.errs = nil
	if w.handlerMode == 2 {
		w.bus.SetUpcastErrorHandler(w.handler()) // installed (again) after the registrations made so far
	}
	var wantErrs []errCall
	i := 0
	err := w.bus.ReplayWithUpcast(context.Background(), ebu.OffsetOldest, func(e *ebu.StoredEvent) error {
		s := log[i]
		i++
		wd, wt, ec := w.reg.apply(s.data, s.typ)
		if ec != nil {
			wantErrs = append(wantErrs, *ec)
		}
		if e.Type != wt {
			viol("final-type", fmt.Sprintf("event %d stored as %q reached the callback as %q, the chain of first-registered upcasters gives %q", s.id, s.typ, e.Type, wt))
		} else if len(w.reg.ups[s.typ]) == 0 || ec != nil {
			if !bytes.Equal(e.Data, s.data) {
				viol("original-not-untouched", fmt.Sprintf("event %d (%s) has no applicable / a failing upcast chain but its data came back changed: %s vs stored %s", s.id, s.typ, e.Data, s.data))
			}
		} else if !jgen.JSONEqual(e.Data, wd) {
			viol("composed-data", fmt.Sprintf("event %d stored as %q: callback data %s, composition of the chain gives %s", s.id, s.typ, e.Data, wd))
		}
		if e.Offset != s.off || !e.Timestamp.Equal(s.ts) {
			viol("offset-or-timestamp-changed", fmt.Sprintf("event %d: offset %q (stored %q), timestamp %v (stored %v)", s.id, e.Offset, s.off, e.Timestamp, s.ts))
		}
		if w.duringReplay != nil {
			w.duringReplay(i - 1)
		}
		return nil
	})
	if err != nil {
		viol("replay-error", "ReplayWithUpcast returned "+err.Error())
	}
	if i != len(log) {
		viol("replay-incomplete", fmt.Sprintf("callback saw %d of %d events", i, len(log)))
	}
	if w.paged && len(log) > 1 {
		// the same replay given up half-way (the callback cancels the context): whatever is still
		// delivered afterwards - the rest of a page - is upcast like everything else
		keep := w.errs
		cctx, cancel := context.WithCancel(context.Background())
		k, after := 0, 0
		w.bus.ReplayWithUpcast(cctx, ebu.OffsetOldest, func(e *ebu.StoredEvent) error {
			if k >= len(log) {
				return nil
			}
			s := log[k]
			k++
			wd, wt, ec := w.reg.apply(s.data, s.typ)
			if cctx.Err() != nil {
				after++
			}
			if e.Type != wt || (ec == nil && len(w.reg.ups[s.typ]) > 0 && !jgen.JSONEqual(e.Data, wd)) {
				viol("not-upcast-after-cancel", fmt.Sprintf("replay whose context the callback cancelled at event %d of %d: event %d stored as %q reached the callback as %q %s, the chain gives %q %s", len(log)/2+1, len(log), s.id, s.typ, e.Type, e.Data, wt, wd))
			}
			if k-1 == len(log)/2 {
				cancel()
			}
			return nil
		})
		cancel()
		w.errs = keep
		run.Count("events_delivered_after_the_replay_context_was_cancelled", int64(after))
	}
	if w.stale != 0 {
		viol("error-handler-calls", fmt.Sprintf("%d failures were reported to an upcast error handler that SetUpcastErrorHandler had replaced", w.stale))
	}
	if w.handlerMode == 3 {
		wantErrs = nil // no handler: nothing to report to
	}
	if fmt.Sprint(w.errs) != fmt.Sprint(wantErrs) {
		viol("error-handler-calls", fmt.Sprintf("upcast error handler calls %v, expected exactly %v (one per failing application, with the type and data of the failing step)", clipCalls(w.errs), clipCalls(wantErrs)))
	}
	// typed subscriptions: an event belongs to SubscribeWithReplay[T] iff its fully upcast type is T's
	want := map[string][]int{}
	for _, s := range log {
		_, wt, _ := w.reg.apply(s.data, s.typ)
		want[wt] = append(want[wt], s.id)
		// chain length for evidence
		n, ct := 0, s.typ
		for len(w.reg.ups[ct]) > 0 && n < 20 {
			ct = w.reg.ups[ct][0].to
			n++
		}
		if n > maxChain {
			maxChain = n
		}
	}
	subBus := func() *ebu.EventBus {
		b := ebu.New(ebu.WithStore(w.store), ebu.WithSubscriptionStore(ebu.NewMemoryStore()))
		return b
	}
	_ = subBus
	// a stored payload that does not decode into its final typed version makes SubscribeWithReplay
	// return the decode error; that behaviour is not this property's subject
	for _, s := range log {
		d, wt, _ := w.reg.apply(s.data, s.typ)
		var err error
		switch wt {
		case nV1:
			err = json.Unmarshal(d, &V1{})
		case nV2:
			err = json.Unmarshal(d, &V2{})
		case nV3:
			err = json.Unmarshal(d, &V3{})
		}
		if err != nil {
			return maxChain, false
		}
	}
	var g1, g2, g3 []int
	// subscriptions run on the same bus (same registry); fresh subscription ids every time
	sid := fmt.Sprintf("%s-%d", phase, rand.Int())
	ebu.WithSubscriptionStore(ebu.NewMemoryStore())(w.bus)
	if err := ebu.SubscribeWithReplay(context.Background(), w.bus, sid+"-1", func(v V1) { g1 = append(g1, v.ID) }); err != nil {
		viol("subscribe-error", "SubscribeWithReplay[V1]: "+err.Error())
	}
	if err := ebu.SubscribeWithReplay(context.Background(), w.bus, sid+"-2", func(v V2) { g2 = append(g2, v.ID) }); err != nil {
		viol("subscribe-error", "SubscribeWithReplay[V2]: "+err.Error())
	}
	if err := ebu.SubscribeWithReplay(context.Background(), w.bus, sid+"-3", func(v V3) { g3 = append(g3, v.ID) }); err != nil {
		viol("subscribe-error", "SubscribeWithReplay[V3]: "+err.Error())
	}
	ebu.ClearAll(w.bus)
	for _, c := range []struct {
		name string
		got  []int
	}{{nV1, g1}, {nV2, g2}, {nV3, g3}} {
		if fmt.Sprint(c.got) != fmt.Sprint(want[c.name]) {
			viol("subscription-after-upcast", fmt.Sprintf("SubscribeWithReplay for %s received events %v, the events whose fully upcast type is %s are %v", c.name, c.got, c.name, want[c.name]))
		}
	}
	return maxChain, false
}

func clipCalls(l []errCall) []errCall {
	out := make([]errCall, len(l))
	for i, c := range l {
		if len(c.Data) > 60 {
			c.Data = c.Data[:60] + "..."
		}
		out[i] = c
	}
	return out
}

func TestC17(t *testing.T) {
	run := vk.New("C17", "chains")
	defer run.Finish()
	defer func() {
		run.Count("routing_raw_upcasters_registered", routingUpcasters.Load())
		run.Count("materializer_replays_between_upcasting_replays", materializerReplays.Load())
	}()
	n := run.Scale(250, 8000)
	if run.Shard == 0 {
		registerDuringSubscribe(run)
	}
	for c := 0; c < n; c++ {
		r := run.Rand(uint64(c))
		nNames := 3 + r.IntN(6)
		names := []string{nV1, nV2, nV3}
		for i := 0; i < nNames; i++ {
			// every third world spells its raw names the way Go spells generic, pointer and slice types
			// (brackets, stars) or with other characters that mean something to a pattern matcher
			switch {
			case c%3 == 1:
				names = append(names, []string{"raw.Reading[int]", "*raw.Note", "[]raw.Item", "raw.invoice[v1]", "raw.what?", "raw.a*b", "raw.Page[raw.Item]", `raw.back\slash`}[i%8])
			default:
				names = append(names, fmt.Sprintf("raw.%c", 'A'+i))
			}
		}
		var viaOpt [][2]string
		if c%2 == 1 {
			for k := 0; k < 1+r.IntN(3); k++ {
				viaOpt = append(viaOpt, [2]string{names[r.IntN(len(names))], names[r.IntN(len(names))]})
			}
		}
		w := newWorld(viaOpt)
		w.names = names
		labels := append([]string{}, w.optLabels...)
		var regLog []string
		for _, l := range w.optLabels {
			regLog = append(regLog, "WithUpcast option "+l)
		}
		addRandom := func(k int) {
			for i := 0; i < k; i++ {
				switch x := r.IntN(10); {
				case x == 0:
					if w.addTyped12() {
						labels = append(labels, "t12")
						regLog = append(regLog, "RegisterUpcast[V1,V2]")
					}
				case x == 1:
					if w.addTyped23() {
						labels = append(labels, "t23")
						regLog = append(regLog, "RegisterUpcast[V2,V3]")
					}
				default:
					f, to := names[r.IntN(len(names))], names[r.IntN(len(names))]
					l := fmt.Sprintf("r%d", len(labels))
					if w.addRaw(f, to, l) {
						labels = append(labels, l)
						regLog = append(regLog, fmt.Sprintf("RegisterUpcastFunc(%s->%s as %s)", f, to, l))
					}
				}
			}
		}
		addRandom(2 + r.IntN(8))
		// log
		var log []stored
		nEv := 5 + r.IntN(26)
		for i := 0; i < nEv; i++ {
			typ := names[r.IntN(len(names))]
			id := i + 1
			if r.IntN(25) == 0 {
				id = 666 // arms the marshal bomb in V1->V2
			}
			var data json.RawMessage
			switch {
			case typ == nV1 && r.IntN(8) == 0:
				data = json.RawMessage(`{"ID":"not-a-number"}`) // typed unmarshal error
			case typ == nV1 && r.IntN(12) == 0:
				data = json.RawMessage(fmt.Sprintf(`{"ID":%d} {"ID":%d}`, id, id+1)) // a second document after the first: does not decode either
			default:
				m := map[string]any{"ID": id, "Trace": []string{}, "Extra": "e", "pad": json.RawMessage(jgen.Doc(r, false))}
				// events written by older versions omit fields (decode leaves the zero value)
				if r.IntN(3) == 0 {
					delete(m, "Trace")
				} else if r.IntN(4) == 0 {
					m["Trace"] = []string{"seed"}
				}
				if r.IntN(4) == 0 {
					delete(m, "Extra")
				}
				if r.IntN(10) == 0 {
					delete(m, "ID")
					id = 0
				}
				switch r.IntN(6) {
				case 0:
					m["Num"] = json.RawMessage(`12345678901234567890`)
				case 1:
					m["Num"] = json.RawMessage(`1.50`)
				case 2:
					m["Num"] = json.RawMessage(`1e2`)
				case 3:
					m["Num"] = "text"
				}
				data, _ = json.Marshal(m)
			}
			ts := jgen.Timestamp(r)
			off, _ := w.store.Append(context.Background(), &ebu.Event{Type: typ, Data: data, Timestamp: ts})
			log = append(log, stored{typ: typ, data: data, ts: ts, off: off, id: id})
		}
		witness := map[string]any{"case": c, "registrations_in_order": regLog, "event_types": typesOf(log)}
		// no failure, then a failure injected at every step (label), then the registry is extended /
		// a type is cleared after replays have happened, and everything is replayed again
		maxChain := 0
		for _, fl := range append([]string{""}, labels...) {
			w.fp.label = fl
			mc, _ := w.replayCheck(run, log, witness, "phase1")
			if mc > maxChain {
				maxChain = mc
			}
		}
		w.fp.label = ""
		switch r.IntN(5) {
		case 3:
			w.bus.ClearUpcasts()
			w.reg.ups = map[string][]*mup{}
			regLog = append(regLog, "ClearUpcasts()")
			addRandom(1 + r.IntN(3))
		case 4:
			// a registration made from inside the replay callback takes effect for the following events
			at := r.IntN(len(log))
			w.duringReplay = func(i int) {
				if i == at {
					addRandom(1 + r.IntN(2))
				}
			}
			w.fp.label = ""
			w.replayCheck(run, log, witness, "phase2-registration-inside-the-callback")
			w.duringReplay = nil
		case 0:
			addRandom(1 + r.IntN(4))
		case 1:
			x := names[r.IntN(len(names))]
			w.bus.ClearUpcastsForType(x)
			delete(w.reg.ups, x)
			regLog = append(regLog, "ClearUpcastsForType("+x+")")
		case 2:
			addRandom(1 + r.IntN(2))
			x := names[r.IntN(len(names))]
			w.bus.ClearUpcastsForType(x)
			delete(w.reg.ups, x)
			regLog = append(regLog, "ClearUpcastsForType("+x+")")
		}
		witness["registrations_in_order"] = regLog
		for _, fl := range append([]string{""}, labels...) {
			w.fp.label = fl
			mc, _ := w.replayCheck(run, log, witness, "phase2-after-registry-change")
			if mc > maxChain {
				maxChain = mc
			}
		}
		multi := false
		for _, l := range w.reg.ups {
			if len(l) >= 2 {
				multi = true
			}
		}
		run.Case(fmt.Sprintf("names%d regs%d chain%d multi%v ev%d", len(names), len(labels), maxChain, multi, nEv/5), maxChain >= 2 && (multi || len(labels) >= 2))
		run.Max("max_chain_length", int64(maxChain))
		run.Count("replays_checked", int64(2*(len(labels)+1)))
		run.Count("events_checked", int64(2*(len(labels)+1)*len(log)))
		if c < 2 && run.Shard == 0 {
			run.Sample(witness)
		}
	}
}

// registerDuringSubscribe: the registry is empty when SubscribeWithReplay is called; the handler
// registers the chain when it sees the first (native) event; the older events that follow in the
// log must then be upcast and delivered.
func registerDuringSubscribe(run *vk.Run) {
	store := ebu.NewMemoryStore()
	bus := ebu.New(ebu.WithStore(store), ebu.WithSubscriptionStore(ebu.NewMemoryStore()))
	ctx := context.Background()
	put := func(typ string, v any) {
		b, _ := json.Marshal(v)
		store.Append(ctx, &ebu.Event{Type: typ, Data: b, Timestamp: time.Unix(1, 0)})
	}
	put(nV3, V3{ID: 1})
	put(nV1, V1{ID: 2})
	put(nV2, V2{ID: 3})
	put(nV1, V1{ID: 4})
	var got []int
	registered := false
	err := ebu.SubscribeWithReplay(ctx, bus, "late-registration", func(v V3) {
		got = append(got, v.ID)
		if !registered {
			registered = true
			ebu.RegisterUpcast(bus, func(v V1) V2 { return V2{ID: v.ID, Trace: append(v.Trace, "t12")} })
			ebu.RegisterUpcast(bus, func(v V2) V3 { return V3{ID: v.ID, Trace: append(v.Trace, "t23")} })
		}
	})
	run.Case("register-during-subscribe", true)
	if err != nil || fmt.Sprint(got) != "[1 2 3 4]" {
		run.Violation("upcast:registered-during-subscribe", fmt.Sprintf("upcasters registered by the handler while SubscribeWithReplay was replaying (registry empty at the call): delivered %v, err %v; the later V1/V2 events must arrive upcast: [1 2 3 4]", got, err), nil)
	}
}

func typesOf(l []stored) []string {
	var s []string
	for _, x := range l {
		s = append(s, x.typ)
	}
	return s
}
