//go:build verif

package c17

import (
	"context"
	"encoding/json"
	"fmt"
	"testing"
	"time"

	ebu "github.com/jilio/ebu"

	"verif/harness/internal/vk"
)

// TestC17LongChains: linear chains of raw upcasters far longer than any small fixed capacity. Every
// step appends its label to a trace array in the payload; the callback must see the final type and
// the trace of ALL steps in order, with offset and timestamp unchanged, and the error handler must
// stay silent. A failure injected at a late step hands out the original event.
func TestC17LongChains(t *testing.T) {
	run := vk.New("C17", "long-chains")
	defer run.Finish()
	ctx := context.Background()
	idx := 0
	for _, L := range []int{1, 15, 16, 17, 31, 32, 33, 63, 64, 65, 100, 255, 256, 257, 1000} {
		for _, failAt := range []int{0, L} { // 0: no failure; L: the last step fails
			idx++
			if !run.Mine(idx) {
				continue
			}
			store := ebu.NewMemoryStore()
			errCalls := 0
			bus := ebu.New(ebu.WithStore(store), ebu.WithUpcastErrorHandler(func(string, json.RawMessage, error) { errCalls++ }))
			for k := 0; k < L; k++ {
				k := k
				from, to := fmt.Sprintf("long.v%d", k), fmt.Sprintf("long.v%d", k+1)
				if err := ebu.RegisterUpcastFunc(bus, from, to, func(d json.RawMessage) (json.RawMessage, string, error) {
					if failAt == k+1 {
						return nil, "", fmt.Errorf("verif: step %d fails", k+1)
					}
					var doc struct {
						Trace []int `json:"trace"`
					}
					if err := json.Unmarshal(d, &doc); err != nil {
						return nil, "", err
					}
					doc.Trace = append(doc.Trace, k+1)
					out, _ := json.Marshal(doc)
					return out, to, nil
				}); err != nil {
					t.Fatalf("registering step %d of an acyclic chain: %v", k, err)
				}
			}
			ts := time.Unix(1700000000, 123).UTC()
			// the oldest version, one from the middle of the chain, and the newest
			starts := []int{0, L / 2, L}
			var offs []ebu.Offset
			for _, s0 := range starts {
				o, _ := store.Append(ctx, &ebu.Event{Type: fmt.Sprintf("long.v%d", s0), Data: json.RawMessage(`{"trace":[]}`), Timestamp: ts})
				offs = append(offs, o)
			}
			i := 0
			err := bus.ReplayWithUpcast(ctx, ebu.OffsetOldest, func(e *ebu.StoredEvent) error {
				s0 := starts[i]
				wantType, wantLen := fmt.Sprintf("long.v%d", L), L-s0
				if failAt != 0 && s0 < L {
					wantType, wantLen = fmt.Sprintf("long.v%d", s0), 0 // all or nothing: the original
				}
				var doc struct {
					Trace []int `json:"trace"`
				}
				json.Unmarshal(e.Data, &doc)
				ok := e.Type == wantType && len(doc.Trace) == wantLen && e.Offset == offs[i] && e.Timestamp.Equal(ts)
				for j, v := range doc.Trace {
					ok = ok && v == s0+j+1
				}
				if !ok {
					run.Violation("upcast:long-chain", fmt.Sprintf("chain of %d raw upcasters (failure injected at step %d), event stored as long.v%d: the callback saw type %q with a trace of %d steps, want %q with %d steps in order", L, failAt, s0, e.Type, len(doc.Trace), wantType, wantLen),
						map[string]any{"chain": L, "fail_at": failAt, "stored_version": s0})
				}
				i++
				return nil
			})
			wantErrCalls := 0
			if failAt != 0 {
				wantErrCalls = 2 // the two events that are below the newest version
				if L/2 == L {
					wantErrCalls = 1
				}
			}
			if err != nil || i != len(starts) || errCalls != wantErrCalls {
				run.Violation("upcast:long-chain-error-handler-calls", fmt.Sprintf("chain of %d raw upcasters (failure injected at step %d): ReplayWithUpcast returned %v after %d of %d events, the error handler ran %d times, want %d", L, failAt, err, i, len(starts), errCalls, wantErrCalls), map[string]any{"chain": L, "fail_at": failAt})
			}
			run.Case(fmt.Sprintf("L%d fail%d", L, failAt), L > 2)
			run.Max("longest_chain", int64(L))
		}
	}
	run.Exhaustive(true)
}
