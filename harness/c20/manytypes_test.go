//go:build verif

package c20

import (
	"context"
	"encoding/json"
	"fmt"
	"reflect"
	"testing"

	ebu "github.com/jilio/ebu"
	ebuotel "github.com/jilio/ebu/otel"
	"go.opentelemetry.io/otel/attribute"
	"go.opentelemetry.io/otel/codes"
	sdkmetric "go.opentelemetry.io/otel/sdk/metric"
	"go.opentelemetry.io/otel/sdk/metric/metricdata"
	sdktrace "go.opentelemetry.io/otel/sdk/trace"
	"go.opentelemetry.io/otel/sdk/trace/tracetest"

	"verif/harness/internal/vk"
)

// manyEv carries its own type name: hundreds of distinct event type names pass through one
// Observability object.
type manyEv struct {
	ID   int
	Fail bool
}

func (e manyEv) EventTypeName() string { return fmt.Sprintf("many.type-%04d", e.ID) }
func (e manyEv) MarshalJSON() ([]byte, error) {
	if e.Fail {
		return nil, fmt.Errorf("verif: unencodable")
	}
	return json.Marshal(map[string]int{"id": e.ID})
}

// TestC20ManyTypes: one OpenTelemetry Observability sees N distinct event type names (N far beyond
// any small table), each published a name-dependent number of times to a sync, an async and a
// sometimes-panicking handler on a persistent bus. Per type name: the publish / handler / persist
// spans carry that name and descend from its publish span, and the counters attributed to that name
// equal its true numbers.
func TestC20ManyTypes(t *testing.T) {
	run := vk.New("C20", "otel-many-types")
	defer run.Finish()
	for ni, n := range []int{40, 129, 300, 1100} {
		if !run.Mine(ni) {
			continue
		}
		sr, reader := tracetest.NewSpanRecorder(), sdkmetric.NewManualReader()
		tp := sdktrace.NewTracerProvider(sdktrace.WithSpanProcessor(sr), sdktrace.WithSampler(sdktrace.AlwaysSample()))
		o, err := ebuotel.New(ebuotel.WithTracerProvider(tp), ebuotel.WithMeterProvider(sdkmetric.NewMeterProvider(sdkmetric.WithReader(reader))))
		if err != nil {
			t.Fatal(err)
		}
		bus := ebu.New(ebu.WithObservability(o), ebu.WithStore(ebu.NewMemoryStore()), ebu.WithPanicHandler(func(any, reflect.Type, any) {}))
		ebu.Subscribe(bus, func(manyEv) {})
		ebu.Subscribe(bus, func(manyEv) {}, ebu.Async())
		ebu.Subscribe(bus, func(e manyEv) {
			if e.ID%3 == 0 {
				panic("c20: boom")
			}
		})
		type truth struct{ pubs, handlers, panics, persists, perrs int64 }
		want := map[string]*truth{}
		for id := 0; id < n; id++ {
			e := manyEv{ID: id, Fail: id%5 == 4}
			tr := &truth{}
			want[e.EventTypeName()] = tr
			for k := 0; k <= id%3; k++ {
				ebu.PublishContext(bus, context.Background(), e)
				tr.pubs++
				tr.handlers += 3
				if id%3 == 0 {
					tr.panics++
				}
				if e.Fail {
					// no JSON encoding: no append attempt, hence no persist span / count
				} else {
					tr.persists++
				}
			}
		}
		bus.Wait()
		viol := func(rule, desc string) {
			run.Violation("otel:many-types:"+rule, fmt.Sprintf("%d distinct event type names through one Observability: %s", n, desc), map[string]any{"types": n})
		}
		// spans: name suffix and event.type attribute agree, children carry their parent's type
		typeOf := func(s sdktrace.ReadOnlySpan) string {
			for _, a := range s.Attributes() {
				if a.Key == attribute.Key("event.type") {
					return a.Value.AsString()
				}
			}
			return ""
		}
		pubType := map[[8]byte]string{}
		got := map[string]*truth{}
		g := func(name string) *truth {
			if got[name] == nil {
				got[name] = &truth{}
			}
			return got[name]
		}
		for _, s := range sr.Ended() {
			et := typeOf(s)
			switch {
			case len(s.Name()) > 18 && s.Name()[:18] == "eventbus.publish: ":
				if s.Name()[18:] != et {
					viol("span-name", fmt.Sprintf("publish span %q carries event.type %q", s.Name(), et))
				}
				pubType[s.SpanContext().SpanID()] = et
				g(et).pubs++
			}
		}
		for _, s := range sr.Ended() {
			et := typeOf(s)
			n := s.Name()
			isH := len(n) >= 16 && n[:16] == "eventbus.handler"
			isP := len(n) > 18 && n[:18] == "eventbus.persist: "
			if !isH && !isP {
				continue
			}
			if pt, ok := pubType[s.Parent().SpanID()]; !ok || pt != et {
				viol("child-type", fmt.Sprintf("span %q (event.type %q) hangs under a publish span of type %q", n, et, pt))
				break
			}
			if isP && n[18:] != et {
				viol("span-name", fmt.Sprintf("persist span %q carries event.type %q", n, et))
			}
			if isH {
				g(et).handlers++
				if s.Status().Code == codes.Error {
					g(et).panics++
				}
			} else {
				g(et).persists++
			}
		}
		for name, w := range want {
			gt := g(name)
			if gt.pubs != w.pubs || gt.handlers != w.handlers || gt.panics != w.panics || gt.persists != w.persists {
				viol("spans-per-type", fmt.Sprintf("type %q: %d publish / %d handler (%d failed) / %d persist spans, true numbers %d / %d (%d) / %d", name, gt.pubs, gt.handlers, gt.panics, gt.persists, w.pubs, w.handlers, w.panics, w.persists))
				break
			}
		}
		// counters per event.type attribute
		var rm metricdata.ResourceMetrics
		if err := reader.Collect(context.Background(), &rm); err != nil {
			t.Fatal(err)
		}
		sums := map[string]map[string]int64{}
		for _, sm := range rm.ScopeMetrics {
			for _, m := range sm.Metrics {
				if d, ok := m.Data.(metricdata.Sum[int64]); ok {
					for _, dp := range d.DataPoints {
						et, _ := dp.Attributes.Value(attribute.Key("event.type"))
						if sums[m.Name] == nil {
							sums[m.Name] = map[string]int64{}
						}
						sums[m.Name][et.AsString()] += dp.Value
					}
				}
			}
		}
		for name, w := range want {
			for metric, v := range map[string]int64{"eventbus.publish.count": w.pubs, "eventbus.handler.count": w.handlers, "eventbus.handler.errors": w.panics, "eventbus.persist.count": w.persists} {
				if sums[metric][name] != v {
					viol("counter-per-type", fmt.Sprintf("counter %s attributed to event type %q is %d, the true number is %d", metric, name, sums[metric][name], v))
					break
				}
			}
		}
		run.Case(fmt.Sprintf("types%d", n), true)
		run.Max("max_distinct_event_type_names", int64(n))
		run.Count("spans_checked", int64(len(sr.Ended())))
	}
	run.Exhaustive(true)
}
