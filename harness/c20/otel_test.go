//go:build verif

package c20

import (
	"context"
	"fmt"
	"go.opentelemetry.io/otel/attribute"
	"strings"
	"testing"

	ebu "github.com/jilio/ebu"
	ebuotel "github.com/jilio/ebu/otel"
	"go.opentelemetry.io/otel/codes"
	sdkmetric "go.opentelemetry.io/otel/sdk/metric"
	"go.opentelemetry.io/otel/sdk/metric/metricdata"
	sdktrace "go.opentelemetry.io/otel/sdk/trace"
	"go.opentelemetry.io/otel/sdk/trace/tracetest"
	"go.opentelemetry.io/otel/trace"

	"verif/harness/internal/prog"
	"verif/harness/internal/vk"
)

type otelKit struct {
	sr     *tracetest.SpanRecorder
	reader *sdkmetric.ManualReader
	tp     *sdktrace.TracerProvider
}

// TestC20OTel runs the same workloads with the OpenTelemetry implementation over the SDK's span
// recorder and manual metric reader.
func TestC20OTel(t *testing.T) {
	run := vk.New("C20", "otel")
	defer run.Finish()
	h := prog.NewHarness(run, "otel")
	defer h.Dog.Stop()
	var kit *otelKit
	factory := func(e *prog.Engine) ebu.Observability {
		kit = &otelKit{sr: tracetest.NewSpanRecorder(), reader: sdkmetric.NewManualReader()}
		kit.tp = sdktrace.NewTracerProvider(sdktrace.WithSpanProcessor(kit.sr), sdktrace.WithSampler(sdktrace.AlwaysSample()))
		mp := sdkmetric.NewMeterProvider(sdkmetric.WithReader(kit.reader))
		o, err := ebuotel.New(ebuotel.WithTracerProvider(kit.tp), ebuotel.WithMeterProvider(mp))
		if err != nil {
			panic(err)
		}
		return o
	}
	after := func(eng *prog.Engine) {
		h.CountStats(eng)
		sig, nt := eng.ObsSignature()
		run.Case(sig+"|"+eng.Signature(), nt)
		if eng.Failed() {
			return
		}
		if msg, sg := checkOTel(eng, kit, run); msg != "" {
			run.Violation("otel:"+sg, msg, map[string]any{"program": eng.P})
		}
		if msg := eng.ExtraObsProblem(); msg != "" {
			run.Violation("otel:earlier-observer-unbalanced", msg, map[string]any{"program": eng.P})
		}
	}
	if p := prog.ReplayProgram(); p != nil {
		h.Exec(0, p, factory, after)
		return
	}
	n := run.Scale(1200, 25000)
	pf := profiles()
	for i := 0; i < n; i++ {
		p := prog.Gen(run.Rand(uint64(i)), h.Drivers, pf[i%len(pf)])
		p.Cfg.Obs = true
		h.Exec(i, p, factory, after)
		if i < 1 && run.Shard == 0 {
			run.Sample(map[string]any{"program": p, "spans_ended": len(kit.sr.Ended())})
		}
	}
}

func checkOTel(eng *prog.Engine, kit *otelKit, run *vk.Run) (string, string) {
	started, ended := kit.sr.Started(), kit.sr.Ended()
	run.Count("spans_started", int64(len(started)))
	run.Count("spans_ended", int64(len(ended)))
	endCount := map[trace.SpanID]int{}
	for _, s := range ended {
		endCount[s.SpanContext().SpanID()]++
	}
	for _, s := range started {
		if endCount[s.SpanContext().SpanID()] != 1 {
			return fmt.Sprintf("span %q was started but ended %d times", s.Name(), endCount[s.SpanContext().SpanID()]), "span-not-ended-once"
		}
	}
	if len(started) != len(ended) {
		return fmt.Sprintf("%d spans started, %d ended", len(started), len(ended)), "started-ne-ended"
	}
	// publish spans in start order correspond to publishes in call order
	type pubSpan struct {
		id                                  trace.SpanID
		handlers, handlerErr, persist, perr int
	}
	var pubs []*pubSpan
	byID := map[trace.SpanID]*pubSpan{}
	for _, s := range started {
		if strings.HasPrefix(s.Name(), "eventbus.publish: ") {
			ps := &pubSpan{id: s.SpanContext().SpanID()}
			pubs = append(pubs, ps)
			byID[ps.id] = ps
		}
	}
	for _, s := range ended {
		n := s.Name()
		isH := strings.HasPrefix(n, "eventbus.handler")
		isP := strings.HasPrefix(n, "eventbus.persist: ")
		if !isH && !isP {
			continue
		}
		par := byID[s.Parent().SpanID()]
		if par == nil || !s.Parent().IsValid() {
			return fmt.Sprintf("span %q is not a child of a publish span", n), "not-child-of-publish"
		}
		isErr := s.Status().Code == codes.Error
		if isH {
			par.handlers++
			if isErr {
				par.handlerErr++
			}
		} else {
			par.persist++
			if isErr {
				par.perr++
			}
		}
	}
	truth := eng.PerPublishTruth()
	if len(truth) != len(pubs) {
		return fmt.Sprintf("%d publish spans for %d publishes", len(pubs), len(truth)), "publish-span-count"
	}
	for i, tr := range truth {
		ps := pubs[i]
		if ps.handlers != tr.Handlers || ps.handlerErr != tr.Panics {
			return fmt.Sprintf("publish #%d: %d handler spans (%d with error status) for %d handler runs (%d panicked)", i+1, ps.handlers, ps.handlerErr, tr.Handlers, tr.Panics), "handler-spans"
		}
		if ps.persist != tr.Appends || ps.perr != tr.AppendFails {
			return fmt.Sprintf("publish #%d: %d persist spans (%d with error status) for %d append attempts (%d failed)", i+1, ps.persist, ps.perr, tr.Appends, tr.AppendFails), "persist-spans"
		}
	}
	// metrics
	var rm metricdata.ResourceMetrics
	if err := kit.reader.Collect(context.Background(), &rm); err != nil {
		return "collect: " + err.Error(), "collect"
	}
	sums := map[string]int64{}
	hist := map[string]uint64{}
	byMode := map[string]int64{} // "<metric>|async=<v>" for data points that carry the async attribute
	mode := func(name string, set attribute.Set, n int64) {
		if v, ok := set.Value("async"); ok {
			byMode[fmt.Sprintf("%s|async=%v", name, v.AsBool())] += n
		}
	}
	for _, sm := range rm.ScopeMetrics {
		for _, m := range sm.Metrics {
			switch d := m.Data.(type) {
			case metricdata.Sum[int64]:
				for _, dp := range d.DataPoints {
					sums[m.Name] += dp.Value
					mode(m.Name, dp.Attributes, dp.Value)
				}
			case metricdata.Histogram[float64]:
				for _, dp := range d.DataPoints {
					hist[m.Name] += dp.Count
					mode(m.Name, dp.Attributes, int64(dp.Count))
				}
			}
		}
	}
	pub, runs, panics, attempts, fails := eng.Truth()
	want := map[string]int64{"eventbus.publish.count": int64(pub), "eventbus.handler.count": int64(runs), "eventbus.handler.errors": int64(panics),
		"eventbus.persist.count": int64(attempts), "eventbus.persist.errors": int64(fails)}
	for k, v := range want {
		if sums[k] != v {
			return fmt.Sprintf("counter %s = %d, true number %d", k, sums[k], v), "counter:" + k
		}
	}
	if hist["eventbus.handler.duration"] != uint64(runs) || hist["eventbus.persist.duration"] != uint64(attempts) {
		return fmt.Sprintf("duration histograms count %d/%d for %d handler runs / %d persist attempts", hist["eventbus.handler.duration"], hist["eventbus.persist.duration"], runs, attempts), "histogram-count"
	}
	// the handler metrics carry the dispatch mode: each mode's numbers are its own
	mruns, mpanics := eng.TruthByMode()
	for i, label := range []string{"async=false", "async=true"} {
		for name, v := range map[string]int{"eventbus.handler.count": mruns[i], "eventbus.handler.errors": mpanics[i], "eventbus.handler.duration": mruns[i]} {
			if _, carries := byMode[name+"|async=false"]; !carries {
				if _, carries = byMode[name+"|async=true"]; !carries {
					continue // this metric is not split by mode
				}
			}
			if got := byMode[name+"|"+label]; got != int64(v) {
				return fmt.Sprintf("metric %s with %s = %d, true number %d", name, label, got, v), "metric-by-mode:" + name
			}
		}
	}
	run.Count("metric_points_compared", 13)
	return "", ""
}
