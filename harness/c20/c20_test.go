//go:build verif

// C20 — Observability callbacks are balanced, nested and truthful (recording implementation).
package c20

import (
	"testing"

	"verif/harness/internal/prog"
	"verif/harness/internal/vk"
)

func profiles() []prog.Profile {
	return []prog.Profile{
		{MinTypes: 1, MaxTypes: 3, MinOps: 8, MaxOps: 35, Async: true, Scripts: true, Panics: true, Cancels: true, Obs: true, Store: true, Hooks: true},
		{MinTypes: 1, MaxTypes: 2, MinOps: 6, MaxOps: 20, Async: true, Panics: true, Obs: true, Store: true, FewClasses: true},
		{MinTypes: 2, MaxTypes: 4, MinOps: 10, MaxOps: 40, Async: true, Scripts: true, Panics: true, Cancels: true, Obs: true},
	}
}

func TestC20Recording(t *testing.T) {
	run := vk.New("C20", "recording")
	defer run.Finish()
	h := prog.NewHarness(run, "obs")
	defer h.Dog.Stop()
	after := func(eng *prog.Engine) {
		eng.CheckObs()
		h.CountStats(eng)
		sig, nt := eng.ObsSignature()
		run.Case(sig+"|"+eng.Signature(), nt)
	}
	if p := prog.ReplayProgram(); p != nil {
		h.Exec(0, p, nil, after)
		return
	}
	if run.Shard == 0 {
		goexitHandlers(run)
		abandonedSequentialWait(run)
	}
	n := run.Scale(2500, 120000)
	pf := profiles()
	for i := 0; i < n; i++ {
		p := prog.Gen(run.Rand(uint64(i)), h.Drivers, pf[i%len(pf)])
		h.Exec(i, p, nil, after)
		if i < 2 && run.Shard == 0 {
			run.Sample(map[string]any{"program": p})
		}
	}
}
