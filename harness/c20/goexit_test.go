//go:build verif

package c20

import (
	"context"
	"fmt"
	"runtime"
	"sync"
	"time"

	ebu "github.com/jilio/ebu"

	"verif/harness/internal/vk"
)

// tally is an Observability implementation that only counts.
type tally struct {
	mu                           sync.Mutex
	hStart, hDone, pStart, pDone int
	errs                         int
	completeWithoutStart         int
}

func (o *tally) OnPublishStart(ctx context.Context, _ string, _ any) context.Context {
	o.mu.Lock()
	o.pStart++
	o.mu.Unlock()
	return ctx
}
func (o *tally) OnPublishComplete(context.Context, string) {
	o.mu.Lock()
	o.pDone++
	o.mu.Unlock()
}
func (o *tally) OnHandlerStart(ctx context.Context, _ string, _ bool) context.Context {
	o.mu.Lock()
	o.hStart++
	o.mu.Unlock()
	return ctx
}
func (o *tally) OnHandlerComplete(_ context.Context, _ time.Duration, err error) {
	o.mu.Lock()
	o.hDone++
	if o.hDone > o.hStart {
		o.completeWithoutStart++
	}
	if err != nil {
		o.errs++
	}
	o.mu.Unlock()
}
func (o *tally) OnPersistStart(ctx context.Context, _ string, _ int64) context.Context { return ctx }
func (o *tally) OnPersistComplete(context.Context, time.Duration, error)               {}

type gxEv struct{ N int }

// goexitHandlers: an asynchronous handler that ends its goroutine (runtime.Goexit - what t.FailNow,
// t.Fatal and t.Skip do inside a handler) has started and has completed like any other: every
// OnHandlerStart has its OnHandlerComplete, without an error for the ones that did not panic.
func goexitHandlers(run *vk.Run) {
	for v := 0; v < 8; v++ {
		ctxAware, seq, mixed := v&1 != 0, v&2 != 0, v&4 != 0
		obs := &tally{}
		bus := ebu.New(ebu.WithObservability(obs))
		var opts []ebu.SubscribeOption
		opts = append(opts, ebu.Async())
		if seq {
			opts = append(opts, ebu.Sequential())
		}
		if ctxAware {
			ebu.SubscribeContext(bus, func(context.Context, gxEv) { runtime.Goexit() }, opts...)
		} else {
			ebu.Subscribe(bus, func(gxEv) { runtime.Goexit() }, opts...)
		}
		normal := 0
		if mixed {
			ebu.Subscribe(bus, func(gxEv) { normal++ })
			ebu.Subscribe(bus, func(e gxEv) {
				if e.N == 2 {
					panic("verif: a handler next to the one that exits")
				}
			}, ebu.Async())
		}
		for k := 1; k <= 3; k++ {
			ebu.Publish(bus, gxEv{k})
		}
		done := make(chan struct{})
		go func() { bus.Wait(); close(done) }()
		select {
		case <-done:
		case <-time.After(30 * time.Second):
			// not a verdict of this monitor (C06 owns Wait): inconclusive for the balance check
			run.Count("goexit_cases_where_wait_did_not_return_in_30s", 1)
			continue
		}
		obs.mu.Lock()
		hs, hd, ps, pd, errs := obs.hStart, obs.hDone, obs.pStart, obs.pDone, obs.errs
		obs.mu.Unlock()
		wantH, wantErr := 3, 0
		if mixed {
			wantH, wantErr = 9, 1
		}
		run.Case(fmt.Sprintf("goexit ctx%v seq%v mixed%v", ctxAware, seq, mixed), true)
		if hs != wantH || hd != hs || ps != 3 || pd != 3 || errs != wantErr {
			run.Violation("obs:handler-ending-its-goroutine", fmt.Sprintf("three publishes to an asynchronous handler that calls runtime.Goexit (context-aware %v, sequential %v, next to other handlers %v): %d handler starts, %d completes (%d with an error; want %d starts = completes, %d errors), %d / %d publish starts / completes", ctxAware, seq, mixed, hs, hd, errs, wantH, wantErr, ps, pd), nil)
		}
	}
}

// abandonedSequentialWait: a publish reaches a synchronous Sequential handler that is busy for
// another publisher, and its context is cancelled while it waits its turn. Whether the handler then
// still runs for it or not, every OnHandlerComplete has its OnHandlerStart and both publishes are
// started and completed once.
func abandonedSequentialWait(run *vk.Run) {
	for variant := 0; variant < 4; variant++ {
		ctxAware, deadline := variant&1 != 0, variant&2 != 0
		obs := &tally{}
		bus := ebu.New(ebu.WithObservability(obs))
		in1, gate := make(chan struct{}), make(chan struct{})
		body := func(n int) {
			if n == 1 {
				close(in1)
				<-gate
			}
		}
		if ctxAware {
			ebu.SubscribeContext(bus, func(_ context.Context, e gxEv) { body(e.N) }, ebu.Sequential())
		} else {
			ebu.Subscribe(bus, func(e gxEv) { body(e.N) }, ebu.Sequential())
		}
		var wg sync.WaitGroup
		wg.Add(2)
		go func() { defer wg.Done(); ebu.Publish(bus, gxEv{1}) }()
		<-in1
		ctx2, cancel2 := context.WithCancel(context.Background())
		if deadline {
			ctx2, cancel2 = context.WithTimeout(context.Background(), 2*time.Millisecond)
		}
		go func() { defer wg.Done(); ebu.PublishContext(bus, ctx2, gxEv{2}) }()
		for y := 0; y < 300; y++ {
			runtime.Gosched()
		}
		time.Sleep(4 * time.Millisecond)
		cancel2()
		for y := 0; y < 300; y++ {
			runtime.Gosched()
		}
		time.Sleep(2 * time.Millisecond)
		close(gate)
		wg.Wait()
		bus.Wait()
		obs.mu.Lock()
		hs, hd, ps, pd, cws := obs.hStart, obs.hDone, obs.pStart, obs.pDone, obs.completeWithoutStart
		obs.mu.Unlock()
		run.Case(fmt.Sprintf("context cancelled while waiting for a busy Sequential handler|ctx%v|deadline%v", ctxAware, deadline), true)
		if hs != hd || cws != 0 || ps != 2 || pd != 2 {
			run.Violation("obs:abandoned-sequential-wait", fmt.Sprintf("a publish waited for a synchronous Sequential handler (context-aware %v) that was busy for another publisher, and its context ended meanwhile (deadline %v): %d handler starts, %d completes, %d completes arrived without a start before them; %d / %d publish starts / completes (want 2 / 2)", ctxAware, deadline, hs, hd, cws, ps, pd), nil)
		}
	}
}
