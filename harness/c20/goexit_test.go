//go:build verif

package c20

import (
	"context"
	"fmt"
	"runtime"
	"sync"
	"time"

	ebu "github.com/jilio/ebu"

	"verif/harness/internal/vk"
)

// tally is an Observability implementation that only counts.
type tally struct {
	mu                           sync.Mutex
	hStart, hDone, pStart, pDone int
	errs                         int
}

func (o *tally) OnPublishStart(ctx context.Context, _ string, _ any) context.Context {
	o.mu.Lock()
	o.pStart++
	o.mu.Unlock()
	return ctx
}
func (o *tally) OnPublishComplete(context.Context, string) {
	o.mu.Lock()
	o.pDone++
	o.mu.Unlock()
}
func (o *tally) OnHandlerStart(ctx context.Context, _ string, _ bool) context.Context {
	o.mu.Lock()
	o.hStart++
	o.mu.Unlock()
	return ctx
}
func (o *tally) OnHandlerComplete(_ context.Context, _ time.Duration, err error) {
	o.mu.Lock()
	o.hDone++
	if err != nil {
		o.errs++
	}
	o.mu.Unlock()
}
func (o *tally) OnPersistStart(ctx context.Context, _ string, _ int64) context.Context { return ctx }
func (o *tally) OnPersistComplete(context.Context, time.Duration, error)               {}

type gxEv struct{ N int }

// goexitHandlers: an asynchronous handler that ends its goroutine (runtime.Goexit - what t.FailNow,
// t.Fatal and t.Skip do inside a handler) has started and has completed like any other: every
// OnHandlerStart has its OnHandlerComplete, without an error for the ones that did not panic.
func goexitHandlers(run *vk.Run) {
	for v := 0; v < 8; v++ {
		ctxAware, seq, mixed := v&1 != 0, v&2 != 0, v&4 != 0
		obs := &tally{}
		bus := ebu.New(ebu.WithObservability(obs))
		var opts []ebu.SubscribeOption
		opts = append(opts, ebu.Async())
		if seq {
			opts = append(opts, ebu.Sequential())
		}
		if ctxAware {
			ebu.SubscribeContext(bus, func(context.Context, gxEv) { runtime.Goexit() }, opts...)
		} else {
			ebu.Subscribe(bus, func(gxEv) { runtime.Goexit() }, opts...)
		}
		normal := 0
		if mixed {
			ebu.Subscribe(bus, func(gxEv) { normal++ })
			ebu.Subscribe(bus, func(e gxEv) {
				if e.N == 2 {
					panic("verif: a handler next to the one that exits")
				}
			}, ebu.Async())
		}
		for k := 1; k <= 3; k++ {
			ebu.Publish(bus, gxEv{k})
		}
		done := make(chan struct{})
		go func() { bus.Wait(); close(done) }()
		select {
		case <-done:
		case <-time.After(30 * time.Second):
			// not a verdict of this monitor (C06 owns Wait): inconclusive for the balance check
			run.Count("goexit_cases_where_wait_did_not_return_in_30s", 1)
			continue
		}
		obs.mu.Lock()
		hs, hd, ps, pd, errs := obs.hStart, obs.hDone, obs.pStart, obs.pDone, obs.errs
		obs.mu.Unlock()
		wantH, wantErr := 3, 0
		if mixed {
			wantH, wantErr = 9, 1
		}
		run.Case(fmt.Sprintf("goexit ctx%v seq%v mixed%v", ctxAware, seq, mixed), true)
		if hs != wantH || hd != hs || ps != 3 || pd != 3 || errs != wantErr {
			run.Violation("obs:handler-ending-its-goroutine", fmt.Sprintf("three publishes to an asynchronous handler that calls runtime.Goexit (context-aware %v, sequential %v, next to other handlers %v): %d handler starts, %d completes (%d with an error; want %d starts = completes, %d errors), %d / %d publish starts / completes", ctxAware, seq, mixed, hs, hd, errs, wantH, wantErr, ps, pd), nil)
		}
	}
}
