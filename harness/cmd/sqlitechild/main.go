// sqlitechild is the writer process of C14: it opens the SQLite store at the given path, performs a
// seeded single-writer sequence of Append / SaveOffset calls and writes one acknowledgement line
// (O_APPEND, after the call returned) per acknowledged operation. The parent kills it at chosen
// instants (or lets it close cleanly) and checks the database against the acknowledgements.
//
// usage: sqlitechild <db> <ackfile> <seed> <ops> <close:0|1> [option-mask]
package main

import (
	"context"
	"encoding/json"
	"fmt"
	"math/rand/v2"
	"os"
	"strconv"
	"time"

	ebu "github.com/jilio/ebu"
	"github.com/jilio/ebu/stores/sqlite"
)

// Plan returns the operation kinds of a run: "A" append, "S" save offset, "R" save with a dead
// context first and then again with a live one (retry of the same offset), "T" a replay-style pass:
// the log is streamed and the position saved after every event while the stream is still open.
func Plan(seed uint64, n int) []string {
	r := rand.New(rand.NewPCG(seed, 0xC14))
	ops := make([]string, n)
	for i := range ops {
		switch x := r.IntN(10); {
		case i == 0 || x < 6:
			ops[i] = "A"
		case x < 8:
			ops[i] = "S"
		case x < 9:
			ops[i] = "T"
		default:
			ops[i] = "R"
		}
	}
	return ops
}

// three subscription ids that differ only in letter case: three subscriptions
var subIDs = []string{"billing-sub", "Billing-Sub", "BILLING-SUB"}

// zones the appended timestamps are expressed in (the instant is what must survive)
var zones = []*time.Location{time.UTC, time.FixedZone("LMT", 3600+17*60+37), time.FixedZone("", -(4*3600 + 59)), time.FixedZone("EST", -5*3600), time.FixedZone("odd/+x", 1800*9)}

func main() {
	if len(os.Args) < 6 {
		fmt.Fprintln(os.Stderr, "usage: sqlitechild <db> <ackfile> <seed> <ops> <close>")
		os.Exit(2)
	}
	db, ackPath := os.Args[1], os.Args[2]
	seed, _ := strconv.ParseUint(os.Args[3], 10, 64)
	n, _ := strconv.Atoi(os.Args[4])
	doClose := os.Args[5] == "1"
	// optional 6th argument: bit mask of store options for this run (1: automatic migration off -
	// only on an existing database, 2: stream batch size 3, 4: short busy timeout, 16: zero busy timeout)
	var opts []sqlite.Option
	if len(os.Args) > 6 {
		m, _ := strconv.Atoi(os.Args[6])
		if _, err := os.Stat(db); err == nil && m&1 != 0 {
			opts = append(opts, sqlite.WithAutoMigrate(false))
		}
		if m&2 != 0 {
			opts = append(opts, sqlite.WithStreamBatchSize(3))
		}
		if m&4 != 0 {
			opts = append(opts, sqlite.WithBusyTimeout(50*time.Millisecond))
		}
		if m&16 != 0 {
			opts = append(opts, sqlite.WithBusyTimeout(0)) // fail at once on contention (there is none: single writer)
		}
	}
	st, err := sqlite.New(db, opts...)
	if err != nil {
		fmt.Fprintln(os.Stderr, "open:", err)
		os.Exit(3)
	}
	ack, err := os.OpenFile(ackPath, os.O_APPEND|os.O_CREATE|os.O_WRONLY, 0o644)
	if err != nil {
		fmt.Fprintln(os.Stderr, "ack:", err)
		os.Exit(3)
	}
	ctx := context.Background()
	// continue the id sequence of earlier cycles
	evs, _, err := st.Read(ctx, ebu.OffsetOldest, 0)
	if err != nil {
		fmt.Fprintln(os.Stderr, "read:", err)
		os.Exit(4)
	}
	next := len(evs)
	last, prev := ebu.OffsetOldest, ebu.OffsetOldest
	if next > 0 {
		last = evs[next-1].Offset
	}
	if next > 1 {
		prev = evs[next-2].Offset
	}
	var all []ebu.Offset
	for _, e := range evs {
		all = append(all, e.Offset)
	}
	r2 := rand.New(rand.NewPCG(seed, 0xC15))
	fmt.Fprintf(ack, "START %d\n", next)
	dead, cancel := context.WithCancel(ctx)
	cancel()
	for i, op := range Plan(seed, n) {
		switch op {
		case "A":
			data, _ := json.Marshal(map[string]any{"id": next, "pad": fmt.Sprintf("%0*d", 10+(next*37)%300, next)})
			off, err := st.Append(ctx, &ebu.Event{Type: "c14.event", Data: data, Timestamp: time.Unix(1700000000+int64(next), 0).In(zones[next%len(zones)])})
			if err != nil {
				fmt.Fprintln(os.Stderr, "append:", err)
				os.Exit(5)
			}
			fmt.Fprintf(ack, "A %d %d %s\n", i, next, off)
			prev, last = last, off
			all = append(all, off)
			next++
		case "T":
			sub := subIDs[i%3]
			n := 0
			for e, err := range st.ReadStream(ctx, ebu.OffsetOldest) {
				if err != nil {
					fmt.Fprintln(os.Stderr, "stream:", err)
					os.Exit(5)
				}
				fmt.Fprintf(ack, "I %d %s %s\n", i, sub, e.Offset)
				if err := st.SaveOffset(ctx, sub, e.Offset); err != nil {
					fmt.Fprintln(os.Stderr, "save:", err)
					os.Exit(5)
				}
				fmt.Fprintf(ack, "S %d %s %s\n", i, sub, e.Offset)
				if n++; n >= 6 {
					break
				}
			}
		case "S", "R":
			sub := subIDs[i%3]
			if op == "R" {
				// a save under a dead context, of an older offset: if the store claims it succeeded, that
				// is what must be found after reopening (and the live save below is skipped)
				fmt.Fprintf(ack, "I %d %s %s\n", i, sub, prev) // intent, logged before the call
				if err := st.SaveOffset(dead, sub, prev); err == nil {
					fmt.Fprintf(ack, "S %d %s %s\n", i, sub, prev)
					continue
				}
			}
			// which position is saved: mostly the newest event's; sometimes an older one (the consumer
			// rewinds / zig-zags), sometimes one beyond this log (positions of another log: the store is
			// only the subscription store of that bus)
			off := last
			switch x := r2.IntN(10); {
			case x < 2 && len(all) > 0:
				off = all[r2.IntN(len(all))]
			case x == 3:
				off = []ebu.Offset{ebu.OffsetOldest, "0"}[r2.IntN(2)] // rewound to the very start
			case x == 4:
				off = ebu.OffsetNewest // "from now on": a store may refuse to keep it, but not keep something else
			case x == 2:
				n, _ := strconv.Atoi(string(last))
				off = ebu.Offset(strconv.Itoa(n + 1 + r2.IntN(60)))
			}
			fmt.Fprintf(ack, "I %d %s %s\n", i, sub, off) // intent, logged before the call
			if err := st.SaveOffset(ctx, sub, off); err != nil {
				if off == ebu.OffsetNewest {
					continue // refused: nothing was acknowledged
				}
				fmt.Fprintln(os.Stderr, "save:", err)
				os.Exit(5)
			}
			fmt.Fprintf(ack, "S %d %s %s\n", i, sub, off)
		}
	}
	if doClose {
		if err := st.Close(); err != nil {
			fmt.Fprintln(os.Stderr, "close:", err)
			os.Exit(6)
		}
		fmt.Fprintf(ack, "CLOSED\n")
	} else {
		fmt.Fprintf(ack, "DONE\n")
		// stay alive without closing until killed: the parent decides when
		time.Sleep(time.Hour)
	}
}
