//go:build verif

// C01 — Publish reaches exactly the subscribed handlers, once each, in order.
// Lockstep interpreter: generated programs (with re-entrant scripts inside handlers) run against
// the real bus and the registry reference model.
package c01

import (
	"testing"

	"verif/harness/internal/prog"
	"verif/harness/internal/vk"
)

func TestC01(t *testing.T) {
	run := vk.New("C01", "lockstep")
	defer run.Finish()
	h := prog.NewHarness(run, "registry")
	defer h.Dog.Stop()
	shards := map[int]int{}
	for _, d := range h.Drivers {
		shards[d.Shard()]++
	}
	coll := 0
	for _, n := range shards {
		if n > 1 {
			coll += n
		}
	}
	run.Count("event_types", int64(len(h.Drivers)))
	run.Count("types_in_shared_shards", int64(coll))

	after := func(eng *prog.Engine) {
		nontrivial := eng.Stats.ReentrantMut > 0 && eng.ShardShare()
		run.Case(eng.Signature(), nontrivial)
		h.CountStats(eng)
		if eng.ShardShare() {
			run.Count("programs_with_shard_sharing", 1)
		}
	}
	if p := prog.ReplayProgram(); p != nil {
		h.Exec(0, p, nil, after)
		return
	}
	if run.Shard == 0 {
		longRelays(run)
	}
	n := run.Scale(3000, 200000)
	profiles := []prog.Profile{
		{MinTypes: 2, MaxTypes: 4, MinOps: 15, MaxOps: 50, Async: true, Scripts: true, FewClasses: true},
		{MinTypes: 3, MaxTypes: 8, MinOps: 20, MaxOps: 60, Async: true, Scripts: true},
		{MinTypes: 1, MaxTypes: 2, MinOps: 10, MaxOps: 30, Async: false, Scripts: true, FewClasses: true},
		{MinTypes: 2, MaxTypes: 5, MinOps: 20, MaxOps: 60, Async: true, Scripts: true, Cancels: true},
		{MinTypes: 1, MaxTypes: 3, MinOps: 12, MaxOps: 40, Async: true, Scripts: true, Panics: true}, // some handlers panic: everything else about delivery and the registry is unaffected
		{MinTypes: 2, MaxTypes: 4, MinOps: 15, MaxOps: 45, Async: true, Scripts: true, Store: true},  // persistent bus (store, error handler, persistence timeout): delivery is unaffected
	}
	// wide registries: one type with more handlers than any small internal capacity (64, 128, 256 ...),
	// once handlers spread over all positions, plain / context / async mixed; two publishes, queries
	// after each
	for wi, n := range []int{63, 64, 65, 66, 100, 129, 200, 257, 300} {
		if !run.Mine(wi) {
			continue
		}
		r := run.GlobalRand(uint64(7000 + wi))
		t0 := r.IntN(len(h.Drivers))
		p := &prog.Program{Types: []int{t0, (t0 + 1 + r.IntN(len(h.Drivers)-1)) % len(h.Drivers)}}
		for j := 0; j < n; j++ {
			reg := &prog.Reg{Class: j % 12, Once: j%3 == 0 || j >= n-2, Async: j%5 == 4}
			if j%7 == 3 {
				reg.Ctx, reg.Class = true, j%6
			}
			p.Ops = append(p.Ops, prog.Op{K: prog.Sub, T: 0, Reg: reg})
		}
		p.Ops = append(p.Ops, prog.Op{K: prog.Count, T: 0}, prog.Op{K: prog.Pub, T: 0}, prog.Op{K: prog.Wait}, prog.Op{K: prog.Count, T: 0}, prog.Op{K: prog.Has, T: 0},
			prog.Op{K: prog.Pub, T: 0, UseCtx: true}, prog.Op{K: prog.Wait}, prog.Op{K: prog.Count, T: 0}, prog.Op{K: prog.Unsub, T: 0, Class: 1}, prog.Op{K: prog.Count, T: 0}, prog.Op{K: prog.Pub, T: 1}, prog.Op{K: prog.Has, T: 1})
		eng := h.Exec(900000+wi, p, nil, after)
		_ = eng
		run.Count("wide_registry_programs", 1)
		run.Max("max_handlers_of_one_type", int64(n))
	}
	for i := 0; i < n; i++ {
		p := prog.Gen(run.Rand(uint64(i)), h.Drivers, profiles[i%len(profiles)])
		eng := h.Exec(i, p, nil, after)
		if i < 2 && run.Shard == 0 {
			run.Sample(map[string]any{"program": p, "trace_events": len(eng.Trace)})
		}
	}
}
