//go:build verif

// C01 — Publish reaches exactly the subscribed handlers, once each, in order.
// Lockstep interpreter: generated programs (with re-entrant scripts inside handlers) run against
// the real bus and the registry reference model.
package c01

import (
	"fmt"
	"testing"
	"time"

	"verif/harness/internal/evt"
	"verif/harness/internal/prog"
	"verif/harness/internal/vk"
	"verif/harness/internal/watchdog"
)

func TestC01(t *testing.T) {
	run := vk.New("C01", "lockstep")
	defer run.Finish()
	if err := evt.SelfTest(); err != nil {
		t.Fatalf("self-test: %v", err)
	}
	drivers := evt.Drivers()
	shards := map[int]int{}
	for _, d := range drivers {
		shards[d.Shard()]++
	}
	coll := 0
	for _, n := range shards {
		if n > 1 {
			coll += n
		}
	}
	run.Count("event_types", int64(len(drivers)))
	run.Count("types_in_shared_shards", int64(coll))

	var cur *prog.Program
	dog := watchdog.Start(20*time.Second, func(v watchdog.Verdict) {
		if v.Deadlock {
			run.Violation("registry:deadlock", "program hung with goroutines parked below ebu frames", map[string]any{"program": cur, "dump": v.Dump})
		} else {
			run.Inconclusive("watchdog fired without a confirmed deadlock")
		}
		run.Finish()
		watchdog.Exit()
	})
	defer dog.Stop()

	n := run.Scale(3000, 40000)
	profiles := []prog.Profile{
		{MinTypes: 2, MaxTypes: 4, MinOps: 15, MaxOps: 50, Async: true, Scripts: true, FewClasses: true},
		{MinTypes: 3, MaxTypes: 8, MinOps: 20, MaxOps: 60, Async: true, Scripts: true},
		{MinTypes: 1, MaxTypes: 2, MinOps: 10, MaxOps: 30, Async: false, Scripts: true, FewClasses: true},
		{MinTypes: 2, MaxTypes: 5, MinOps: 20, MaxOps: 60, Async: true, Scripts: true, Cancels: true},
	}
	for i := 0; i < n; i++ {
		rng := run.Rand(uint64(i))
		p := prog.Gen(rng, drivers, profiles[i%len(profiles)])
		cur = p
		var eng *prog.Engine
		viol := func(sig, desc string) {
			run.Violation(sig, desc, map[string]any{"case": i, "program": p})
		}
		func() {
			defer func() {
				if r := recover(); r != nil {
					run.Violation("registry:panic-escaped", fmt.Sprintf("panic escaped from the bus: %v", r), map[string]any{"case": i, "program": p})
				}
			}()
			eng = prog.New(drivers, p, viol)
			eng.Run()
		}()
		dog.Tick()
		st := eng.Stats
		nontrivial := st.ReentrantMut > 0 && eng.ShardShare()
		run.Case(eng.Signature(), nontrivial)
		run.Count("sync_invocations", int64(st.SyncInv))
		run.Count("async_invocations", int64(st.AsyncInv))
		run.Count("reentrant_ops", int64(st.Reentrant))
		run.Count("reentrant_registry_mutations", int64(st.ReentrantMut))
		run.Count("publishes", int64(st.Pubs))
		run.Count("nested_publishes", int64(st.NestedPubs))
		run.Count("queries_compared", int64(st.Queries))
		run.Count("once_fired", int64(st.Zombies))
		run.Count("unsubscribe_skipped_zombie", int64(st.SkippedUnsub))
		run.Max("max_reentrancy_depth", int64(st.MaxDepth))
		if eng.ShardShare() {
			run.Count("programs_with_shard_sharing", 1)
		}
		if i < 2 && run.Shard == 0 {
			run.Sample(map[string]any{"program": p, "trace_events": len(eng.Trace)})
		}
	}
}
