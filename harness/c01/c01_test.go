//go:build verif

// C01 — Publish reaches exactly the subscribed handlers, once each, in order.
// Lockstep interpreter: generated programs (with re-entrant scripts inside handlers) run against
// the real bus and the registry reference model.
package c01

import (
	"testing"

	"verif/harness/internal/prog"
	"verif/harness/internal/vk"
)

func TestC01(t *testing.T) {
	run := vk.New("C01", "lockstep")
	defer run.Finish()
	h := prog.NewHarness(run, "registry")
	defer h.Dog.Stop()
	shards := map[int]int{}
	for _, d := range h.Drivers {
		shards[d.Shard()]++
	}
	coll := 0
	for _, n := range shards {
		if n > 1 {
			coll += n
		}
	}
	run.Count("event_types", int64(len(h.Drivers)))
	run.Count("types_in_shared_shards", int64(coll))

	after := func(eng *prog.Engine) {
		nontrivial := eng.Stats.ReentrantMut > 0 && eng.ShardShare()
		run.Case(eng.Signature(), nontrivial)
		h.CountStats(eng)
		if eng.ShardShare() {
			run.Count("programs_with_shard_sharing", 1)
		}
	}
	if p := prog.ReplayProgram(); p != nil {
		h.Exec(0, p, nil, after)
		return
	}
	n := run.Scale(3000, 200000)
	profiles := []prog.Profile{
		{MinTypes: 2, MaxTypes: 4, MinOps: 15, MaxOps: 50, Async: true, Scripts: true, FewClasses: true},
		{MinTypes: 3, MaxTypes: 8, MinOps: 20, MaxOps: 60, Async: true, Scripts: true},
		{MinTypes: 1, MaxTypes: 2, MinOps: 10, MaxOps: 30, Async: false, Scripts: true, FewClasses: true},
		{MinTypes: 2, MaxTypes: 5, MinOps: 20, MaxOps: 60, Async: true, Scripts: true, Cancels: true},
	}
	for i := 0; i < n; i++ {
		p := prog.Gen(run.Rand(uint64(i)), h.Drivers, profiles[i%len(profiles)])
		eng := h.Exec(i, p, nil, after)
		if i < 2 && run.Shard == 0 {
			run.Sample(map[string]any{"program": p, "trace_events": len(eng.Trace)})
		}
	}
}
