//go:build verif

package c01

import (
	"context"
	"fmt"
	"sync"
	"sync/atomic"

	ebu "github.com/jilio/ebu"

	"verif/harness/internal/vk"
)

type page struct{ N int }
type item struct{ N int }

// longRelays: publishes issued from inside handlers, many hops deep - a synchronous work list in
// which the handler of item k publishes item k+1, and an asynchronous relay in which the handler of
// page k forwards its context and publishes page k+1. Every item and page is delivered to every
// handler of its type exactly once, however long the causal chain behind it.
func longRelays(run *vk.Run) {
	for _, depth := range []int{10, 70, 300, 1500} {
		for _, mode := range []string{"sync", "sync-ctx", "async-ctx", "async"} {
			bus := ebu.New()
			var mu sync.Mutex
			seen := map[int]int{}
			var other atomic.Int32
			note := func(n int) {
				mu.Lock()
				seen[n]++
				mu.Unlock()
			}
			switch mode {
			case "sync":
				ebu.Subscribe(bus, func(e item) {
					note(e.N)
					if e.N < depth {
						ebu.Publish(bus, item{e.N + 1})
					}
				})
				ebu.Subscribe(bus, func(item) { other.Add(1) })
				ebu.Publish(bus, item{1})
			case "sync-ctx":
				ebu.SubscribeContext(bus, func(ctx context.Context, e item) {
					note(e.N)
					if e.N < depth {
						ebu.PublishContext(bus, ctx, item{e.N + 1})
					}
				})
				ebu.Subscribe(bus, func(item) { other.Add(1) })
				ebu.PublishContext(bus, context.Background(), item{1})
			case "async-ctx":
				ebu.SubscribeContext(bus, func(ctx context.Context, e page) {
					note(e.N)
					if e.N < depth {
						ebu.PublishContext(bus, ctx, page{e.N + 1})
					}
				}, ebu.Async())
				ebu.Subscribe(bus, func(page) { other.Add(1) })
				ebu.PublishContext(bus, context.Background(), page{1})
			case "async":
				ebu.Subscribe(bus, func(e page) {
					note(e.N)
					if e.N < depth {
						ebu.Publish(bus, page{e.N + 1})
					}
				}, ebu.Async(), ebu.Sequential())
				ebu.Subscribe(bus, func(page) { other.Add(1) })
				ebu.Publish(bus, page{1})
			}
			bus.Wait()
			mu.Lock()
			missing, dup := 0, 0
			first := 0
			for k := 1; k <= depth; k++ {
				switch c := seen[k]; {
				case c == 0:
					missing++
					if first == 0 {
						first = k
					}
				case c > 1:
					dup++
				}
			}
			mu.Unlock()
			run.Case(fmt.Sprintf("relay|%s|%d", mode, depth), depth > 64)
			run.Count("relayed_publishes_checked", int64(depth))
			if missing != 0 || dup != 0 || int(other.Load()) != depth {
				run.Violation("registry:relay-not-exactly-once", fmt.Sprintf("%s relay of %d hops (each handler invocation publishes the next one): %d never reached the relaying handler (first missing: #%d), %d reached it more than once; the second handler of the type was invoked %d times", mode, depth, missing, first, dup, other.Load()), map[string]any{"mode": mode, "hops": depth})
			}
		}
	}
}
