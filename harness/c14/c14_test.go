//go:build verif

// C14 — What the SQLite store acknowledged survives reopening and a killed process.
package c14

import (
	"bufio"
	"context"
	"database/sql"
	"encoding/json"
	"fmt"
	"os"
	"os/exec"
	"path/filepath"
	"strconv"
	"strings"
	"syscall"
	"testing"
	"time"

	ebu "github.com/jilio/ebu"
	"github.com/jilio/ebu/stores/sqlite"
	_ "modernc.org/sqlite"

	"verif/harness/internal/vk"
)

type acks struct {
	start                int
	appends              map[int]string // event id -> offset
	nApp                 int
	saves                map[string]string // sub -> last acked offset
	lines                int
	closed               bool
	done                 bool
	lastOp               int
	intentSub, intentOff string // SaveOffset announced but not yet acknowledged
}

func readAcks(path string) *acks {
	a := &acks{appends: map[int]string{}, saves: map[string]string{}, lastOp: -1}
	f, err := os.Open(path)
	if err != nil {
		return a
	}
	defer f.Close()
	sc := bufio.NewScanner(f)
	for sc.Scan() {
		fs := strings.Fields(sc.Text())
		if len(fs) == 0 {
			continue
		}
		switch fs[0] {
		case "START":
			a.start, _ = strconv.Atoi(fs[1])
		case "A":
			if len(fs) == 4 {
				id, _ := strconv.Atoi(fs[2])
				a.appends[id] = fs[3]
				a.nApp++
				a.lastOp, _ = strconv.Atoi(fs[1])
				a.lines++
			}
		case "S":
			if len(fs) >= 3 {
				off := ""
				if len(fs) == 4 {
					off = fs[3]
				}
				a.saves[fs[2]] = off
				a.lastOp, _ = strconv.Atoi(fs[1])
				a.lines++
				a.intentSub, a.intentOff = "", ""
			}
		case "I":
			// a SaveOffset about to be called: in flight until its acknowledgement line follows
			if len(fs) >= 3 {
				a.intentSub, a.intentOff = fs[2], ""
				if len(fs) == 4 {
					a.intentOff = fs[3]
				}
			}
		case "CLOSED":
			a.closed = true
		case "DONE":
			a.done = true
		}
	}
	return a
}

type state struct {
	ids    []int
	offs   []string
	saved  map[string]string
	maxOff int64
}

// verify opens the database with the store and compares it with what was acknowledged so far.
// expected: the ids acknowledged over all cycles (0..n-1), saves: last acked per sub, inflight: what
// the killed process may have been doing (one more append, or a save of `inflightSave`).
func verify(path string, ackedN int, ackOffs map[int]string, saves map[string]string, allowExtra bool, inflightSub, inflightOff string) (string, string) {
	st, err := sqlite.New(path)
	if err != nil {
		return "reopen-failed", fmt.Sprintf("opening the database after the kill/close failed: %v", err)
	}
	defer st.Close()
	ctx := context.Background()
	evs, _, err := st.Read(ctx, ebu.OffsetOldest, 0)
	if err != nil {
		return "read-after-reopen-failed", fmt.Sprintf("Read after reopening failed: %v", err)
	}
	if len(evs) < ackedN {
		return "acknowledged-append-lost", fmt.Sprintf("%d appends were acknowledged, the reopened log holds %d events", ackedN, len(evs))
	}
	if len(evs) > ackedN+1 || (len(evs) == ackedN+1 && !allowExtra) {
		return "unacknowledged-events", fmt.Sprintf("%d appends were acknowledged, the reopened log holds %d events (at most the one in flight may be extra)", ackedN, len(evs))
	}
	var prev int64 = -1 << 62
	for i, e := range evs {
		var d struct {
			ID int `json:"id"`
		}
		if json.Unmarshal(e.Data, &d) != nil || d.ID != i {
			return "log-not-gap-free-in-order", fmt.Sprintf("event at index %d carries id %d (data %.60s)", i, d.ID, e.Data)
		}
		if e.Type != "c14.event" || !e.Timestamp.Equal(time.Unix(1700000000+int64(i), 0)) {
			return "event-content-changed", fmt.Sprintf("event %d came back as type %q time %v", i, e.Type, e.Timestamp)
		}
		if want, ok := ackOffs[i]; ok && want != string(e.Offset) {
			return "offset-changed", fmt.Sprintf("event %d was acknowledged at offset %s and is now at %s", i, want, e.Offset)
		}
		n, err := strconv.ParseInt(string(e.Offset), 10, 64)
		if err != nil || n <= prev {
			return "offsets-not-increasing", fmt.Sprintf("event %d has offset %q after %d", i, e.Offset, prev)
		}
		prev = n
	}
	// the same log through a batched stream whose consumer keeps the events until the stream ends
	if bs, err := sqlite.New(path, sqlite.WithStreamBatchSize(3)); err == nil {
		var kept []*ebu.StoredEvent
		for e, serr := range bs.ReadStream(ctx, ebu.OffsetOldest) {
			if serr != nil {
				bs.Close()
				return "stream-after-reopen-failed", fmt.Sprintf("batched ReadStream after reopening failed: %v", serr)
			}
			kept = append(kept, e)
		}
		bs.Close()
		if len(kept) != len(evs) {
			return "stream-after-reopen-differs", fmt.Sprintf("Read returns %d events after reopening, a batched stream %d", len(evs), len(kept))
		}
		for i, e := range kept {
			if e.Offset != evs[i].Offset || string(e.Data) != string(evs[i].Data) {
				return "stream-after-reopen-differs", fmt.Sprintf("event %d of the reopened log read back through a batched stream (events kept by the consumer) has offset %s / data %.40s, Read returns offset %s / data %.40s", i, e.Offset, e.Data, evs[i].Offset, evs[i].Data)
			}
		}
	}
	for sub, want := range saves {
		got, err := st.LoadOffset(ctx, sub)
		if err != nil {
			return "loadoffset-failed", fmt.Sprintf("LoadOffset(%s) after reopen: %v", sub, err)
		}
		// the oldest offset is spelled "" or "0"
		norm := func(o string) string {
			if o == "" {
				return "0"
			}
			return o
		}
		ok := norm(string(got)) == norm(want)
		if !ok && sub == inflightSub && norm(string(got)) == norm(inflightOff) {
			ok = true // the save in flight when the process was killed
		}
		if !ok {
			return "acknowledged-saveoffset-lost", fmt.Sprintf("SaveOffset(%s, %q) was acknowledged, LoadOffset after reopen returns %q", sub, want, got)
		}
	}
	return "", ""
}

func schemaRows(path string) (int, error) {
	db, err := sql.Open("sqlite", "file:"+path)
	if err != nil {
		return 0, err
	}
	defer db.Close()
	var n int
	err = db.QueryRow("SELECT COUNT(*) FROM schema_version").Scan(&n)
	return n, err
}

func TestC14(t *testing.T) {
	run := vk.New("C14", "kill")
	defer run.Finish()
	bin := os.Getenv("VERIF_BIN_SQLITECHILD")
	if bin == "" {
		t.Fatal("VERIF_BIN_SQLITECHILD not set (the driver builds harness/cmd/sqlitechild)")
	}
	scratch := os.Getenv("VERIF_SCRATCH")
	if scratch == "" {
		scratch = t.TempDir()
	}
	os.MkdirAll(scratch, 0o755)
	if run.Shard == 0 {
		existingDatabase(run, scratch)
		existingDatabaseSideBySide(run, scratch)
	}
	nAck := run.Scale(12, 200)
	only := -1
	if v := os.Getenv("VERIF_C14_ONLY"); v != "" {
		only, _ = strconv.Atoi(v) // debugging aid: run one case and keep its directory
	}
	for i := 0; i < nAck; i++ {
		if only >= 0 && i != only {
			continue
		}
		rng := run.Rand(uint64(i))
		dir := filepath.Join(scratch, fmt.Sprintf("c%d", i))
		os.MkdirAll(dir, 0o755)
		db := filepath.Join(dir, "events.db")
		cycles := 1 + rng.IntN(4)
		totalAcked := 0
		ackOffs := map[int]string{}
		saves := map[string]string{}
		var plans []string
		for c := 0; c < cycles; c++ {
			ackFile := filepath.Join(dir, fmt.Sprintf("ack-%d", c))
			nOps := 8 + rng.IntN(40)
			seed := rng.Uint64()
			mode := []string{"kill", "kill", "kill", "close"}[rng.IntN(4)]
			killAt := 1 + rng.IntN(nOps)
			spin := rng.IntN(3000)
			closeFlag := "0"
			if mode == "close" {
				closeFlag = "1"
			}
			cmd := exec.Command(bin, db, ackFile, strconv.FormatUint(seed, 10), strconv.Itoa(nOps), closeFlag, strconv.Itoa(rng.IntN(32)))
			cmd.Stderr = os.Stderr
			if err := cmd.Start(); err != nil {
				t.Fatal(err)
			}
			exited := make(chan error, 1)
			// every other killed child is left unreaped (a zombie, as under a supervisor that is slow
			// to collect it) until a new process has opened the database
			reap := make(chan struct{})
			unreaped := mode == "kill" && rng.IntN(2) == 0
			if !unreaped {
				close(reap)
			}
			go func() { <-reap; exited <- cmd.Wait() }()
			killed := false
			deadline := time.Now().Add(60 * time.Second)
			for {
				a := readAcks(ackFile)
				if mode == "close" {
					select {
					case err := <-exited:
						if err != nil {
							if ee, ok := err.(*exec.ExitError); ok && (ee.ExitCode() == 5 || ee.ExitCode() == 6) {
								// the store refused an Append / SaveOffset / stream / Close of a single writer on
								// a healthy file: nothing was injected
								run.Violation("sqlite:single-writer-operation-failed", fmt.Sprintf("a single-writer run of Append / SaveOffset / ReadStream on a healthy database file failed (child exit %d; its stderr is in the shard log) [cycle %d]", ee.ExitCode(), c), map[string]any{"case": i, "plans": plans})
								run.Finish()
								t.Fatalf("child failed: %v", err)
							}
							t.Fatalf("child failed: %v", err)
						}
						exited <- nil
					default:
					}
					if a.closed {
						break
					}
				} else if a.lines >= killAt || a.done {
					for s := 0; s < spin; s++ {
						_ = s * s
					}
					cmd.Process.Signal(syscall.SIGKILL)
					killed = true
					break
				}
				if mode != "close" {
					select {
					case err := <-exited:
						if ee, ok := err.(*exec.ExitError); ok && (ee.ExitCode() == 5 || ee.ExitCode() == 6) {
							run.Violation("sqlite:single-writer-operation-failed", fmt.Sprintf("a single-writer run of Append / SaveOffset / ReadStream on a healthy database file failed (child exit %d; its stderr is in the shard log) [cycle %d]", ee.ExitCode(), c), map[string]any{"case": i, "plans": plans})
							run.Finish()
							t.Fatalf("child failed: %v", err)
						}
						exited <- err
					default:
					}
				}
				if time.Now().After(deadline) {
					cmd.Process.Kill()
					run.Inconclusive("child did not reach the kill point within the watchdog")
					break
				}
				time.Sleep(200 * time.Microsecond)
			}
			if unreaped {
				if killed {
					// wait until the kernel has torn the process down (state Z), then open the database
					for w := 0; w < 20000; w++ {
						st, _ := os.ReadFile(fmt.Sprintf("/proc/%d/stat", cmd.Process.Pid))
						if k := strings.LastIndexByte(string(st), ')'); k < 0 || strings.HasPrefix(string(st[k+1:]), " Z") {
							break
						}
						time.Sleep(250 * time.Microsecond)
					}
					if st, err := sqlite.New(db); err != nil {
						run.Violation("sqlite:reopen-refused-after-kill", fmt.Sprintf("the writer was killed (and not yet collected by its parent); a new process opening the database got: %v [cycle %d]", err, c), map[string]any{"case": i, "plans": plans})
					} else {
						st.Close()
						run.Count("reopens_while_the_killed_writer_was_still_a_zombie", 1)
					}
				}
				close(reap)
			}
			<-exited
			a := readAcks(ackFile)
			plans = append(plans, fmt.Sprintf("cycle %d: %s after %d acks of %d ops", c, mode, a.lines, nOps))
			if a.start != totalAcked && a.start != totalAcked+1 {
				run.Violation("sqlite:reopen-log-length", fmt.Sprintf("a new process found %d events where %d (or one in flight more) had been acknowledged", a.start, totalAcked), map[string]any{"case": i, "plans": plans})
			}
			// acknowledged state after this cycle
			base := a.start
			for id, off := range a.appends {
				ackOffs[id] = off
			}
			totalAcked = base + a.nApp
			for s, o := range a.saves {
				saves[s] = o
			}
			// what may have been in flight: one more append, or the save whose intent line is the last
			// line of the acknowledgement file
			inSub, inOff := "", ""
			if killed {
				inSub, inOff = a.intentSub, a.intentOff
			}
			sig, desc := verify(db, totalAcked, ackOffs, saves, killed, inSub, inOff)
			if sig == "" {
				// idempotent open: another open-close without writes changes nothing - neither the
				// log, nor the saved offsets, nor the number of rows in schema_version
				n1, err1 := schemaRows(db)
				if s2, d2 := verify(db, totalAcked, ackOffs, saves, killed, inSub, inOff); s2 != "" {
					sig, desc = "reopen-not-idempotent:"+s2, d2
				} else if n2, err2 := schemaRows(db); err1 != nil || err2 != nil || n1 < 1 || n2 != n1 {
					sig, desc = "schema-version-rows", fmt.Sprintf("schema_version held %d rows after one reopening and %d after another (errors %v / %v)", n1, n2, err1, err2)
				}
			}
			if sig != "" {
				run.Violation("sqlite:"+sig, fmt.Sprintf("%s [%s]", desc, plans[len(plans)-1]), map[string]any{"case": i, "plans": plans, "acked_appends": totalAcked, "acked_saves": saves})
				break
			}
			// the log may hold one more event than acknowledged (the one in flight): later cycles continue from there
			st, err := sqlite.New(db)
			if err == nil {
				evs, _, _ := st.Read(context.Background(), ebu.OffsetOldest, 0)
				if len(evs) == totalAcked+1 {
					ackOffs[totalAcked] = string(evs[totalAcked].Offset)
					totalAcked++
				}
				// likewise the save that was in flight may have taken effect (verify accepted it):
				// it is part of the durable state that later cycles build on
				if inSub != "" {
					if got, err := st.LoadOffset(context.Background(), inSub); err == nil && (string(got) == inOff || (inOff == "" && got == "0")) {
						saves[inSub] = inOff
					}
				}
				st.Close()
			}
			run.Case(fmt.Sprintf("%s|acks%d|cycle%d", mode, a.lines/4, c), killed && a.lines > 0 && !a.done)
			run.Count("cycles", 1)
			if killed {
				run.Count("kills", 1)
			}
			run.Count("acknowledged_ops_checked", int64(a.lines))
		}
		if i < 2 {
			run.Sample(map[string]any{"plans": plans, "acked_appends": totalAcked})
		}
		if only < 0 {
			os.RemoveAll(dir)
		}
	}
}

// TestC14Strace: crash points at syscall granularity — strace kills the child at its N-th
// pwrite64 / fsync / write / ftruncate (N counted per thread), for every N until a run completes
// un-killed (thorough) or a spread of N (quick).
func TestC14Strace(t *testing.T) {
	run := vk.New("C14", "strace")
	defer run.Finish()
	bin := os.Getenv("VERIF_BIN_SQLITECHILD")
	if bin == "" {
		t.Fatal("VERIF_BIN_SQLITECHILD not set")
	}
	if _, err := exec.LookPath("strace"); err != nil {
		run.Inconclusive("strace not available: syscall-indexed kill plan skipped")
		run.Case("strace-unavailable", false)
		return
	}
	scratch := os.Getenv("VERIF_SCRATCH")
	if scratch == "" {
		scratch = t.TempDir()
	}
	os.MkdirAll(scratch, 0o755)
	calls := []string{"pwrite64", "fsync", "write", "ftruncate", "fcntl", "unlink"}
	maxN := run.Scale(40, 400)
	stepQuick := run.Scale(3, 1)
	idx := 0
	for _, sc := range calls {
		completedInARow := 0
		for n := 1; n <= maxN && completedInARow < 3; n += stepAt(n, stepQuick) {
			idx++
			if !run.Mine(idx) {
				continue
			}
			dir := filepath.Join(scratch, fmt.Sprintf("s-%s-%d", sc, n))
			os.MkdirAll(dir, 0o755)
			db := filepath.Join(dir, "events.db")
			ackFile := filepath.Join(dir, "ack")
			nOps := 20
			cmd := exec.Command("strace", "-f", "-o", "/dev/null", "-e", "trace="+sc, "-e", fmt.Sprintf("inject=%s:signal=KILL:when=%d", sc, n),
				bin, db, ackFile, "7", strconv.Itoa(nOps), "1")
			out, err := cmd.CombinedOutput()
			a := readAcks(ackFile)
			if err != nil && strings.Contains(string(out), "ptrace") || strings.Contains(string(out), "Operation not permitted") {
				run.Inconclusive("strace could not attach: " + strings.TrimSpace(string(out)))
				os.RemoveAll(dir)
				return
			}
			killed := !a.closed
			if !killed {
				completedInARow++
			} else {
				completedInARow = 0
			}
			ackOffs := map[int]string{}
			for id, off := range a.appends {
				ackOffs[id] = off
			}
			last := ""
			if a.nApp > 0 {
				last = ackOffs[a.nApp-1]
			}
			if _, statErr := os.Stat(db); statErr != nil && a.lines == 0 {
				// killed before the database existed: nothing was acknowledged, nothing to check
				run.Case(fmt.Sprintf("%s@%d|before-first-ack", sc, n), false)
				run.Inconclusive("kill landed before the first acknowledgement")
				os.RemoveAll(dir)
				continue
			}
			_ = last
			sig, desc := verify(db, a.nApp, ackOffs, a.saves, killed, a.intentSub, a.intentOff)
			rows1, rerr1 := schemaRows(db)
			if sig == "" && (rerr1 != nil || rows1 < 1) {
				sig, desc = "schema-version-rows", fmt.Sprintf("schema_version holds %d rows after reopening (err %v)", rows1, rerr1)
			}
			if sig == "" {
				// a further append must get a larger offset, and a second reopen must not change anything
				st, err := sqlite.New(db)
				if err != nil {
					sig, desc = "reopen-failed", err.Error()
				} else {
					evs, _, _ := st.Read(context.Background(), ebu.OffsetOldest, 0)
					data, _ := json.Marshal(map[string]any{"id": len(evs)})
					off, err := st.Append(context.Background(), &ebu.Event{Type: "c14.event", Data: data, Timestamp: time.Unix(1700000000+int64(len(evs)), 0)})
					st.Close()
					if err != nil {
						sig, desc = "append-after-recovery-failed", err.Error()
					} else if len(evs) > 0 {
						p, _ := strconv.ParseInt(string(evs[len(evs)-1].Offset), 10, 64)
						q, _ := strconv.ParseInt(string(off), 10, 64)
						if q <= p {
							sig, desc = "append-offset-not-larger-after-recovery", fmt.Sprintf("append after recovery got offset %s, the log ends at %s", off, evs[len(evs)-1].Offset)
						}
					}
				}
			}
			if sig == "" {
				if rows2, rerr2 := schemaRows(db); rerr2 != nil || rows2 != rows1 {
					sig, desc = "schema-version-rows", fmt.Sprintf("schema_version held %d rows after one reopening and %d after another (err %v)", rows1, rows2, rerr2)
				}
			}
			if sig != "" {
				run.Violation("sqlite:"+sig, fmt.Sprintf("%s [killed at the %d-th %s, %d ops acknowledged]", desc, n, sc, a.lines), map[string]any{"syscall": sc, "n": n, "acked": a.lines})
			}
			run.Case(fmt.Sprintf("%s@%d|killed%v|acks%d", sc, n, killed, a.lines), killed && a.lines > 0)
			run.Count("strace_runs", 1)
			if killed {
				run.Count("strace_kills", 1)
			}
			if run.WantSample() && killed && a.lines > 3 {
				run.Sample(map[string]any{"killed_at": fmt.Sprintf("%d-th %s", n, sc), "acknowledged_ops": a.lines, "acknowledged_appends": a.nApp})
			}
			os.RemoveAll(dir)
		}
	}
}

// stepAt: every N up to 12 (the opening and migration of the database), then the tier's stride.
func stepAt(n, stride int) int {
	if n < 12 {
		return 1
	}
	return stride
}
