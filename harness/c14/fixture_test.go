//go:build verif

package c14

import (
	"context"
	"database/sql"
	"encoding/json"
	"fmt"
	"io"
	"os"
	"path/filepath"
	"runtime"
	"testing"
	"time"

	ebu "github.com/jilio/ebu"
	"github.com/jilio/ebu/stores/sqlite"

	"verif/harness/internal/vk"
)

// testdata/pinned-release.db was written by the SQLite store of the pinned tree (with the fix
// commits) through TestMakeFixture: 25 events and two saved offsets, closed cleanly.
const fixtureEvents = 25

func fixtureEvent(i int) *ebu.Event {
	return &ebu.Event{Type: fmt.Sprintf("fixture.kind%d", i%3), Data: json.RawMessage(fmt.Sprintf(`{"n":%d,"s":"é %d"}`, i, i)), Timestamp: time.Unix(1700000000+int64(i), int64(i)*1000).In(zonesOf[i%len(zonesOf)])}
}

var zonesOf = []*time.Location{time.UTC, time.FixedZone("LMT", 3600+17*60+37), time.FixedZone("EST", -5*3600)}

// TestMakeFixture (only with VERIF_MAKE_FIXTURE=1) writes the fixture.
func TestMakeFixture(t *testing.T) {
	if os.Getenv("VERIF_MAKE_FIXTURE") == "" {
		t.Skip("fixture generation not requested")
	}
	path := filepath.Join("testdata", "pinned-release.db")
	os.MkdirAll("testdata", 0o755)
	os.Remove(path)
	st, err := sqlite.New(path)
	if err != nil {
		t.Fatal(err)
	}
	ctx := context.Background()
	var offs []ebu.Offset
	for i := 1; i <= fixtureEvents; i++ {
		off, err := st.Append(ctx, fixtureEvent(i))
		if err != nil {
			t.Fatal(err)
		}
		offs = append(offs, off)
	}
	if err := st.SaveOffset(ctx, "fixture-sub", offs[6]); err != nil {
		t.Fatal(err)
	}
	if err := st.SaveOffset(ctx, "fixture sub/é", offs[3]); err != nil {
		t.Fatal(err)
	}
	if err := st.Close(); err != nil {
		t.Fatal(err)
	}
}

// existingDatabase: a database file written by the pinned release is opened by the tree under test:
// every event and saved offset is there, appends continue after them, and the file can be closed
// and opened again.
func existingDatabase(run *vk.Run, scratch string) {
	ctx := context.Background()
	_, self, _, _ := runtime.Caller(0) // (the driver runs the test binary from its output directory)
	src, err := os.Open(filepath.Join(filepath.Dir(self), "testdata", "pinned-release.db"))
	if err != nil {
		run.Inconclusive("fixture database missing: " + err.Error())
		return
	}
	path := filepath.Join(scratch, fmt.Sprintf("c14-fixture-%d.db", os.Getpid()))
	dst, _ := os.Create(path)
	io.Copy(dst, src)
	src.Close()
	dst.Close()
	defer func() { os.Remove(path); os.Remove(path + "-wal"); os.Remove(path + "-shm") }()
	// the file has been lying around for a good while: its subscriptions were last heard of more than
	// a year ago (a quiet consumer is still a consumer)
	if db, err := sql.Open("sqlite", "file:"+path); err == nil {
		if _, err := db.Exec("UPDATE subscription_positions SET updated_at = datetime('now', '-400 days')"); err == nil {
			run.Count("fixture_subscriptions_aged_by_400_days", 1)
		}
		db.Close()
	}
	run.Case("a database file written by the pinned release", true)
	bad := func(desc string) {
		run.Violation("sqlite:existing-database-file", "a database file written by the pinned release (25 events, two saved offsets, closed cleanly): "+desc, nil)
	}
	for round := 1; round <= 2; round++ {
		st, err := sqlite.New(path)
		if err != nil {
			bad(fmt.Sprintf("open #%d failed: %v", round, err))
			return
		}
		evs, _, err := st.Read(ctx, ebu.OffsetOldest, 0)
		want := fixtureEvents + round - 1
		if err != nil || len(evs) != want {
			bad(fmt.Sprintf("open #%d: Read returned %d events (err %v), want %d", round, len(evs), err, want))
			st.Close()
			return
		}
		for i := 1; i <= fixtureEvents; i++ {
			w, e := fixtureEvent(i), evs[i-1]
			if e.Type != w.Type || string(e.Data) != string(w.Data) || !e.Timestamp.Equal(w.Timestamp) {
				bad(fmt.Sprintf("open #%d: event %d came back as %s %s %v", round, i, e.Type, e.Data, e.Timestamp))
				st.Close()
				return
			}
		}
		n := 0
		for e, err := range st.ReadStream(ctx, evs[9].Offset) {
			if err != nil {
				bad(fmt.Sprintf("open #%d: ReadStream yielded %v", round, err))
				break
			}
			_ = e
			n++
		}
		if n != want-10 {
			bad(fmt.Sprintf("open #%d: ReadStream after event 10 yielded %d events, want %d", round, n, want-10))
		}
		if o, err := st.LoadOffset(ctx, "fixture-sub"); err != nil || o != evs[6].Offset {
			bad(fmt.Sprintf("open #%d: LoadOffset(fixture-sub) = %q, %v; saved was %q", round, o, err, evs[6].Offset))
		}
		if o, err := st.LoadOffset(ctx, "fixture sub/é"); err != nil || o != evs[3].Offset {
			bad(fmt.Sprintf("open #%d: LoadOffset(fixture sub/é) = %q, %v; saved was %q", round, o, err, evs[3].Offset))
		}
		if round == 1 {
			// an event without a payload: the store may refuse it, but if it acknowledges it, it is in the log
			if noff, nerr := st.Append(ctx, &ebu.Event{Type: "fixture.no-payload", Data: nil, Timestamp: time.Unix(1700000500, 0)}); nerr == nil {
				after, _, _ := st.Read(ctx, ebu.OffsetOldest, 0)
				if len(after) != want+1 || after[len(after)-1].Offset != noff {
					bad(fmt.Sprintf("Append of an event without a payload was acknowledged with offset %q, but the log went from %d to %d events (its last offset is %q)", noff, want, len(after), after[len(after)-1].Offset))
				}
				st.Close()
				return // (a store that takes such events: the rest of this scenario assumes it does not)
			}
			off, err := st.Append(ctx, fixtureEvent(fixtureEvents+1))
			if err != nil || !(len(off) > len(evs[want-1].Offset) || off > evs[want-1].Offset) {
				bad(fmt.Sprintf("Append after the existing events returned %q, %v (last existing offset %q)", off, err, evs[want-1].Offset))
			}
		}
		if err := st.Close(); err != nil {
			bad(fmt.Sprintf("close #%d failed: %v", round, err))
		}
	}
}

// existingDatabaseSideBySide: the copy of the pinned release's file has lost rows to a retention job
// (two in the middle, the two newest); the tree under test opens it and appends; then a process of
// the pinned release (its own SQL statements) appends an event and moves a saved offset on the same
// file; then the tree under test opens it again. Offsets of existing events never change, new
// appends get offsets above everything ever handed out, and what either release wrote is there.
func existingDatabaseSideBySide(run *vk.Run, scratch string) {
	ctx := context.Background()
	_, self, _, _ := runtime.Caller(0)
	src, err := os.Open(filepath.Join(filepath.Dir(self), "testdata", "pinned-release.db"))
	if err != nil {
		run.Inconclusive("fixture database missing: " + err.Error())
		return
	}
	path := filepath.Join(scratch, fmt.Sprintf("c14-fixture-sbs-%d.db", os.Getpid()))
	dst, _ := os.Create(path)
	io.Copy(dst, src)
	src.Close()
	dst.Close()
	defer func() { os.Remove(path); os.Remove(path + "-wal"); os.Remove(path + "-shm") }()
	raw := func(f func(db *sql.DB) error) error {
		db, err := sql.Open("sqlite", "file:"+path)
		if err != nil {
			return err
		}
		defer db.Close()
		return f(db)
	}
	if err := raw(func(db *sql.DB) error {
		_, err := db.Exec("DELETE FROM events WHERE position IN (3, 4, 24, 25)")
		return err
	}); err != nil {
		run.Inconclusive("could not prune the fixture: " + err.Error())
		return
	}
	run.Case("a pruned database file of the pinned release, written to by both releases", true)
	bad := func(desc string) {
		run.Violation("sqlite:existing-database-file", "a database file of the pinned release whose rows 3, 4, 24 and 25 were pruned, then used by the tree under test and by the pinned release side by side: "+desc, nil)
	}
	remaining := []int{1, 2}
	for p := 5; p <= 23; p++ {
		remaining = append(remaining, p)
	}
	check := func(round string, extra []string) bool {
		st, err := sqlite.New(path)
		if err != nil {
			bad(round + ": open failed: " + err.Error())
			return false
		}
		defer st.Close()
		evs, _, err := st.Read(ctx, ebu.OffsetOldest, 0)
		if err != nil || len(evs) != len(remaining)+len(extra) {
			bad(fmt.Sprintf("%s: Read returned %d events (err %v), want %d", round, len(evs), err, len(remaining)+len(extra)))
			return false
		}
		for i, pos := range remaining {
			w := fixtureEvent(pos)
			if string(evs[i].Offset) != fmt.Sprint(pos) || evs[i].Type != w.Type || string(evs[i].Data) != string(w.Data) {
				bad(fmt.Sprintf("%s: the event of position %d came back with offset %q type %s data %s", round, pos, evs[i].Offset, evs[i].Type, evs[i].Data))
				return false
			}
		}
		for i, d := range extra {
			if e := evs[len(remaining)+i]; string(e.Data) != d {
				bad(fmt.Sprintf("%s: appended event %d reads %s %s, want data %s", round, i+1, e.Type, e.Data, d))
				return false
			}
		}
		n := 0
		for _, err := range st.ReadStream(ctx, ebu.OffsetOldest) {
			if err != nil {
				bad(round + ": ReadStream yielded " + err.Error())
				return false
			}
			n++
		}
		if n != len(evs) {
			bad(fmt.Sprintf("%s: ReadStream yielded %d events, Read %d", round, n, len(evs)))
			return false
		}
		return true
	}
	if !check("first open", nil) {
		return
	}
	// the tree under test appends: above everything the file has ever handed out (25)
	st, err := sqlite.New(path)
	if err != nil {
		bad("second open failed: " + err.Error())
		return
	}
	off, err := st.Append(ctx, &ebu.Event{Type: "fixture.new", Data: json.RawMessage(`{"by":"tree under test"}`), Timestamp: time.Unix(1700001000, 0)})
	var n int
	fmt.Sscan(string(off), &n)
	if err != nil || n <= 25 {
		bad(fmt.Sprintf("Append after the pruning returned offset %q (err %v): offsets up to 25 had been handed out before", off, err))
		st.Close()
		return
	}
	st.SaveOffset(ctx, "fixture-sub", off)
	st.Close()
	// a process of the pinned release on the same file (its statements, verbatim)
	var oldPos int64
	if err := raw(func(db *sql.DB) error {
		res, err := db.Exec("INSERT INTO events (type, data, timestamp) VALUES (?, ?, ?)", "fixture.old", []byte(`{"by":"pinned release"}`), time.Unix(1700002000, 0).UTC())
		if err != nil {
			return err
		}
		oldPos, _ = res.LastInsertId()
		_, err = db.Exec(`INSERT INTO subscription_positions (subscription_id, position, updated_at) VALUES (?, ?, CURRENT_TIMESTAMP)
			ON CONFLICT(subscription_id) DO UPDATE SET position = excluded.position, updated_at = CURRENT_TIMESTAMP`, "fixture-sub", oldPos)
		return err
	}); err != nil {
		run.Count("side_by_side_writer_could_not_use_the_pinned_statements", 1) // (the schema no longer takes them: nothing to compare)
		return
	}
	if !check("after the pinned release wrote to the file", []string{`{"by":"tree under test"}`, `{"by":"pinned release"}`}) {
		return
	}
	st, err = sqlite.New(path)
	if err != nil {
		bad("last open failed: " + err.Error())
		return
	}
	defer st.Close()
	if o, err := st.LoadOffset(ctx, "fixture-sub"); err != nil || string(o) != fmt.Sprint(oldPos) {
		bad(fmt.Sprintf("LoadOffset(fixture-sub) = %q, %v after the pinned release had saved position %d for it", o, err, oldPos))
	}
	run.Count("fixture_side_by_side_rounds", 1)
}
