//go:build verif

package c14

import (
	"context"
	"database/sql"
	"encoding/json"
	"fmt"
	"io"
	"os"
	"path/filepath"
	"runtime"
	"testing"
	"time"

	ebu "github.com/jilio/ebu"
	"github.com/jilio/ebu/stores/sqlite"

	"verif/harness/internal/vk"
)

// testdata/pinned-release.db was written by the SQLite store of the pinned tree (with the fix
// commits) through TestMakeFixture: 25 events and two saved offsets, closed cleanly.
const fixtureEvents = 25

func fixtureEvent(i int) *ebu.Event {
	return &ebu.Event{Type: fmt.Sprintf("fixture.kind%d", i%3), Data: json.RawMessage(fmt.Sprintf(`{"n":%d,"s":"é %d"}`, i, i)), Timestamp: time.Unix(1700000000+int64(i), int64(i)*1000).In(zonesOf[i%len(zonesOf)])}
}

var zonesOf = []*time.Location{time.UTC, time.FixedZone("LMT", 3600+17*60+37), time.FixedZone("EST", -5*3600)}

// TestMakeFixture (only with VERIF_MAKE_FIXTURE=1) writes the fixture.
func TestMakeFixture(t *testing.T) {
	if os.Getenv("VERIF_MAKE_FIXTURE") == "" {
		t.Skip("fixture generation not requested")
	}
	path := filepath.Join("testdata", "pinned-release.db")
	os.MkdirAll("testdata", 0o755)
	os.Remove(path)
	st, err := sqlite.New(path)
	if err != nil {
		t.Fatal(err)
	}
	ctx := context.Background()
	var offs []ebu.Offset
	for i := 1; i <= fixtureEvents; i++ {
		off, err := st.Append(ctx, fixtureEvent(i))
		if err != nil {
			t.Fatal(err)
		}
		offs = append(offs, off)
	}
	if err := st.SaveOffset(ctx, "fixture-sub", offs[6]); err != nil {
		t.Fatal(err)
	}
	if err := st.SaveOffset(ctx, "fixture sub/é", offs[3]); err != nil {
		t.Fatal(err)
	}
	if err := st.Close(); err != nil {
		t.Fatal(err)
	}
}

// existingDatabase: a database file written by the pinned release is opened by the tree under test:
// every event and saved offset is there, appends continue after them, and the file can be closed
// and opened again.
func existingDatabase(run *vk.Run, scratch string) {
	ctx := context.Background()
	_, self, _, _ := runtime.Caller(0) // (the driver runs the test binary from its output directory)
	src, err := os.Open(filepath.Join(filepath.Dir(self), "testdata", "pinned-release.db"))
	if err != nil {
		run.Inconclusive("fixture database missing: " + err.Error())
		return
	}
	path := filepath.Join(scratch, fmt.Sprintf("c14-fixture-%d.db", os.Getpid()))
	dst, _ := os.Create(path)
	io.Copy(dst, src)
	src.Close()
	dst.Close()
	defer func() { os.Remove(path); os.Remove(path + "-wal"); os.Remove(path + "-shm") }()
	// the file has been lying around for a good while: its subscriptions were last heard of more than
	// a year ago (a quiet consumer is still a consumer)
	if db, err := sql.Open("sqlite", "file:"+path); err == nil {
		if _, err := db.Exec("UPDATE subscription_positions SET updated_at = datetime('now', '-400 days')"); err == nil {
			run.Count("fixture_subscriptions_aged_by_400_days", 1)
		}
		db.Close()
	}
	run.Case("a database file written by the pinned release", true)
	bad := func(desc string) {
		run.Violation("sqlite:existing-database-file", "a database file written by the pinned release (25 events, two saved offsets, closed cleanly): "+desc, nil)
	}
	for round := 1; round <= 2; round++ {
		st, err := sqlite.New(path)
		if err != nil {
			bad(fmt.Sprintf("open #%d failed: %v", round, err))
			return
		}
		evs, _, err := st.Read(ctx, ebu.OffsetOldest, 0)
		want := fixtureEvents + round - 1
		if err != nil || len(evs) != want {
			bad(fmt.Sprintf("open #%d: Read returned %d events (err %v), want %d", round, len(evs), err, want))
			st.Close()
			return
		}
		for i := 1; i <= fixtureEvents; i++ {
			w, e := fixtureEvent(i), evs[i-1]
			if e.Type != w.Type || string(e.Data) != string(w.Data) || !e.Timestamp.Equal(w.Timestamp) {
				bad(fmt.Sprintf("open #%d: event %d came back as %s %s %v", round, i, e.Type, e.Data, e.Timestamp))
				st.Close()
				return
			}
		}
		n := 0
		for e, err := range st.ReadStream(ctx, evs[9].Offset) {
			if err != nil {
				bad(fmt.Sprintf("open #%d: ReadStream yielded %v", round, err))
				break
			}
			_ = e
			n++
		}
		if n != want-10 {
			bad(fmt.Sprintf("open #%d: ReadStream after event 10 yielded %d events, want %d", round, n, want-10))
		}
		if o, err := st.LoadOffset(ctx, "fixture-sub"); err != nil || o != evs[6].Offset {
			bad(fmt.Sprintf("open #%d: LoadOffset(fixture-sub) = %q, %v; saved was %q", round, o, err, evs[6].Offset))
		}
		if o, err := st.LoadOffset(ctx, "fixture sub/é"); err != nil || o != evs[3].Offset {
			bad(fmt.Sprintf("open #%d: LoadOffset(fixture sub/é) = %q, %v; saved was %q", round, o, err, evs[3].Offset))
		}
		if round == 1 {
			off, err := st.Append(ctx, fixtureEvent(fixtureEvents+1))
			if err != nil || !(len(off) > len(evs[want-1].Offset) || off > evs[want-1].Offset) {
				bad(fmt.Sprintf("Append after the existing events returned %q, %v (last existing offset %q)", off, err, evs[want-1].Offset))
			}
		}
		if err := st.Close(); err != nil {
			bad(fmt.Sprintf("close #%d failed: %v", round, err))
		}
	}
}
