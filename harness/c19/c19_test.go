//go:build verif

// C19 — State messages survive the round trip; bad input is rejected without damage.
package c19

import (
	"bytes"
	"context"
	"encoding/json"
	"fmt"
	"math"
	"math/big"
	"math/rand/v2"
	"os"
	"reflect"
	"sort"
	"strings"
	"testing"
	"time"
	"unicode/utf8"

	ebu "github.com/jilio/ebu"
	"github.com/jilio/ebu/state"

	"verif/harness/internal/jgen"
	"verif/harness/internal/stores"
	"verif/harness/internal/vk"
)

type Inner struct {
	A int64             `json:"a"`
	B *string           `json:"b,omitempty"`
	M map[string]string `json:"m,omitempty"`
}
type Entity struct {
	Name  string  `json:"name"`
	N     int64   `json:"n"`
	U     uint64  `json:"u"`
	F     float64 `json:"f"`
	In    Inner   `json:"in"`
	PIn   *Inner  `json:"pin,omitempty"`
	List  []Inner `json:"list,omitempty"`
	Flags []bool  `json:"flags"`
	Big   big.Int `json:"big"` // MarshalJSON on the pointer receiver, nested by value
	Any   any     `json:"any,omitempty"`
}

// Derived writes a member its struct does not declare (a derived value; read back, it is ignored).
type Derived struct {
	A int `json:"a"`
	B int `json:"b"`
}

func (d Derived) MarshalJSON() ([]byte, error) {
	return json.Marshal(map[string]int{"a": d.A, "b": d.B, "sum": d.A + d.B})
}

// Money has MarshalJSON on the pointer receiver only.
type Money struct{ Cents int64 }

func (m *Money) MarshalJSON() ([]byte, error) {
	return []byte(fmt.Sprintf(`{"amount":"%d.%02d"}`, m.Cents/100, m.Cents%100)), nil
}
func (m *Money) UnmarshalJSON(b []byte) error {
	var t struct {
		Amount string `json:"amount"`
	}
	if err := json.Unmarshal(b, &t); err != nil {
		return err
	}
	var d, c int64
	fmt.Sscanf(t.Amount, "%d.%d", &d, &c)
	m.Cents = d*100 + c
	return nil
}

type Named struct{ V int }

func (Named) StateTypeName() string { return "named-entity" }

func str(r *rand.Rand) string {
	pool := []string{"", "a", "é", "日本", "😀", "\"q\"", "\\", "\n\t", " ", "<&>", " ", "x/y"}
	return pool[r.IntN(len(pool))] + pool[r.IntN(len(pool))]
}

func genInner(r *rand.Rand) Inner {
	in := Inner{A: []int64{0, -1, math.MaxInt64, math.MinInt64, r.Int64()}[r.IntN(5)]}
	if r.IntN(2) == 0 {
		s := str(r)
		in.B = &s
	}
	if r.IntN(2) == 0 {
		in.M = map[string]string{str(r): str(r)}
	}
	return in
}

func genEntity(r *rand.Rand) Entity {
	e := Entity{Name: str(r), N: r.Int64() - r.Int64(), U: []uint64{0, math.MaxUint64, r.Uint64()}[r.IntN(3)],
		F: []float64{0, -0.0, 1e-300, 1e300, math.MaxFloat64, r.NormFloat64()}[r.IntN(6)], In: genInner(r), Flags: []bool{}}
	if r.IntN(2) == 0 {
		in := genInner(r)
		e.PIn = &in
	}
	for k := r.IntN(3); k > 0; k-- {
		e.List = append(e.List, genInner(r))
	}
	if r.IntN(2) == 0 {
		e.Flags = []bool{true, false}
	}
	e.Big.SetString([]string{"0", "-1", "123456789012345678901234567890", "7"}[r.IntN(4)], 10)
	switch r.IntN(4) {
	case 0:
		e.Any = map[string]any{"k": []any{"x", true, nil}}
	case 1:
		e.Any = "s"
	}
	return e
}

var protocolTop = map[string]bool{"type": true, "key": true, "value": true, "old_value": true, "headers": true}
var protocolHdr = map[string]bool{"operation": true, "txid": true, "timestamp": true}
var protocolCtl = map[string]bool{"control": true, "offset": true}

type optSet struct {
	TxID, TS, Auto, EType bool
}

func (o optSet) opts(ts time.Time) []state.ChangeOption {
	var l []state.ChangeOption
	if o.TxID {
		l = append(l, state.WithTxID("tx-ü-1"))
	}
	if o.TS {
		l = append(l, state.WithTimestamp(ts))
	}
	if o.Auto {
		l = append(l, state.WithAutoTimestamp())
	}
	if o.EType {
		l = append(l, state.WithEntityType("custom/type"))
	}
	return l
}

func roundTrip[T any](run *vk.Run, r *rand.Rand, kind, scratch string, value, other T, shape string, equal func(a, b T) bool) {
	st, err := stores.Open(kind, scratch)
	if err != nil {
		panic(err)
	}
	defer func() { st.Close(); st.Remove() }()
	bus := ebu.New(ebu.WithStore(st.Store))
	o := optSet{r.IntN(2) == 0, r.IntN(2) == 0, r.IntN(3) == 0, r.IntN(3) == 0}
	ts := jgen.Timestamp(r)
	key := []string{"k", "a/b", " ", "ключ/1", "😀", strings.Repeat("long", 50), "a//b", "./k", "a/b/", "..", `{"k":1}`, `"quoted"`, "null"}[r.IntN(13)]
	op := []string{"insert", "update", "update-old", "delete", "delete-old"}[r.IntN(5)]
	var msg *state.ChangeMessage
	old := value
	defer func() {
		if rec := recover(); rec != nil {
			run.Violation("statemsg:constructor-or-apply-panicked", fmt.Sprintf("[%s via %s, %s] a helper constructor / collection constructor / Apply panicked for an encodable entity: %v", shape, kind, op, rec), map[string]any{"shape": shape, "op": op, "key": key})
		}
	}()
	switch op {
	case "insert":
		msg, err = state.Insert(key, value, o.opts(ts)...)
	case "update":
		msg, err = state.Update(key, value, o.opts(ts)...)
	case "update-old":
		msg, err = state.UpdateWithOldValue(key, value, old, o.opts(ts)...)
	case "delete":
		msg, err = state.Delete[T](key, o.opts(ts)...)
	case "delete-old":
		msg, err = state.DeleteWithOldValue(key, old, o.opts(ts)...)
	}
	witness := map[string]any{"shape": shape, "store": kind, "op": op, "key": key, "options": o, "value": fmt.Sprintf("%+v", value)}
	viol := func(rule, desc string) {
		run.Violation("statemsg:"+rule, fmt.Sprintf("[%s via %s, %s, options %+v] %s", shape, kind, op, o, desc), witness)
	}
	if err != nil {
		viol("constructor-error", "helper constructor failed for an encodable entity: "+err.Error())
		return
	}
	// seed a previous value so that delete has something to remove
	wantType := state.EntityType(other) // (other is never nil; value may be a nil pointer)
	if o.EType {
		wantType = "custom/type"
	}
	ebu.Publish(bus, *msg)
	ebu.Publish(bus, *state.SnapshotEnd("5"))
	// --- the stored document
	var evs []*ebu.StoredEvent
	from := ebu.OffsetOldest
	for i := 0; i < 10; i++ {
		page, next, err := st.Store.Read(context.Background(), from, 0)
		if err != nil {
			panic(err)
		}
		if len(page) == 0 {
			break
		}
		evs = append(evs, page...)
		from = next
	}
	if len(evs) != 2 || evs[0].Type != "state.ChangeMessage" || evs[1].Type != "state.ControlMessage" {
		viol("stored-type", fmt.Sprintf("stored %d events %v", len(evs), typesOf(evs)))
		return
	}
	witness["stored"] = string(evs[0].Data)
	var doc map[string]json.RawMessage
	if err := json.Unmarshal(evs[0].Data, &doc); err != nil {
		viol("stored-not-json", err.Error())
		return
	}
	for k := range doc {
		if !protocolTop[k] {
			viol("field-names", fmt.Sprintf("change message serialises a field %q that is not a state-protocol field name", k))
		}
	}
	var hdr map[string]json.RawMessage
	json.Unmarshal(doc["headers"], &hdr)
	for k := range hdr {
		if !protocolHdr[k] {
			viol("field-names", fmt.Sprintf("headers serialise a field %q that is not a state-protocol field name", k))
		}
	}
	var ctl map[string]map[string]json.RawMessage
	json.Unmarshal(evs[1].Data, &ctl)
	for k := range ctl["headers"] {
		if !protocolCtl[k] {
			viol("field-names", fmt.Sprintf("control headers serialise a field %q", k))
		}
	}
	if string(ctl["headers"]["control"]) != `"snapshot-end"` || string(ctl["headers"]["offset"]) != `"5"` {
		viol("control-roundtrip", fmt.Sprintf("control message stored as %s", evs[1].Data))
	}
	var got state.ChangeMessage
	if err := json.Unmarshal(evs[0].Data, &got); err != nil {
		viol("stored-undecodable", err.Error())
		return
	}
	wantOp := map[string]state.Operation{"insert": state.OperationInsert, "update": state.OperationUpdate, "update-old": state.OperationUpdate, "delete": state.OperationDelete, "delete-old": state.OperationDelete}[op]
	if got.Type != wantType || got.Key != key || got.Headers.Operation != wantOp {
		viol("identity", fmt.Sprintf("stored message has type %q key %q operation %q, want %q %q %q", got.Type, got.Key, got.Headers.Operation, wantType, key, wantOp))
	}
	wantVal, _ := json.Marshal(&value)
	hasVal := op == "insert" || op == "update" || op == "update-old"
	if hasVal && !jgen.JSONEqual(got.Value, wantVal) {
		viol("value", fmt.Sprintf("stored value %s is not the entity's JSON encoding %s", got.Value, wantVal))
	}
	if !hasVal && len(got.Value) != 0 && string(got.Value) != "null" {
		viol("value", fmt.Sprintf("a delete message carries value %s", got.Value))
	}
	if (op == "update-old" || op == "delete-old") && !jgen.JSONEqual(got.OldValue, wantVal) {
		viol("old-value", fmt.Sprintf("stored old_value %s is not the entity's JSON encoding %s", got.OldValue, wantVal))
	}
	if o.TxID != (got.Headers.TxID == "tx-ü-1") {
		viol("txid", fmt.Sprintf("txid %q", got.Headers.TxID))
	}
	if o.TS {
		if pt, err := time.Parse(time.RFC3339Nano, got.Headers.Timestamp); err != nil || pt.Format(time.RFC3339Nano) != ts.Format(time.RFC3339Nano) {
			viol("timestamp", fmt.Sprintf("header timestamp %q for WithTimestamp(%s)", got.Headers.Timestamp, ts.Format(time.RFC3339Nano)))
		}
	} else if o.Auto {
		if _, err := time.Parse(time.RFC3339Nano, got.Headers.Timestamp); err != nil {
			viol("timestamp", fmt.Sprintf("auto timestamp %q does not parse", got.Headers.Timestamp))
		}
	} else if got.Headers.Timestamp != "" {
		viol("timestamp", fmt.Sprintf("timestamp %q without a timestamp option", got.Headers.Timestamp))
	}
	// --- through replay into a materializer
	mat := state.NewMaterializer(state.WithStrictSchema())
	coll := state.NewTypedCollectionWithType[T](state.NewMemoryStore[T](), wantType)
	state.RegisterCollection(mat, coll)
	coll2 := state.NewTypedCollectionWithType[T](state.NewMemoryStore[T](), "other")
	state.RegisterCollection(mat, coll2)
	if op == "update" || op == "update-old" {
		// an entity already stored under the key, and under keys a sloppy key function would conflate:
		// the update must replace exactly its own entity with exactly the value it carries
		for _, k := range []string{key, key + "/", "./" + key, strings.ReplaceAll(key, "/", "//")} {
			pre, _ := state.Insert(k, other, state.WithEntityType(wantType))
			b, _ := json.Marshal(pre)
			if err := mat.Apply(&ebu.StoredEvent{Offset: "pre", Type: "state.ChangeMessage", Data: b}); err != nil {
				viol("apply-error", fmt.Sprintf("Apply of an insert built by the helper failed: %v", err))
				return
			}
		}
	}
	if !hasVal {
		// something to delete
		pre, _ := state.Insert(key, value, state.WithEntityType(wantType))
		b, _ := json.Marshal(pre)
		if err := mat.Apply(&ebu.StoredEvent{Offset: "pre", Type: "state.ChangeMessage", Data: b}); err != nil {
			viol("apply-error", fmt.Sprintf("Apply of an insert built by the helper failed: %v", err))
			return
		}
	}
	for _, e := range evs {
		if err := mat.Apply(e); err != nil {
			viol("apply-error", fmt.Sprintf("Apply of the replayed message failed: %v", err))
			return
		}
	}
	gotEnt, ok := coll.Get(key)
	if hasVal {
		if all := coll.All(); len(all) == 0 || func() bool { v, in := all[state.CompositeKey(wantType, key)]; return !in || !equal(v, value) }() {
			viol("materialized-entity-missing-from-All", fmt.Sprintf("All() of the collection registered as %q does not hold the entity under %q (it has %d entries)", wantType, state.CompositeKey(wantType, key), len(coll.All())))
		}
		if !ok || !equal(gotEnt, value) {
			viol("materialized-entity", fmt.Sprintf("materialized %+v (present=%v), published %+v", gotEnt, ok, value))
		}
	} else if ok {
		viol("materialized-entity", "the entity is still present after its delete message")
	}
	if op == "update" || op == "update-old" {
		for _, k := range []string{key + "/", "./" + key} {
			if g, ok := coll.Get(k); !ok || !equal(g, other) {
				viol("neighbour-key-touched", fmt.Sprintf("the entity stored under key %q changed (present=%v) when key %q was updated", k, ok, key))
			}
		}
	}
	if len(coll2.All()) != 0 {
		viol("wrong-collection", "a collection of another entity type received the change")
	}
	run.Case(fmt.Sprintf("%s|%s|%s|%+v|k%d", shape, kind, op, o, len(key)), o.TxID || o.TS || o.EType)
	if run.WantSample() && shape == "Entity" {
		run.Sample(witness)
	}
}

func typesOf(evs []*ebu.StoredEvent) []string {
	var l []string
	for _, e := range evs {
		l = append(l, e.Type)
	}
	return l
}

// batchTrip: a longer run of messages (more than nine, so that decimal offsets change length) through
// publish, store and Materializer.Replay: every one of them reaches the materializer.
func batchTrip(run *vk.Run, r *rand.Rand, kind, scratch string) {
	st, err := stores.Open(kind, scratch)
	if err != nil {
		panic(err)
	}
	defer func() { st.Close(); st.Remove() }()
	bus := ebu.New(ebu.WithStore(st.Store))
	n := 10 + r.IntN(15)
	want := map[string]Entity{}
	for i := 0; i < n; i++ {
		e := genEntity(r)
		key := fmt.Sprintf("k%d", i)
		var msg *state.ChangeMessage
		if i%4 == 3 {
			key = fmt.Sprintf("k%d", i-1)
			msg, err = state.Update(key, e)
		} else {
			msg, err = state.Insert(key, e)
		}
		if err != nil {
			run.Violation("statemsg:constructor-error", err.Error(), nil)
			return
		}
		want[key] = e
		ebu.Publish(bus, *msg)
	}
	// another consumer of the same store reads it through an upcasting replay that turns change
	// messages into an audit format: a reader - the stored state messages stay what was published
	audit := ebu.New(ebu.WithStore(st.Store))
	ebu.RegisterUpcastFunc(audit, "state.ChangeMessage", "c19.audit.v1", func(d json.RawMessage) (json.RawMessage, string, error) {
		out, err := json.Marshal(map[string]json.RawMessage{"audited": d})
		return out, "c19.audit.v1", err
	})
	audit.ReplayWithUpcast(context.Background(), ebu.OffsetOldest, func(*ebu.StoredEvent) error { return nil })
	for _, sessions := range []int{1, 2} {
		mat := state.NewMaterializer(state.WithStrictSchema())
		coll := state.NewTypedCollection[Entity](state.NewMemoryStore[Entity]())
		state.RegisterCollection(mat, coll)
		for s := 0; s < sessions; s++ {
			// (two sessions: the second replays from the start again - an idempotent re-application)
			if err := mat.Replay(context.Background(), bus, ebu.OffsetOldest); err != nil {
				run.Violation("statemsg:batch-replay-error", fmt.Sprintf("[%s] Materializer.Replay of %d helper-built messages failed: %v", kind, n, err), map[string]any{"store": kind, "messages": n})
				return
			}
		}
		for key, e := range want {
			got, ok := coll.Get(key)
			x, _ := json.Marshal(&e)
			y, _ := json.Marshal(&got)
			if !ok || !jgen.JSONEqual(x, y) {
				run.Violation("statemsg:batch-materialized-entity", fmt.Sprintf("[%s] %d messages published, stored and replayed into a materializer (%d replay sessions from the start): key %q holds %s (present=%v), the last message for it carried %s", kind, n, sessions, key, y, ok, x), map[string]any{"store": kind, "messages": n, "key": key})
				return
			}
		}
	}
	// the same messages as an older producer wrote them — under a legacy type name — reach the
	// materializer through an upcasting replay (an unwrapping upcaster registered on a bus that was
	// first told to forget the upcasters of a type it never had)
	st2, err := stores.Open(kind, scratch)
	if err != nil {
		panic(err)
	}
	defer func() { st2.Close(); st2.Remove() }()
	old := ebu.New(ebu.WithStore(st2.Store))
	want2 := map[string]Entity{}
	for i := 0; i < n; i++ {
		e := genEntity(r)
		key := fmt.Sprintf("k%d", i%7)
		msg, err := state.Insert(key, e)
		if err != nil {
			run.Violation("statemsg:constructor-error", err.Error(), nil)
			return
		}
		want2[key] = e
		ebu.Publish(old, legacyChange(*msg))
	}
	bus2 := ebu.New(ebu.WithStore(st2.Store))
	bus2.ClearUpcastsForType("c19.never-registered")
	if err := ebu.RegisterUpcastFunc(bus2, "c19.legacy-change.v0", "state.ChangeMessage", func(d json.RawMessage) (json.RawMessage, string, error) {
		var env struct {
			Legacy json.RawMessage `json:"legacy"`
		}
		if err := json.Unmarshal(d, &env); err != nil || len(env.Legacy) == 0 {
			return nil, "", fmt.Errorf("not a legacy envelope: %v", err)
		}
		return env.Legacy, "state.ChangeMessage", nil
	}); err != nil {
		panic(err)
	}
	mat2 := state.NewMaterializer(state.WithStrictSchema())
	coll2 := state.NewTypedCollection[Entity](state.NewMemoryStore[Entity]())
	state.RegisterCollection(mat2, coll2)
	if err := bus2.ReplayWithUpcast(context.Background(), ebu.OffsetOldest, mat2.Apply); err != nil {
		run.Violation("statemsg:legacy-replay-error", fmt.Sprintf("[%s] upcasting replay of %d legacy-named change messages into a materializer failed: %v", kind, n, err), map[string]any{"store": kind})
		return
	}
	for key, e := range want2 {
		got, ok := coll2.Get(key)
		x, _ := json.Marshal(&e)
		y, _ := json.Marshal(&got)
		if !ok || !jgen.JSONEqual(x, y) {
			run.Violation("statemsg:legacy-materialized-entity", fmt.Sprintf("[%s] %d change messages stored under a legacy type name and replayed through an upcaster into a materializer: key %q holds %s (present=%v), want %s", kind, n, key, y, ok, x), map[string]any{"store": kind, "key": key})
			return
		}
	}
	run.Case(fmt.Sprintf("batch|%s|n%d", kind, n/5), true)
	run.Count("batch_messages_replayed", int64(2*n))
}

// legacyChange is a change message as an older producer published it: the same document inside an
// envelope, under an older type name.
type legacyChange state.ChangeMessage

func (legacyChange) EventTypeName() string { return "c19.legacy-change.v0" }
func (l legacyChange) MarshalJSON() ([]byte, error) {
	inner, err := json.Marshal(state.ChangeMessage(l))
	if err != nil {
		return nil, err
	}
	return json.Marshal(map[string]json.RawMessage{"legacy": inner})
}

func TestC19RoundTrip(t *testing.T) {
	run := vk.New("C19", "roundtrip")
	defer run.Finish()
	scratch := os.Getenv("VERIF_SCRATCH")
	if scratch == "" {
		scratch = t.TempDir()
	}
	n := run.Scale(500, 20000)
	kinds := []string{"memory", "memory", "memory", "sqlite-mem", "durable"}
	for i := 0; i < n; i++ {
		r := run.Rand(uint64(i))
		kind := kinds[i%len(kinds)]
		if i%10 == 0 {
			batchTrip(run, r, []string{"memory", "sqlite-file", "sqlite-batch3", "memory-paged", "durable"}[(i/10)%5], scratch)
		}
		switch i % 6 {
		case 0, 1, 2:
			roundTrip(run, r, kind, scratch, genEntity(r), genEntity(r), "Entity", func(a, b Entity) bool {
				x, _ := json.Marshal(&a)
				y, _ := json.Marshal(&b)
				return jgen.JSONEqual(x, y)
			})
		case 3:
			roundTrip(run, r, kind, scratch, Money{Cents: int64(r.IntN(100000))}, Money{Cents: 1}, "Money(pointer-receiver MarshalJSON)", func(a, b Money) bool { return a == b })
		case 4:
			roundTrip(run, r, kind, scratch, Named{V: r.IntN(100)}, Named{V: -1}, "Named(StateTypeName)", func(a, b Named) bool { return a == b })
		case 5:
			roundTrip(run, r, kind, scratch, map[string]int{str(r): i, "k": 1}, map[string]int{"stale": 9}, "map entity", func(a, b map[string]int) bool { return reflect.DeepEqual(a, b) })
			// scalar, slice and pointer entities
			roundTrip(run, r, kind, scratch, int64(r.IntN(1000))-500, int64(7), "scalar entity", func(a, b int64) bool { return a == b })
			roundTrip(run, r, kind, scratch, []string{str(r), "x"}, []string{"stale", "y", "z"}, "slice entity", func(a, b []string) bool { return reflect.DeepEqual(a, b) })
			pe, po := &Named{V: r.IntN(50)}, &Named{V: -2}
			roundTrip(run, r, kind, scratch, pe, po, "pointer entity", func(a, b *Named) bool { return a != nil && b != nil && *a == *b })
			roundTrip(run, r, kind, scratch, Derived{A: r.IntN(100), B: i}, Derived{A: -1}, "entity whose MarshalJSON adds a derived member", func(a, b Derived) bool { return a == b })
			// entities whose JSON encoding is null: nil slice, nil map, nil pointer
			roundTrip(run, r, kind, scratch, []string(nil), []string{"stale"}, "nil slice entity", func(a, b []string) bool { return (len(a) == 0 && len(b) == 0) || reflect.DeepEqual(a, b) })
			roundTrip(run, r, kind, scratch, map[string]int(nil), map[string]int{"stale": 1}, "nil map entity", func(a, b map[string]int) bool { return (len(a) == 0 && len(b) == 0) || reflect.DeepEqual(a, b) })
			roundTrip(run, r, kind, scratch, (*Named)(nil), &Named{V: -3}, "nil pointer entity", func(a, b *Named) bool { return (a == nil && b == nil) || (a != nil && b != nil && *a == *b) })
			schemaless(run, r, kind, scratch)
		}
	}
}

// schemaless: a collection of interface-typed entities under an explicit entity type holds whatever
// JSON the producers send - documents, text, numbers and null. Every value comes back from Get and
// All as what a JSON decoder makes of it; null is a present entry whose value is nil.
func schemaless(run *vk.Run, r *rand.Rand, kind, scratch string) {
	st, err := stores.Open(kind, scratch)
	if err != nil {
		panic(err)
	}
	defer func() { st.Close(); st.Remove() }()
	bus := ebu.New(ebu.WithStore(st.Store))
	vals := []any{nil, 1.5, "text", "", map[string]any{"a": 1.0, "b": []any{"x", nil}}, []any{}, true, nil}
	want := map[string]any{}
	run.Case("schemaless (interface-typed) entities|"+kind, true)
	defer func() {
		if rec := recover(); rec != nil {
			run.Violation("statemsg:constructor-or-apply-panicked", fmt.Sprintf("[schemaless collection via %s] a helper constructor, Apply, Get or All panicked for JSON-encodable interface-typed entities %v: %v", kind, want, rec), nil)
		}
	}()
	for i := 0; i < 2+r.IntN(5); i++ {
		key := fmt.Sprintf("doc-%d", r.IntN(4))
		v := vals[r.IntN(len(vals))]
		msg, err := state.Insert[any](key, v, state.WithEntityType("schemaless/doc"))
		if err != nil {
			run.Violation("statemsg:constructor-error", fmt.Sprintf("Insert[any](%q, %v) failed: %v", key, v, err), nil)
			return
		}
		ebu.Publish(bus, *msg)
		want["schemaless/doc/"+key] = v
	}
	mat := state.NewMaterializer(state.WithStrictSchema())
	docs := state.NewTypedCollectionWithType[any](state.NewMemoryStore[any](), "schemaless/doc")
	state.RegisterCollection(mat, docs)
	if err := mat.Replay(context.Background(), bus, ebu.OffsetOldest); err != nil {
		run.Violation("statemsg:apply-error", fmt.Sprintf("[schemaless collection via %s] Replay of %d inserts failed: %v", kind, len(want), err), nil)
		return
	}
	all := docs.All()
	if !reflect.DeepEqual(all, want) {
		run.Violation("statemsg:materialized-entity", fmt.Sprintf("[schemaless collection via %s] All() = %v, the last written values are %v", kind, all, want), nil)
	}
	for ck, v := range want {
		got, ok := docs.Get(strings.TrimPrefix(ck, "schemaless/doc/"))
		if !ok || !reflect.DeepEqual(got, v) {
			run.Violation("statemsg:materialized-entity", fmt.Sprintf("[schemaless collection via %s] Get(%q) = %v, %v; the last written value is %v", kind, ck, got, ok, v), nil)
		}
	}
}

// ---------------------------------------------------------------------------------------------
// arbitrary bytes

type target struct {
	mat    *state.Materializer
	users  *state.TypedCollection[Entity]
	named  *state.TypedCollection[Named]
	narrow *state.TypedCollection[narrowEntity] // only in targets built with newTargetReregistered
}

// narrowEntity is a later, narrower view of the same entity type: documents that decode into Entity
// do not all decode into it.
type narrowEntity struct {
	Name int  `json:"name"`
	N    bool `json:"n"`
}

// newTargetReregistered: the entity type of users is registered a second time with another Go type
// (the documented effect: the newer collection takes over). Whatever the materializer makes of the
// older one - an event that cannot be applied must leave both as they were.
func newTargetReregistered(strict bool) *target {
	t := newTarget(strict)
	t.narrow = state.NewTypedCollectionWithType[narrowEntity](state.NewMemoryStore[narrowEntity](), state.EntityType(Entity{}))
	state.RegisterCollection(t.mat, t.narrow)
	return t
}

func newTarget(strict bool) *target {
	t := &target{}
	var opts []state.MaterializerOption
	if strict {
		opts = append(opts, state.WithStrictSchema())
		// hook options handed an unset (nil) callback, as a config struct with optional hooks does
		opts = append(opts, state.WithOnError(nil), state.WithOnReset(nil), state.WithOnSnapshot(nil))
	}
	t.mat = state.NewMaterializer(opts...)
	t.users = state.NewTypedCollection[Entity](state.NewMemoryStore[Entity]())
	t.named = state.NewTypedCollection[Named](state.NewMemoryStore[Named]())
	state.RegisterCollection(t.mat, t.users)
	state.RegisterCollection(t.mat, t.named)
	return t
}

func (t *target) snapshot() string {
	a, _ := json.Marshal(t.users.All())
	b, _ := json.Marshal(t.named.All())
	c := []byte("-")
	if t.narrow != nil {
		c, _ = json.Marshal(t.narrow.All())
	}
	return string(a) + "|" + string(b) + "|" + string(c) + "|" + string(t.mat.LastOffset())
}

// applyChecked: Apply never panics; on error nothing changed.
func applyChecked(t *target, data []byte, off string) (msg string, failed bool) {
	defer func() {
		if r := recover(); r != nil {
			msg, failed = fmt.Sprintf("reading the collections / LastOffset around Apply panicked: %v", r), true
		}
	}()
	before := t.snapshot()
	var err error
	func() {
		defer func() {
			if r := recover(); r != nil {
				msg = fmt.Sprintf("Apply panicked: %v", r)
			}
		}()
		err = t.mat.Apply(&ebu.StoredEvent{Offset: ebu.Offset(off), Type: "state.ChangeMessage", Data: data})
	}()
	if msg != "" {
		return msg, true
	}
	if err != nil {
		if after := t.snapshot(); after != before {
			return fmt.Sprintf("Apply returned %v but changed state / LastOffset: before %s, after %s", err, before, after), true
		}
		return "", true
	}
	return "", false
}

func seedMessages(r *rand.Rand) [][]byte {
	var out [][]byte
	e := genEntity(r)
	for _, mk := range []func() (*state.ChangeMessage, error){
		func() (*state.ChangeMessage, error) { return state.Insert("k1", e) },
		func() (*state.ChangeMessage, error) {
			return state.UpdateWithOldValue("k/2", e, e, state.WithTxID("t"))
		},
		func() (*state.ChangeMessage, error) { return state.Delete[Entity]("k1") },
		func() (*state.ChangeMessage, error) { return state.Insert("n", Named{V: 3}) },
	} {
		m, err := mk()
		if err != nil {
			panic(err)
		}
		b, _ := json.Marshal(m)
		out = append(out, b)
	}
	for _, c := range []*state.ControlMessage{state.Reset(""), state.SnapshotStart("1"), state.SnapshotEnd("2")} {
		b, _ := json.Marshal(c)
		out = append(out, b)
	}
	return out
}

// mutate applies structure-aware damage to a valid message.
func mutate(r *rand.Rand, b []byte) []byte {
	if len(b) == 0 {
		return []byte(`{}`)
	}
	switch r.IntN(14) {
	case 0:
		return b[:r.IntN(len(b)+1)] // truncate
	case 1:
		return bytes.Replace(b, []byte(`"operation"`), []byte(`"operation":7,"x"`), 1)
	case 2:
		return bytes.Replace(b, []byte(`"headers":{`), []byte(`"headers":[`), 1)
	case 3:
		return bytes.Replace(b, []byte(`"value":`), []byte(`"value":"str","value2":`), 1)
	case 4:
		return bytes.Replace(b, []byte(`"key":`), []byte(`"key":null,"k":`), 1)
	case 5:
		return bytes.Replace(b, []byte(`"type":"`), []byte(`"type":"unknown.`), 1)
	case 6:
		return append(b[:len(b):len(b)], b...) // two documents
	case 7:
		return []byte(strings.Repeat("[", 1+r.IntN(3000)) + strings.Repeat("]", r.IntN(3000)))
	case 8:
		c := append([]byte{}, b...)
		for k := 0; k < 1+r.IntN(4); k++ {
			c[r.IntN(len(c))] = byte(r.IntN(256))
		}
		return c
	case 9:
		return []byte(`{"headers":{"control":"reset","operation":"insert"},"type":"` + state.EntityType(Entity{}) + `","key":"k","value":{"n":"x"}}`)
	case 10:
		return []byte(`{"headers":null,"type":null,"key":null,"value":null}`)
	case 11:
		return bytes.Replace(b, []byte(`"n":`), []byte(`"n":1e999,"nn":`), 1)
	case 12:
		return []byte(`{"headers":{"operation":"insert"},"type":"` + state.EntityType(Entity{}) + `","key":"k","value":` + string(jgen.Doc(r, true)) + `}`)
	default:
		return []byte(`{"headers":{"operation":"` + []string{"insert", "update", "delete", "upsert", ""}[r.IntN(5)] + `"},"type":"` + state.EntityType(Named{}) + `","key":"k"}`)
	}
}

func TestC19Bytes(t *testing.T) {
	run := vk.New("C19", "bytes")
	defer run.Finish()
	n := run.Scale(40000, 1500000)
	tg := [3]*target{newTarget(false), newTarget(true), newTargetReregistered(false)}
	classes := map[string]int{}
	for i := 0; i < n; i++ {
		r := run.Rand(uint64(i / 50))
		if i%50 == 0 {
			// fresh targets with some state in them
			tg = [3]*target{newTarget(false), newTarget(true), newTargetReregistered(i%100 == 0)}
			seedState := seedMessages(r)[:2]
			if (i/50)%3 == 2 {
				seedState = nil // every third block: materializers that have not applied anything yet
			}
			for j, m := range seedState {
				for _, tt := range tg {
					tt.mat.Apply(&ebu.StoredEvent{Offset: ebu.Offset(fmt.Sprint("s", j)), Type: "state.ChangeMessage", Data: m})
				}
			}
		}
		rr := rand.New(rand.NewPCG(uint64(run.Seed)^uint64(i), uint64(run.Shard)))
		seeds := seedMessages(rr)
		data := mutate(rr, seeds[rr.IntN(len(seeds))])
		if i%37 == 5 {
			// the shortest documents there are: bare literals, empty containers, padding
			data = []byte([]string{"null", " null ", "null\n", "true", "0", `""`, "[]", "{}", " {} ", "[null]", `{"headers":null}`, `{"type":null,"key":null,"value":null,"headers":null}`}[(i/37)%12])
		}
		if rr.IntN(6) == 0 {
			data = mutate(rr, data)
		}
		for k, tt := range tg {
			msg, failed := applyChecked(tt, data, fmt.Sprintf("o%d", i))
			if msg != "" {
				run.Violation("statemsg:apply-bad-input", fmt.Sprintf("strict=%v reregistered=%v: %s; input %q", k == 1, k == 2, msg, clip(data)), map[string]any{"input_base64_or_text": string(data), "strict": k == 1, "entity_type_registered_twice": k == 2})
			}
			cls := "accepted"
			if failed {
				cls = "rejected"
			}
			if json.Valid(data) {
				cls += "-valid-json"
			} else if !utf8.Valid(data) {
				cls += "-invalid-utf8"
			} else {
				cls += "-not-json"
			}
			classes[cls]++
		}
		sig := fmt.Sprintf("%x", sum(data)%4096)
		run.Case(sig, json.Valid(data))
	}
	var ks []string
	for k, v := range classes {
		ks = append(ks, fmt.Sprintf("%s=%d", k, v))
		run.Count("inputs."+k, int64(v))
	}
	sort.Strings(ks)
	run.Sample(map[string]any{"input_classes": ks, "example_input": string(mutate(rand.New(rand.NewPCG(1, 2)), seedMessages(rand.New(rand.NewPCG(3, 4)))[0]))})
}

func sum(b []byte) uint64 {
	var h uint64 = 1469598103934665603
	for _, c := range b {
		h = (h ^ uint64(c)) * 1099511628211
	}
	return h
}

func clip(b []byte) string {
	if len(b) > 200 {
		return string(b[:200]) + "..."
	}
	return string(b)
}

// FuzzApply is the coverage-guided tier (thorough): arbitrary bytes through Apply, same oracle.
func FuzzApply(f *testing.F) {
	r := rand.New(rand.NewPCG(1, 1))
	for _, s := range seedMessages(r) {
		f.Add(s, false)
		f.Add(mutate(r, s), true)
	}
	f.Fuzz(func(t *testing.T, data []byte, strict bool) {
		tt := newTarget(strict)
		rr := rand.New(rand.NewPCG(7, 7))
		seedState := seedMessages(rr)[:2]
		if len(data)%3 == 0 {
			seedState = nil // a materializer that has not applied anything yet
		}
		for j, m := range seedState {
			tt.mat.Apply(&ebu.StoredEvent{Offset: ebu.Offset(fmt.Sprint("s", j)), Type: "state.ChangeMessage", Data: m})
		}
		if msg, _ := applyChecked(tt, data, "fz"); msg != "" {
			t.Fatalf("VIOLATION-C19 %s", msg)
		}
	})
}
