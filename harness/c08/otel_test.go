//go:build verif

package c08

import (
	"testing"

	ebu "github.com/jilio/ebu"
	ebuotel "github.com/jilio/ebu/otel"
	sdkmetric "go.opentelemetry.io/otel/sdk/metric"
	sdktrace "go.opentelemetry.io/otel/sdk/trace"

	"verif/harness/internal/prog"
	"verif/harness/internal/vk"
)

// TestC08OTel: context propagation and cancellation with the bundled OpenTelemetry Observability in
// place (its start callbacks return the contexts that handlers receive).
func TestC08OTel(t *testing.T) {
	run := vk.New("C08", "ctx-with-otel")
	defer run.Finish()
	h := prog.NewHarness(run, "ctx")
	defer h.Dog.Stop()
	factory := func(*prog.Engine) ebu.Observability {
		tp := sdktrace.NewTracerProvider(sdktrace.WithSampler(sdktrace.AlwaysSample()))
		mp := sdkmetric.NewMeterProvider(sdkmetric.WithReader(sdkmetric.NewManualReader()))
		o, err := ebuotel.New(ebuotel.WithTracerProvider(tp), ebuotel.WithMeterProvider(mp))
		if err != nil {
			panic(err)
		}
		return o
	}
	after := func(eng *prog.Engine) {
		eng.CheckHooks()
		eng.CheckCtxPropagation()
		h.CountStats(eng)
	}
	if p := prog.ReplayProgram(); p != nil {
		h.Exec(0, p, factory, after)
		return
	}
	n := run.Scale(800, 20000)
	pf := prog.Profile{MinTypes: 1, MaxTypes: 3, MinOps: 8, MaxOps: 30, Async: true, Scripts: true, Cancels: true, Hooks: true, Obs: true, PanicHandler: 1}
	for i := 0; i < n; i++ {
		p := prog.Gen(run.Rand(uint64(i)), h.Drivers, pf)
		p.Cfg.Obs = true
		eng := h.Exec(i, p, factory, after)
		run.Case("otel|"+eng.Signature(), eng.Stats.AsyncInv > 0 || eng.Stats.Cancels > 0)
		if i == 0 {
			run.Sample(map[string]any{"program": p})
		}
	}
}
