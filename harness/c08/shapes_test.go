//go:build verif

package c08

import (
	"context"
	"fmt"
	"reflect"

	ebu "github.com/jilio/ebu"

	"verif/harness/internal/vk"
)

type batch []int
type labels map[string]string
type note struct{ N int }

// emptyValuesAndClearedHooks: (1) events whose value is an empty slice, a nil slice, a nil map or a
// nil pointer are events like any other - every hook runs once around them and their handler once;
// (2) a hook of one kind that is unset (given as nil by option, or cleared with the setter after it
// had been set) leaves the hooks of the other kind and the handlers as they were.
func emptyValuesAndClearedHooks(run *vk.Run) {
	for variant := 0; variant < 8; variant++ {
		var bl, bc, al, ac, handled int
		var lastType reflect.Type
		nilLegacyBefore, nilLegacyAfter, clearBySetter := variant&1 != 0, variant&2 != 0, variant&4 != 0
		opts := []ebu.Option{
			ebu.WithBeforePublishContext(func(_ context.Context, t reflect.Type, _ any) { bc++; lastType = t }),
			ebu.WithAfterPublishContext(func(context.Context, reflect.Type, any) { ac++ }),
		}
		before := ebu.PublishHook(func(reflect.Type, any) { bl++ })
		after := ebu.PublishHook(func(reflect.Type, any) { al++ })
		if nilLegacyBefore && !clearBySetter {
			before = nil
		}
		if nilLegacyAfter && !clearBySetter {
			after = nil
		}
		opts = append(opts, ebu.WithBeforePublish(before), ebu.WithAfterPublish(after))
		bus := ebu.New(opts...)
		if clearBySetter {
			if nilLegacyBefore {
				bus.SetBeforePublishHook(nil)
			}
			if nilLegacyAfter {
				bus.SetAfterPublishHook(nil)
			}
		}
		ebu.Subscribe(bus, func(batch) { handled++ })
		ebu.Subscribe(bus, func(labels) { handled++ })
		ebu.Subscribe(bus, func(*note) { handled++ })
		ebu.Subscribe(bus, func(note) { handled++ })
		pubs := 0
		failed := ""
		pub := func(what string, f func()) {
			func() {
				defer func() {
					if r := recover(); r != nil && failed == "" {
						failed = fmt.Sprintf("publishing %s panicked: %v", what, r)
					}
				}()
				f()
			}()
			pubs++
			wantBL, wantAL := pubs, pubs
			if nilLegacyBefore {
				wantBL = 0
			}
			if nilLegacyAfter {
				wantAL = 0
			}
			if failed == "" && (bc != pubs || ac != pubs || bl != wantBL || al != wantAL || handled != pubs) {
				failed = fmt.Sprintf("after publishing %s (publish #%d): context-aware before/after hooks ran %d/%d times, legacy before/after hooks %d/%d (want %d/%d), handlers %d", what, pubs, bc, ac, bl, al, wantBL, wantAL, handled)
			}
		}
		pub("a note", func() { ebu.Publish(bus, note{1}) })
		pub("an empty batch", func() { ebu.Publish(bus, batch{}) })
		pub("a nil batch", func() { var b batch; ebu.Publish(bus, b) })
		pub("nil labels", func() { ebu.PublishContext(bus, context.Background(), labels(nil)) })
		pub("a nil *note", func() { ebu.Publish(bus, (*note)(nil)) })
		pub("a batch", func() { ebu.Publish(bus, batch{1, 2}) })
		if failed == "" && lastType != reflect.TypeOf(batch{}) {
			failed = fmt.Sprintf("the hook was told type %v for a batch", lastType)
		}
		run.Case(fmt.Sprintf("empty values and unset hooks|nil-before%v|nil-after%v|setter%v", nilLegacyBefore, nilLegacyAfter, clearBySetter), true)
		if failed != "" {
			run.Violation("hooks:empty-values-or-unset-hooks", fmt.Sprintf("legacy before hook unset: %v, legacy after hook unset: %v (by %s): %s", nilLegacyBefore, nilLegacyAfter, map[bool]string{true: "the setter, after it had been set", false: "a nil option"}[clearBySetter], failed), nil)
		}
	}
}
