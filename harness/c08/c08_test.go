//go:build verif

// C08 — Cancellation, context propagation and publish hooks behave predictably.
package c08

import (
	"fmt"
	"testing"

	"verif/harness/internal/prog"
	"verif/harness/internal/vk"
)

func TestC08(t *testing.T) {
	run := vk.New("C08", "hooks-ctx")
	defer run.Finish()
	h := prog.NewHarness(run, "ctx")
	defer h.Dog.Stop()
	after := func(eng *prog.Engine) {
		eng.CheckHooks()
		eng.CheckCtxPropagation()
		h.CountStats(eng)
	}
	if p := prog.ReplayProgram(); p != nil {
		h.Exec(0, p, nil, after)
		return
	}
	// (a) enumerated: handler lists of length 0..3 over kinds {sync, async} x {plain, ctx-aware},
	// cancellation point {never, before the call (cancel / deadline), by the k-th handler (cancel /
	// deadline)}, every subset of the four hooks, hooks by option or by setter, with/without obs+store
	type hk struct{ async, ctx bool }
	kinds := []hk{{false, false}, {false, true}, {true, false}, {true, true}}
	var lists [][]hk
	lists = append(lists, nil)
	for _, a := range kinds {
		lists = append(lists, []hk{a})
		for _, b := range kinds {
			lists = append(lists, []hk{a, b})
			for _, c := range kinds {
				lists = append(lists, []hk{a, b, c})
			}
		}
	}
	idx := 0
	for _, l := range lists {
		for cancelPos := -2; cancelPos <= len(l); cancelPos++ { // -2 never, -1 Publish (no ctx), 0 pre-cancelled, k>=1 by k-th handler
			for _, deadline := range []bool{false, true} {
				if deadline && cancelPos < 0 {
					continue
				}
				if cancelPos >= 1 && l[cancelPos-1].async {
					continue // only synchronous handlers cancel deterministically
				}
				for hooks := 0; hooks < 16; hooks++ {
					for variant := 0; variant < 3; variant++ { // 0 options, 1 setters, 2 options + observability + store
						idx++
						if !run.Mine(idx) {
							continue
						}
						p := &prog.Program{Types: []int{idx % len(h.Drivers)}}
						c := &p.Cfg
						c.BeforeLegacy, c.BeforeCtx, c.AfterLegacy, c.AfterCtx = hooks&1 != 0, hooks&2 != 0, hooks&4 != 0, hooks&8 != 0
						c.HooksSetter = variant == 1
						if variant == 2 {
							c.Obs, c.Store, c.StoreFirst = true, true, hooks&1 == 0
						}
						for i, k := range l {
							r := &prog.Reg{Class: i, Ctx: k.ctx, Async: k.async}
							if cancelPos == i+1 {
								r.CancelAt = 1
							}
							p.Ops = append(p.Ops, prog.Op{K: prog.Sub, T: 0, Reg: r})
						}
						pub := prog.Op{K: prog.Pub, T: 0, UseCtx: cancelPos != -1, PreCancelled: cancelPos == 0, Deadline: deadline}
						p.Ops = append(p.Ops, pub, pub) // twice: hooks once per publish, every publish
						h.Exec(idx, p, nil, after)
						sig := fmt.Sprintf("list%v|cancel%d|dl%v|hooks%d|v%d", l, cancelPos, deadline, hooks, variant)
						nontriv := (cancelPos >= 1 && cancelPos < len(l)) || (bitsSet(hooks) >= 2 && len(l) >= 1)
						run.Case(sig, nontriv)
						if idx == 5000 {
							run.Sample(map[string]any{"program": p})
						}
					}
				}
			}
		}
	}
	run.Count("enumerated_scenarios", int64(idx))
	run.Exhaustive(false)
	// (b) generated programs: longer lists, nested publishes from handlers, once/sequential/filter
	n := run.Scale(1500, 40000)
	pf := []prog.Profile{
		{MinTypes: 1, MaxTypes: 3, MinOps: 8, MaxOps: 30, Async: true, Scripts: true, Cancels: true, Hooks: true, PanicHandler: 1},
		{MinTypes: 1, MaxTypes: 2, MinOps: 8, MaxOps: 30, Async: true, Scripts: true, Cancels: true, Hooks: true, Obs: true, Store: true, Panics: true, PanicHandler: 1},
	}
	for i := 0; i < n; i++ {
		p := prog.Gen(run.Rand(uint64(i)), h.Drivers, pf[i%len(pf)])
		eng := h.Exec(1000000+i, p, nil, after)
		c := p.Cfg
		sig := fmt.Sprintf("gen|%v%v%v%v%v|%s", c.BeforeLegacy, c.BeforeCtx, c.AfterLegacy, c.AfterCtx, c.HooksSetter, eng.Signature())
		run.Case(sig, eng.Stats.Cancels > 0 || eng.Stats.NestedPubs > 0)
		if i < 2 && run.Shard == 0 {
			run.Sample(map[string]any{"program": p})
		}
	}
}

func bitsSet(x int) int {
	n := 0
	for ; x != 0; x &= x - 1 {
		n++
	}
	return n
}
