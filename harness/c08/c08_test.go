//go:build verif

// C08 — Cancellation, context propagation and publish hooks behave predictably.
package c08

import (
	"context"
	"fmt"
	"reflect"
	"runtime"
	"strings"
	"sync"
	"testing"
	"time"

	ebu "github.com/jilio/ebu"

	"verif/harness/internal/prog"
	"verif/harness/internal/vk"
)

func TestC08(t *testing.T) {
	run := vk.New("C08", "hooks-ctx")
	defer run.Finish()
	if run.Shard == 0 {
		emptyValuesAndClearedHooks(run)
	}
	h := prog.NewHarness(run, "ctx")
	defer h.Dog.Stop()
	after := func(eng *prog.Engine) {
		eng.CheckHooks()
		eng.CheckCtxPropagation()
		h.CountStats(eng)
	}
	if p := prog.ReplayProgram(); p != nil {
		h.Exec(0, p, nil, after)
		return
	}
	// (a) enumerated: handler lists of length 0..3 over kinds {sync, async} x {plain, ctx-aware},
	// cancellation point {never, before the call (cancel / deadline), by the k-th handler (cancel /
	// deadline)}, every subset of the four hooks, hooks by option or by setter, with/without obs+store
	type hk struct{ async, ctx bool }
	kinds := []hk{{false, false}, {false, true}, {true, false}, {true, true}}
	var lists [][]hk
	lists = append(lists, nil)
	for _, a := range kinds {
		lists = append(lists, []hk{a})
		for _, b := range kinds {
			lists = append(lists, []hk{a, b})
			for _, c := range kinds {
				lists = append(lists, []hk{a, b, c})
			}
		}
	}
	idx := 0
	for _, l := range lists {
		for cancelPos := -2; cancelPos <= len(l); cancelPos++ { // -2 never, -1 Publish (no ctx), 0 pre-cancelled, k>=1 by k-th handler
			for _, deadline := range []bool{false, true} {
				if deadline && cancelPos < 0 {
					continue
				}
				if cancelPos >= 1 && l[cancelPos-1].async {
					continue // only synchronous handlers cancel deterministically
				}
				for hooks := 0; hooks < 16; hooks++ {
					for variant := 0; variant < 3; variant++ { // 0 options, 1 setters, 2 options + observability + store
						idx++
						if !run.Mine(idx) {
							continue
						}
						p := &prog.Program{Types: []int{idx % len(h.Drivers)}}
						c := &p.Cfg
						c.BeforeLegacy, c.BeforeCtx, c.AfterLegacy, c.AfterCtx = hooks&1 != 0, hooks&2 != 0, hooks&4 != 0, hooks&8 != 0
						c.HooksSetter = variant == 1
						if variant == 2 {
							c.Obs, c.Store, c.StoreFirst = true, true, hooks&1 == 0
						}
						for i, k := range l {
							r := &prog.Reg{Class: i, Ctx: k.ctx, Async: k.async}
							if cancelPos == i+1 {
								r.CancelAt = 1
							}
							p.Ops = append(p.Ops, prog.Op{K: prog.Sub, T: 0, Reg: r})
						}
						pub := prog.Op{K: prog.Pub, T: 0, UseCtx: cancelPos != -1, PreCancelled: cancelPos == 0, Deadline: deadline}
						p.Ops = append(p.Ops, pub, pub) // twice: hooks once per publish, every publish
						h.Exec(idx, p, nil, after)
						sig := fmt.Sprintf("list%v|cancel%d|dl%v|hooks%d|v%d", l, cancelPos, deadline, hooks, variant)
						nontriv := (cancelPos >= 1 && cancelPos < len(l)) || (bitsSet(hooks) >= 2 && len(l) >= 1)
						run.Case(sig, nontriv)
						if idx == 5000 {
							run.Sample(map[string]any{"program": p})
						}
					}
				}
			}
		}
	}
	run.Count("enumerated_scenarios", int64(idx))
	run.Exhaustive(false)
	// (b) generated programs: longer lists, nested publishes from handlers, once/sequential/filter
	n := run.Scale(1500, 40000)
	pf := []prog.Profile{
		{MinTypes: 1, MaxTypes: 3, MinOps: 8, MaxOps: 30, Async: true, Scripts: true, Cancels: true, Hooks: true, PanicHandler: 1},
		{MinTypes: 1, MaxTypes: 2, MinOps: 8, MaxOps: 30, Async: true, Scripts: true, Cancels: true, Hooks: true, Obs: true, Store: true, Panics: true, PanicHandler: 1},
	}
	for i := 0; i < n; i++ {
		p := prog.Gen(run.Rand(uint64(i)), h.Drivers, pf[i%len(pf)])
		eng := h.Exec(1000000+i, p, nil, after)
		c := p.Cfg
		sig := fmt.Sprintf("gen|%v%v%v%v%v|%s", c.BeforeLegacy, c.BeforeCtx, c.AfterLegacy, c.AfterCtx, c.HooksSetter, eng.Signature())
		run.Case(sig, eng.Stats.Cancels > 0 || eng.Stats.NestedPubs > 0)
		if i < 2 && run.Shard == 0 {
			run.Sample(map[string]any{"program": p})
		}
	}
}

func bitsSet(x int) int {
	n := 0
	for ; x != 0; x &= x - 1 {
		n++
	}
	return n
}

// TestC08Concurrent: concurrent publishers on a bus with all four hooks: every publish still gets
// each hook exactly once, before hooks before its handlers, after hooks after its synchronous ones.
func TestC08Concurrent(t *testing.T) {
	run := vk.New("C08", "concurrent-hooks")
	defer run.Finish()
	type ev struct{ ID int }
	n := run.Scale(200, 6000)
	procs := []int{2, 4, 16, 1}
	defer runtime.GOMAXPROCS(runtime.GOMAXPROCS(0))
	for i := 0; i < n; i++ {
		rng := run.Rand(uint64(i))
		runtime.GOMAXPROCS(procs[i%len(procs)])
		var mu sync.Mutex
		var log []string // "kind:id" in stamp order
		rec := func(kind string, id int) {
			mu.Lock()
			log = append(log, fmt.Sprintf("%s:%d", kind, id))
			mu.Unlock()
		}
		noise := func(x int) {
			switch (x*7 + i) % 5 {
			case 0:
				runtime.Gosched()
			case 1:
				time.Sleep(time.Duration(1+(x*13+i)%40) * time.Microsecond)
			}
		}
		bus := ebu.New(
			ebu.WithBeforePublish(func(_ reflect.Type, e any) { rec("before", e.(ev).ID); noise(e.(ev).ID) }),
			ebu.WithBeforePublishContext(func(_ context.Context, _ reflect.Type, e any) { rec("beforectx", e.(ev).ID); noise(e.(ev).ID + 1) }),
			ebu.WithAfterPublish(func(_ reflect.Type, e any) { rec("after", e.(ev).ID); noise(e.(ev).ID + 2) }),
			ebu.WithAfterPublishContext(func(_ context.Context, _ reflect.Type, e any) { rec("afterctx", e.(ev).ID) }),
		)
		ebu.Subscribe(bus, func(e ev) { rec("h.enter", e.ID); noise(e.ID + 3); rec("h.exit", e.ID) })
		ebu.Subscribe(bus, func(e ev) { rec("a.enter", e.ID) }, ebu.Async())
		G := 2 + rng.IntN(6)
		E := 1 + rng.IntN(6)
		var wg sync.WaitGroup
		start := make(chan struct{})
		for g := 0; g < G; g++ {
			wg.Add(1)
			go func(g int) {
				defer wg.Done()
				<-start
				for k := 0; k < E; k++ {
					if k%2 == 0 {
						ebu.Publish(bus, ev{ID: g*100 + k})
					} else {
						ebu.PublishContext(bus, context.Background(), ev{ID: g*100 + k})
					}
				}
			}(g)
		}
		close(start)
		wg.Wait()
		bus.Wait()
		pos := map[string][]int{}
		for p, s := range log {
			pos[s] = append(pos[s], p)
		}
		overlap := false
		for g := 0; g < G; g++ {
			for k := 0; k < E; k++ {
				id := g*100 + k
				for _, kind := range []string{"before", "beforectx", "after", "afterctx", "h.enter", "h.exit", "a.enter"} {
					if c := len(pos[fmt.Sprintf("%s:%d", kind, id)]); c != 1 {
						run.Violation("hooks:concurrent-count:"+kind, fmt.Sprintf("with %d concurrent publishers, publish %d saw %s %d times (want exactly 1)", G, id, kind, c), map[string]any{"publishers": G, "events_each": E, "log": log})
						goto next
					}
				}
				p := func(kind string) int { return pos[fmt.Sprintf("%s:%d", kind, id)][0] }
				if !(p("before") < p("h.enter") && p("beforectx") < p("h.enter") && p("before") < p("a.enter") && p("after") > p("h.exit") && p("afterctx") > p("h.exit")) {
					run.Violation("hooks:concurrent-order", fmt.Sprintf("publish %d: hooks out of place relative to its handlers", id), map[string]any{"log": log})
					goto next
				}
				// another publish's hook between this publish's before hook and after hook
				for q := p("before") + 1; q < p("afterctx"); q++ {
					if strings.HasPrefix(log[q], "before:") {
						overlap = true
					}
				}
			}
		}
	next:
		run.Case(fmt.Sprintf("G%d E%d ov%v p%d", G, E, overlap, procs[i%len(procs)]), overlap)
		run.Count("hook_calls_checked", int64(len(log)))
		if i == 0 {
			run.Sample(map[string]any{"publishers": G, "events_each": E, "trace_head": log[:min(len(log), 20)]})
		}
	}
}
