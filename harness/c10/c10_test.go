//go:build verif

// C10 — Every bundled store behaves as one append-only, resumable log.
package c10

import (
	"context"
	"encoding/json"
	"fmt"
	"math"
	"math/rand/v2"
	"os"
	"slices"
	"strings"
	"sync"
	"sync/atomic"
	"testing"
	"time"

	ebu "github.com/jilio/ebu"

	"verif/harness/internal/faultsql"
	"verif/harness/internal/jgen"
	"verif/harness/internal/reflog"
	"verif/harness/internal/stores"
	"verif/harness/internal/vk"
)

type sut struct {
	o         *stores.Opened
	ref       *reflog.Ref
	fam       string // memory / sqlite / durable
	lastApp   ebu.Offset
	saved     map[string]ebu.Offset
	byteExact bool
	trace     []string
	strict    bool // durable only: no limit-truncating reads, no resumption from event offsets
	sibling   *stores.Opened
	tainted   bool // durable only: a read was truncated to its limit (recorded finding: its next offset skips events)
}

func family(kind string) string {
	switch {
	case strings.HasPrefix(kind, "sqlite"):
		return "sqlite"
	case strings.HasPrefix(kind, "durable"):
		return "durable"
	}
	return "memory"
}

type flags struct{ chain3, eventResume, nonUTC bool }

var (
	busyErr     error // a genuine SQLITE_BUSY error value
	busyStreams atomic.Int64
)

func TestC10(t *testing.T) {
	run := vk.New("C10", "lockstep")
	defer run.Finish()
	defer func() { run.Count("sqlite_streams_with_a_transient_busy_error", busyStreams.Load()) }()
	restoreOpener := faultsql.Install()
	defer restoreOpener()
	defer func() { run.Count("durable_appends_with_the_reply_lost_after_commit", lostAcks.Load()) }()
	defer func() { run.Count("appended_documents_of_1_to_3_MiB", bigDocs.Load()) }()
	defer func() { run.Count("streams_ranged_a_second_time_after_an_early_stop", rerangedStreams.Load()) }()
	defer func() { run.Count("offset_saves_by_the_consumer_of_an_open_stream", consumerWrites.Load()) }()
	defer func() {
		run.Count("appends_preceded_by_a_refused_payloadless_event_of_the_same_type", refusedFirst.Load())
	}()
	scratch := os.Getenv("VERIF_SCRATCH")
	if scratch == "" {
		scratch = t.TempDir()
	}
	os.MkdirAll(scratch, 0o755)
	if run.Shard == 0 {
		longLog(run, scratch)
	}
	if run.Shard == 1%run.Shards {
		overlappingAppends(run, scratch)
	}
	if be, err := faultsql.GenuineBusy(scratch); err == nil {
		busyErr = be
	}
	kinds := stores.Kinds()
	perKind := run.Scale(6, 150)
	ctx := context.Background()
	caseNo := 0
	for _, kind := range kinds {
		for c := 0; c < perKind; c++ {
			caseNo++
			rng := run.Rand(uint64(caseNo))
			fl := &flags{}
			var ss [2]*sut
			for i := range ss {
				o, err := stores.Open(kind, scratch)
				if err != nil {
					t.Fatalf("open %s: %v", kind, err)
				}
				ss[i] = &sut{o: o, ref: reflog.New(), fam: family(kind), saved: map[string]ebu.Offset{}, byteExact: family(kind) != "durable"}
				ss[i].strict = ss[i].fam == "durable" && c%2 == 0
				if o.Reopen != nil && c%3 != 0 {
					if sib, err := o.Reopen(); err == nil {
						ss[i].sibling = sib
					} else {
						t.Fatalf("reopen %s: %v", kind, err)
					}
				}
			}
			nOps := 30 + rng.IntN(120)
			if rng.IntN(6) == 0 {
				nOps = 300
			}
			viol := func(s *sut, rule string, origin reflog.Origin, desc string) {
				sig := fmt.Sprintf("%s:%s", s.fam, rule)
				if origin != "" {
					sig += ":from-" + string(origin)
				}
				if s.fam == "durable" {
					// the three recorded durable-streams findings, each with its own narrow signature
					switch {
					case strings.HasPrefix(rule, "event-offset") || strings.HasPrefix(rule, "stream-event-offset") || origin == reflog.FromEvent:
						sig = "durable:synthetic-event-offsets"
					case rule == "read-stops-at-server-chunk":
						sig = "durable:read-stops-at-server-chunk"
					case s.tainted && (rule == "read-mismatch" || rule == "next-offset-inconsistent" || rule == "chain-incomplete" || rule == "read-returns-fewer-than-requested" || rule == "read-error" || rule == "read-beyond-log"):
						sig = "durable:next-after-limit-truncation"
					}
				}
				tr := s.trace
				if len(tr) > 60 {
					tr = tr[len(tr)-60:]
				}
				run.Violation(sig, fmt.Sprintf("[%s] %s", kind, desc), map[string]any{"store": kind, "case": caseNo, "last_ops": tr})
			}
			for k := 0; k < nOps; k++ {
				s := ss[0]
				if rng.IntN(4) == 0 {
					s = ss[1]
				}
				x := rng.IntN(100)
				switch {
				case x < 40:
					doAppend(ctx, rng, s, viol, fl)
				case x < 75:
					doRead(ctx, rng, s, viol, fl)
				case x < 85:
					doStream(ctx, rng, s, viol)
				case x < 92:
					doSave(ctx, rng, s, viol)
				case x < 98:
					doLoad(ctx, rng, s, viol)
				case x < 99 || s.o.LostAckNext == nil:
					busReaders(ctx, s)
				default:
					lostAckAppend(ctx, rng, s, viol)
				}
			}
			busReaders(ctx, ss[0]) // at least once before the final chain of reads
			// final: the whole log by a chain of reads with varying limits, from the oldest offset
			for _, s := range ss {
				beyondEnd(ctx, kind, scratch, s, viol)
				chain(ctx, rng, s, viol, fl)
				if s.sibling != nil {
					s.sibling.Close()
				}
				s.o.Close()
				s.o.Remove()
			}
			nontriv := fl.chain3 || fl.eventResume || fl.nonUTC
			run.Case(fmt.Sprintf("%s|chain%v|ev%v|tz%v|n%d", kind, fl.chain3, fl.eventResume, fl.nonUTC, min(len(ss[0].ref.Events)/10, 12)), nontriv)
			run.SetAdd("store_kinds", kind)
			run.Count("events_appended", int64(len(ss[0].ref.Events)+len(ss[1].ref.Events)))
			run.Max("max_log_length", int64(len(ss[0].ref.Events)))
			if c == 0 && run.Shard == 0 && run.WantSample() {
				tr := ss[0].trace
				if len(tr) > 25 {
					tr = tr[:25]
				}
				run.Sample(map[string]any{"store": kind, "first_ops": tr})
			}
		}
	}
}

// longLog: a log longer than any round number a store might think of as "a lot" (10 300 events):
// Read with no limit, a negative limit or a limit above the length returns everything that follows
// the offset, and the stream does too.
func longLog(run *vk.Run, scratch string) {
	const n = 10300
	ctx := context.Background()
	for _, kind := range []string{"memory", "sqlite-mem", "sqlite-file"} {
		st, err := stores.Open(kind, scratch)
		if err != nil {
			panic(err)
		}
		offs := make([]ebu.Offset, 0, n)
		for i := 1; i <= n; i++ {
			off, err := st.Store.Append(ctx, &ebu.Event{Type: "c10.long", Data: json.RawMessage(fmt.Sprintf(`{"n":%d}`, i)), Timestamp: time.Unix(int64(i), 0)})
			if err != nil {
				panic(err)
			}
			offs = append(offs, off)
		}
		for _, q := range []struct {
			after, limit int
		}{{0, 0}, {0, -1}, {0, 20000}, {100, 0}, {0, n + 1}, {250, -7}, {0, 10001}} {
			from := ebu.OffsetOldest
			if q.after > 0 {
				from = offs[q.after-1]
			}
			evs, _, err := st.Store.Read(ctx, from, q.limit)
			want := n - q.after
			if q.limit > 0 && q.limit < want {
				want = q.limit
			}
			run.Case(fmt.Sprintf("long-log|%s|after%d|limit%d", kind, q.after, q.limit), true)
			ok := err == nil && len(evs) == want
			if ok && want > 0 {
				ok = string(evs[0].Data) == fmt.Sprintf(`{"n":%d}`, q.after+1) && string(evs[want-1].Data) == fmt.Sprintf(`{"n":%d}`, q.after+want)
			}
			if !ok {
				run.Violation(strings.SplitN(kind, "-", 2)[0]+":long-log-read", fmt.Sprintf("%s store holding %d events: Read(after event %d, limit %d) returned %d events (err %v), %d follow that offset within the limit", kind, n, q.after, q.limit, len(evs), err, want), map[string]any{"store": kind, "after": q.after, "limit": q.limit})
			}
		}
		if sr, ok := st.Store.(ebu.EventStoreStreamer); ok {
			c := 0
			for _, err := range sr.ReadStream(ctx, offs[99]) {
				if err != nil {
					break
				}
				c++
			}
			if c != n-100 {
				run.Violation(strings.SplitN(kind, "-", 2)[0]+":long-log-stream", fmt.Sprintf("%s store holding %d events: ReadStream(after event 100) yielded %d events", kind, n, c), nil)
			}
		}
		st.Close()
		st.Remove()
	}
}

// overlappingAppends: several goroutines append to one store at the same time (the calls overlap;
// nothing else is asserted about their order): every Append is answered with an offset of its own,
// and that offset is the one the log holds that very event under.
func overlappingAppends(run *vk.Run, scratch string) {
	ctx := context.Background()
	for _, kind := range []string{"memory", "sqlite-mem", "sqlite-file", "sqlite-batch2", "durable"} {
		for round := 0; round < 3; round++ {
			st, err := stores.Open(kind, scratch)
			if err != nil {
				panic(err)
			}
			const G, per = 8, 25
			got := make([][]ebu.Offset, G)
			var wg sync.WaitGroup
			start := make(chan struct{})
			var failed atomic.Value
			for g := 0; g < G; g++ {
				wg.Add(1)
				go func(g int) {
					defer wg.Done()
					<-start
					for k := 0; k < per; k++ {
						off, err := st.Store.Append(ctx, &ebu.Event{Type: "c10.overlap", Data: json.RawMessage(fmt.Sprintf(`{"g":%d,"k":%d}`, g, k)), Timestamp: time.Unix(1, 0)})
						if err != nil {
							failed.Store(fmt.Sprintf("Append by goroutine %d failed: %v", g, err))
							return
						}
						got[g] = append(got[g], off)
					}
				}(g)
			}
			// next to them a caller whose context has already ended (and, on the SQLite kinds, one that
			// hands in an event without a payload): whatever the store answers them, it has nothing to
			// do with the appends of the others
			wg.Add(1)
			go func() {
				defer wg.Done()
				dead, cancel := context.WithCancel(ctx)
				cancel()
				<-start
				for k := 0; k < per; k++ {
					st.Store.Append(dead, &ebu.Event{Type: "c10.overlap", Data: json.RawMessage(`{"g":-1}`), Timestamp: time.Unix(1, 0)})
					if strings.HasPrefix(kind, "sqlite") && k%5 == 0 {
						st.Store.Append(ctx, &ebu.Event{Type: "c10.overlap", Data: nil, Timestamp: time.Unix(1, 0)})
					}
				}
			}()
			close(start)
			wg.Wait()
			evs, _, rerr := st.Store.Read(ctx, ebu.OffsetOldest, 0)
			at := map[ebu.Offset]string{}
			for _, e := range evs {
				at[e.Offset] = string(e.Data)
			}
			bad := ""
			if f, _ := failed.Load().(string); f != "" {
				bad = f
			}
			seen := map[ebu.Offset]string{}
			for g := 0; g < G && bad == ""; g++ {
				for k, off := range got[g] {
					me := fmt.Sprintf(`{"g":%d,"k":%d}`, g, k)
					if other, dup := seen[off]; dup {
						bad = fmt.Sprintf("offset %q was returned for %s and for %s", off, other, me)
						break
					}
					seen[off] = me
					if kind == "durable" {
						continue // (events read back from durable-streams carry synthetic offsets: recorded finding; uniqueness and the count are checked)
					}
					if at[off] != me {
						bad = fmt.Sprintf("Append of %s returned offset %q, under which the log holds %s", me, off, at[off])
						break
					}
				}
			}
			mine := 0
			for _, e := range evs {
				if !strings.Contains(string(e.Data), `"g":-1`) && len(e.Data) > 0 && string(e.Data) != "null" {
					mine++
				}
			}
			if bad == "" && (rerr != nil || mine != G*per) {
				bad = fmt.Sprintf("the log holds %d of the %d events whose appends were acknowledged (err %v)", mine, G*per, rerr)
			}
			run.Case(fmt.Sprintf("overlapping-appends|%s|%d", kind, round), true)
			if bad != "" {
				run.Violation(strings.SplitN(kind, "-", 2)[0]+":append-offset-not-the-events-own", fmt.Sprintf("%s store, %d goroutines appending %d events each at the same time: %s", kind, G, per, bad), map[string]any{"store": kind})
			}
			st.Close()
			st.Remove()
		}
	}
}

// busReaders reads the store the way a bus does — a plain replay and an upcasting replay with a raw
// upcaster registered for every stored type. Reading is not an operation of the log: every later
// Read / ReadStream is still compared with the reference log.
func busReaders(ctx context.Context, s *sut) {
	bus := ebu.New(ebu.WithStore(s.o.Store), ebu.WithUpcastErrorHandler(func(string, json.RawMessage, error) {}))
	seen := map[string]bool{}
	for _, e := range s.ref.Events {
		if e.Type == "" || seen[e.Type] {
			continue
		}
		seen[e.Type] = true
		to := e.Type + "\x00upcast"
		ebu.RegisterUpcastFunc(bus, e.Type, to, func(json.RawMessage) (json.RawMessage, string, error) {
			return json.RawMessage(`{"rewritten":true}`), to, nil
		})
	}
	bus.Replay(ctx, ebu.OffsetOldest, func(*ebu.StoredEvent) error { return nil })
	bus.ReplayWithUpcast(ctx, ebu.OffsetOldest, func(*ebu.StoredEvent) error { return nil })
	s.trace = append(s.trace, "bus.Replay + bus.ReplayWithUpcast over the store")
}

type violFn func(s *sut, rule string, origin reflog.Origin, desc string)

func doAppend(ctx context.Context, rng *rand.Rand, s *sut, viol violFn, fl *flags) {
	e := reflog.Ev{Type: jgen.TypeString(rng), Data: jgen.Doc(rng, true), Time: jgen.Timestamp(rng)}
	if e.Time.Location().String() != "UTC" && !e.Time.IsZero() {
		fl.nonUTC = true
	}
	if rng.IntN(400) == 0 {
		// a document of 1-3 MiB: above the usual buffer, body and packet sizes
		e.Data = json.RawMessage(`{"blob":"` + strings.Repeat("0123456789abcdef", (1<<16)+rng.IntN(1<<17)) + `","tail":[1,2,3]}`)
		bigDocs.Add(1)
	}
	w := s.o.Store
	if s.sibling != nil && rng.IntN(3) == 0 {
		w = s.sibling.Store // another store object on the same durable state
	}
	// every other append runs under its own context, which ends as soon as the call has returned
	// (a request-scoped context): later appends must not depend on it
	actx, acancel := ctx, context.CancelFunc(func() {})
	if rng.IntN(2) == 0 {
		actx, acancel = context.WithCancel(ctx)
	}
	if s.fam == "sqlite" && rng.IntN(6) == 0 {
		// an invalid event (no payload) of this very type is refused first - by this handle or by the
		// other one; that leaves nothing behind, in the log or anywhere else
		if off, err := w.Append(actx, &ebu.Event{Type: e.Type, Data: nil, Timestamp: e.Time}); err == nil {
			viol(s, "append-accepted-event-without-payload", "", fmt.Sprintf("Append of an event without a payload (type %q) returned %q", clip(e.Type), off))
			acancel()
			return
		}
		refusedFirst.Add(1)
	}
	off, err := w.Append(actx, &ebu.Event{Type: e.Type, Data: e.Data, Timestamp: e.Time})
	acancel()
	s.trace = append(s.trace, fmt.Sprintf("Append(type=%q data=%.40q ts=%s) -> %q err=%v", clip(e.Type), string(e.Data), e.Time.Format("2006-01-02T15:04:05.999999999Z07:00:00 MST"), off, err))
	if err != nil {
		viol(s, "append-rejected-valid-event", "", fmt.Sprintf("Append of a valid event failed: %v", err))
		return
	}
	p := s.ref.Append(e)
	if off == "" {
		viol(s, "append-empty-offset", "", "Append returned the empty offset")
		return
	}
	if s.lastApp != "" && !(off > s.lastApp) {
		shape := ""
		if len(off) != len(s.lastApp) {
			shape = "-shorter-decimal-before-longer"
		}
		viol(s, "append-offsets-not-lexicographically-increasing"+shape, "", fmt.Sprintf("Append returned offset %q after %q: not greater under the documented lexicographic comparison", off, s.lastApp))
	}
	if off == s.lastApp {
		viol(s, "append-offset-not-unique", "", fmt.Sprintf("two appends returned offset %q", off))
	}
	s.lastApp = off
	if c, old := s.ref.Learn(off, p, reflog.FromAppend); c {
		viol(s, "append-offset-reused", "", fmt.Sprintf("Append returned %q which already denoted position %d (now %d)", off, old, p))
	}
}

// lostAckAppend (durable-streams): the server commits the append, the reply is lost (503). Whatever
// the client makes of that, the event is in the log exactly once: every later read is compared with
// a reference log that contains it once.
var lostAcks, bigDocs, rerangedStreams, consumerWrites, refusedFirst atomic.Int64

func lostAckAppend(ctx context.Context, rng *rand.Rand, s *sut, viol violFn) {
	e := reflog.Ev{Type: jgen.TypeString(rng), Data: jgen.Doc(rng, true), Time: jgen.Timestamp(rng)}
	s.o.LostAckNext(1)
	off, err := s.o.Store.Append(ctx, &ebu.Event{Type: e.Type, Data: e.Data, Timestamp: e.Time})
	s.o.LostAckNext(0)
	s.trace = append(s.trace, fmt.Sprintf("Append(type=%q data=%.40q) with the reply lost after the commit -> %q err=%v", clip(e.Type), string(e.Data), off, err))
	p := s.ref.Append(e)
	lostAcks.Add(1)
	if err == nil && off != "" {
		s.lastApp = off
		s.ref.Learn(off, p, reflog.FromAppend)
	}
}

func clip(s string) string {
	if len(s) > 30 {
		return s[:30] + "..."
	}
	return s
}

func pick(rng *rand.Rand, s *sut) ebu.Offset {
	k := s.ref.Known
	if s.strict {
		var kk []ebu.Offset
		for _, o := range k {
			if og := s.ref.OriginOf(o); og != reflog.FromEvent && og != reflog.FromNextTrunc {
				kk = append(kk, o)
			}
		}
		k = kk
	}
	// bias towards recent offsets and the oldest
	switch rng.IntN(4) {
	case 0:
		return ebu.OffsetOldest
	case 1:
		return k[len(k)-1-rng.IntN(min(len(k), 4))]
	}
	return k[rng.IntN(len(k))]
}

var limits = []int{-1, 0, 1, 2, 3, 7, 1000, math.MaxInt}

func pickLimit(rng *rand.Rand, s *sut) int {
	if s.strict {
		return []int{-1, 0, 100000}[rng.IntN(3)]
	}
	return limits[rng.IntN(len(limits))]
}

// readCheck performs Read(from, limit) and compares with the reference. Returns next and ok.
func readCheck(ctx context.Context, s *sut, from ebu.Offset, limit int, viol violFn, fl *flags) (ebu.Offset, int, bool) {
	pos, _ := s.ref.Pos(from)
	origin := s.ref.OriginOf(from)
	evs, next, err := s.o.Store.Read(ctx, from, limit)
	// the page belongs to the caller: once it has been looked at it is reordered and emptied in
	// place (the events it points to are left alone); the log must not notice
	defer func() {
		slices.Reverse(evs)
		for i := 0; i < len(evs); i += 2 {
			evs[i] = nil
		}
	}()
	s.trace = append(s.trace, fmt.Sprintf("Read(%q[%s pos %d], %d) -> %d events next=%q err=%v", from, origin, pos, limit, len(evs), next, err))
	if origin == reflog.FromEvent {
		fl.eventResume = true
	}
	if err != nil {
		viol(s, "read-error", origin, fmt.Sprintf("Read(%q, %d) failed: %v", from, limit, err))
		if origin == reflog.FromEvent || origin == reflog.FromNextTrunc {
			s.ref.Forget(from)
		}
		return "", 0, false
	}
	remaining := len(s.ref.Events) - pos
	want := remaining
	if limit > 0 && limit < want {
		want = limit
	}
	// content: a gap-free, repeat-free prefix of the reference suffix
	for i, e := range evs {
		if i >= remaining {
			viol(s, "read-beyond-log", origin, fmt.Sprintf("Read(%q, %d) returned %d events, only %d follow that offset", from, limit, len(evs), remaining))
			return "", 0, false
		}
		if m := s.ref.Match(pos+i, e, s.byteExact); m != "" {
			viol(s, "read-mismatch", origin, fmt.Sprintf("Read(%q, %d): event %d of the result is not event %d of the log: %s", from, limit, i, pos+i, m))
			if origin == reflog.FromEvent || origin == reflog.FromNextTrunc {
				s.ref.Forget(from)
			}
			return "", 0, false
		}
	}
	if len(evs) > want {
		viol(s, "read-exceeds-limit", origin, fmt.Sprintf("Read(%q, %d) returned %d events", from, limit, len(evs)))
		return "", 0, false
	}
	if len(evs) < want {
		rule := "read-returns-fewer-than-requested"
		if s.fam == "durable" && len(evs) > 0 {
			rule = "read-stops-at-server-chunk"
		}
		viol(s, rule, origin, fmt.Sprintf("Read(%q, %d) returned %d events although %d follow that offset (want %d)", from, limit, len(evs), remaining, want))
		if len(evs) == 0 && (origin == reflog.FromEvent || origin == reflog.FromNextTrunc) {
			s.ref.Forget(from)
			return "", 0, false
		}
	}
	// offsets of the returned events
	for i, e := range evs {
		if c, old := s.ref.Learn(e.Offset, pos+i+1, reflog.FromEvent); c {
			viol(s, "event-offset-inconsistent", origin, fmt.Sprintf("event %d carries offset %q which denoted position %d before", pos+i, e.Offset, old))
		}
	}
	np := pos + len(evs)
	o := reflog.FromNextFull
	if limit > 0 && len(evs) == limit && np < len(s.ref.Events) {
		o = reflog.FromNextTrunc
		s.tainted = true
	}
	if c, old := s.ref.Learn(next, np, o); c {
		// the same offset value was seen for another position: reading from it cannot be right for both
		viol(s, "next-offset-inconsistent", s.ref.OriginOf(next), fmt.Sprintf("Read(%q, %d) returned %d events and next=%q, but %q denotes position %d (expected %d): resuming from it would skip or repeat events", from, limit, len(evs), next, next, old, np))
	}
	return next, len(evs), true
}

func doRead(ctx context.Context, rng *rand.Rand, s *sut, viol violFn, fl *flags) {
	from := pick(rng, s)
	limit := pickLimit(rng, s)
	next, n, ok := readCheck(ctx, s, from, limit, viol, fl)
	// follow the chain for a few steps
	steps := 0
	lims := map[int]bool{limit: true}
	for ok && n > 0 && rng.IntN(3) != 0 && steps < 6 {
		if _, known := s.ref.Pos(next); !known {
			break
		}
		limit = pickLimit(rng, s)
		lims[limit] = true
		next, n, ok = readCheck(ctx, s, next, limit, viol, fl)
		steps++
	}
	if steps >= 2 && len(lims) >= 2 {
		fl.chain3 = true
	}
}

func chain(ctx context.Context, rng *rand.Rand, s *sut, viol violFn, fl *flags) {
	from := ebu.OffsetOldest
	got := 0
	for step := 0; step < 10000; step++ {
		limit := pickLimit(rng, s)
		next, n, ok := readCheck(ctx, s, from, limit, viol, fl)
		if !ok {
			return
		}
		got += n
		if n == 0 {
			break
		}
		if _, known := s.ref.Pos(next); !known {
			return
		}
		from = next
	}
	if got != len(s.ref.Events) {
		viol(s, "chain-incomplete", "", fmt.Sprintf("a chain of reads from the oldest offset ended after %d of %d events", got, len(s.ref.Events)))
	}
}

func doStream(ctx context.Context, rng *rand.Rand, s *sut, viol violFn) {
	st, ok := s.o.Store.(ebu.EventStoreStreamer)
	if !ok {
		return
	}
	from := pick(rng, s)
	pos, _ := s.ref.Pos(from)
	origin := s.ref.OriginOf(from)
	// every eighth stream of a SQLite store meets one transient SQLITE_BUSY in its row iteration (a
	// writer held the lock for longer than the busy timeout): the stream may end with that error or
	// recover, but what it yields is still the log - in order, nothing twice
	busy := s.fam == "sqlite" && busyErr != nil && len(s.ref.Events)-pos > 0 && rng.IntN(8) == 0
	if busy {
		faultsql.Set(faultsql.Plan{Match: "FROM events", QueryN: 0, FailRow: 1 + rng.IntN(len(s.ref.Events)-pos), Err: busyErr})
		defer faultsql.Set(faultsql.Plan{})
		busyStreams.Add(1)
	}
	// a consumer may keep what the stream yields: collect first, compare afterwards
	var collected []*ebu.StoredEvent
	endedWithBusy := false
	stream := st.ReadStream(ctx, from)
	if !busy && rng.IntN(3) == 0 {
		// a first pass over the same stream value that looks at a few elements and stops (a consumer
		// counting, peeking or giving up): the pass that follows is still the whole sequence
		stop := rng.IntN(4)
		n := 0
		for range stream {
			if n++; n > stop {
				break
			}
		}
		rerangedStreams.Add(1)
	}
	wrote := 0
	for e, err := range stream {
		if err == nil && !busy && s.o.Sub != nil && wrote < 2 {
			// the consumer records how far it has got while the stream is still open (what a replaying
			// subscription does for every event): the store takes that write
			wrote++
			if werr := s.o.Sub.SaveOffset(ctx, "stream-consumer", e.Offset); werr != nil {
				viol(s, "write-refused-while-streaming", origin, fmt.Sprintf("SaveOffset called by the consumer of ReadStream(%q) while the stream was open failed: %v", from, werr))
				return
			}
			consumerWrites.Add(1)
		}
		if err != nil {
			if busy && strings.Contains(err.Error(), "SQLITE_BUSY") {
				endedWithBusy = true
				break
			}
			viol(s, "stream-error", origin, fmt.Sprintf("ReadStream(%q) yielded error %v", from, err))
			return
		}
		collected = append(collected, e)
	}
	i := 0
	for _, e := range collected {
		if m := s.ref.Match(pos+i, e, s.byteExact); m != "" {
			viol(s, "stream-mismatch", origin, fmt.Sprintf("ReadStream(%q): element %d (kept by the consumer until the stream ended) is not event %d of the log: %s", from, i, pos+i, m))
			return
		}
		if c, old := s.ref.Learn(e.Offset, pos+i+1, reflog.FromEvent); c {
			viol(s, "stream-event-offset-inconsistent", origin, fmt.Sprintf("streamed event %d carries offset %q which denoted position %d", pos+i, e.Offset, old))
		}
		i++
	}
	s.trace = append(s.trace, fmt.Sprintf("ReadStream(%q[pos %d]) -> %d events", from, pos, i))
	if endedWithBusy {
		return // a reported error after a correct prefix
	}
	if pos+i != len(s.ref.Events) {
		viol(s, "stream-incomplete", origin, fmt.Sprintf("ReadStream(%q) ended after %d of the %d events that follow", from, i, len(s.ref.Events)-pos))
	}
}

func doSave(ctx context.Context, rng *rand.Rand, s *sut, viol violFn) {
	if s.o.Sub == nil {
		return
	}
	k := s.ref.Known
	if len(k) < 2 {
		return
	}
	off := k[1+rng.IntN(len(k)-1)] // store-issued offsets only
	id := fmt.Sprintf("sub-%d%s", rng.IntN(4), []string{"", "/x", " é", "'q"}[rng.IntN(4)])
	err := s.o.Sub.SaveOffset(ctx, id, off)
	s.trace = append(s.trace, fmt.Sprintf("SaveOffset(%q, %q) err=%v", id, off, err))
	if err != nil {
		viol(s, "saveoffset-error", s.ref.OriginOf(off), fmt.Sprintf("SaveOffset(%q, %q) failed: %v", id, off, err))
		return
	}
	s.saved[id] = off
}

func doLoad(ctx context.Context, rng *rand.Rand, s *sut, viol violFn) {
	if s.o.Sub == nil {
		return
	}
	id := fmt.Sprintf("sub-%d%s", rng.IntN(5), []string{"", "/x", " é", "'q"}[rng.IntN(4)])
	got, err := s.o.Sub.LoadOffset(ctx, id)
	s.trace = append(s.trace, fmt.Sprintf("LoadOffset(%q) -> %q err=%v", id, got, err))
	if err != nil {
		viol(s, "loadoffset-error", "", fmt.Sprintf("LoadOffset(%q) failed: %v", id, err))
		return
	}
	want, ok := s.saved[id]
	if !ok {
		want = ebu.OffsetOldest
	}
	if got != want {
		viol(s, "loadoffset-mismatch", "", fmt.Sprintf("LoadOffset(%q) = %q, last saved %q", id, got, want))
	}
}

// beyondEnd: an offset that lies beyond the newest event (a position saved against a longer log of
// the same kind of store) has no events after it.
func beyondEnd(ctx context.Context, kind, scratch string, s *sut, viol violFn) {
	if s.fam == "durable" {
		return // the server rejects offsets it never issued
	}
	longer, err := stores.Open(kind, scratch)
	if err != nil {
		return
	}
	defer func() { longer.Close(); longer.Remove() }()
	var off ebu.Offset
	for i := 0; i < len(s.ref.Events)+3; i++ {
		off, _ = longer.Store.Append(ctx, &ebu.Event{Type: "x", Data: []byte(`1`)})
	}
	evs, _, err := s.o.Store.Read(ctx, off, 0)
	if err != nil || len(evs) != 0 {
		viol(s, "read-beyond-end", "", fmt.Sprintf("Read(%q, 0) from an offset beyond the newest event (log length %d) returned %d events, err %v", off, len(s.ref.Events), len(evs), err))
	}
	if st, ok := s.o.Store.(ebu.EventStoreStreamer); ok {
		n := 0
		for range st.ReadStream(ctx, off) {
			n++
		}
		if n != 0 {
			viol(s, "stream-beyond-end", "", fmt.Sprintf("ReadStream(%q) from an offset beyond the newest event yielded %d elements", off, n))
		}
	}
}
