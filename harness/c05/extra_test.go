//go:build verif

package c05

import (
	"context"
	"fmt"
	"os"
	"reflect"
	"runtime"
	"sync/atomic"
	"testing"
	"time"

	ebu "github.com/jilio/ebu"

	"verif/harness/internal/stores"
	"verif/harness/internal/vk"
	"verif/harness/internal/watchdog"
)

type burstEv struct{ ID int }

// TestC05ManyPanics: many asynchronous handlers panic for one event while the panic handler is slow
// (it parks until the harness has seen how many of its calls have begun, or gives up waiting): the
// panic handler is still called exactly once per panicking invocation, with the event and the
// panic value, however many of its calls are in progress at once.
func TestC05ManyPanics(t *testing.T) {
	run := vk.New("C05", "many-panics")
	defer run.Finish()
	idx := 0
	for _, n := range []int{3, 17, 40, 130, 600} {
		for _, events := range []int{1, 3} {
			idx++
			if !run.Mine(idx) {
				continue
			}
			var calls, entered atomic.Int32
			var bad atomic.Value
			gate := make(chan struct{})
			bus := ebu.New(ebu.WithPanicHandler(func(ev any, _ reflect.Type, val any) {
				entered.Add(1)
				<-gate
				e, ok := ev.(burstEv)
				if s, isStr := val.(string); !ok || !isStr || s != fmt.Sprintf("c05: boom %d", e.ID) {
					bad.Store(fmt.Sprintf("panic handler got event %+v and value %v", ev, val))
				}
				calls.Add(1)
			}))
			for j := 0; j < n; j++ {
				ebu.Subscribe(bus, func(e burstEv) { panic(fmt.Sprintf("c05: boom %d", e.ID)) }, ebu.Async())
			}
			var okRuns atomic.Int32
			ebu.Subscribe(bus, func(burstEv) { okRuns.Add(1) }, ebu.Async())
			for e := 0; e < events; e++ {
				ebu.Publish(bus, burstEv{ID: e})
			}
			// let as many panic-handler calls as possible be in progress at once (stimulus only: the
			// verdict below does not depend on how many made it)
			for spins := 0; spins < 4000 && int(entered.Load()) < n*events; spins++ {
				time.Sleep(500 * time.Microsecond)
			}
			run.Max("max_panic_handler_calls_in_progress_at_once", int64(entered.Load()))
			close(gate)
			bus.Wait()
			if got, want := int(calls.Load()), n*events; got != want {
				run.Violation("panic:handler-calls-under-load", fmt.Sprintf("%d async handlers panicked for each of %d events while the panic handler was slow: it was called %d times, want %d (once per panicking invocation)", n, events, got, want), map[string]any{"handlers": n, "events": events, "calls": got})
			}
			if b := bad.Load(); b != nil {
				run.Violation("panic:handler-args-under-load", b.(string), nil)
			}
			if int(okRuns.Load()) != events {
				run.Violation("panic:other-handler-missed", fmt.Sprintf("the non-panicking handler ran %d times for %d events", okRuns.Load(), events), nil)
			}
			run.Case(fmt.Sprintf("n%d e%d", n, events), n > 1)
			run.Count("panicking_invocations", int64(n*events))
		}
	}
	run.Exhaustive(true)
}

type rpEv struct{ ID int }

// TestC05ReplayInsideHandler: a handler runs bus.Replay over the bus's own store and the replay
// callback panics. The panic is the handler's: contained, reported once — and the bus and the store
// stay usable: the next publishes are recorded and delivered, a later replay sees the whole log.
func TestC05ReplayInsideHandler(t *testing.T) {
	run := vk.New("C05", "replay-inside-handler")
	defer run.Finish()
	scratch := os.Getenv("VERIF_SCRATCH")
	if scratch == "" {
		scratch = t.TempDir()
	}
	var cur string
	dog := watchdog.Start(20*time.Second, func(v watchdog.Verdict) {
		if !v.Deadlock {
			run.Count("watchdog_slow_windows", 1)
			return
		}
		run.Violation("panic:deadlock-after-replay-panic", "after a panic inside a replay callback run from a handler, the next operation on the bus never returned: "+cur, map[string]any{"case": cur, "dump": v.Dump[:min(len(v.Dump), 20000)]})
		run.Finish()
		watchdog.Exit()
	})
	defer dog.Stop()
	idx := 0
	for _, kind := range []string{"memory", "memory-paged", "sqlite-mem", "sqlite-file", "sqlite-batch2", "durable"} {
		for _, opt := range []string{"-", "async", "sequential", "once"} {
			for _, panicAt := range []int{1, 2, 3} {
				idx++
				if !run.Mine(idx) {
					continue
				}
				cur = fmt.Sprintf("%s|%s|panic at replayed event %d", kind, opt, panicAt)
				dog.Case(cur)
				dog.Tick()
				st, err := stores.Open(kind, scratch)
				if err != nil {
					t.Fatal(err)
				}
				var phCalls atomic.Int32
				bus := ebu.New(ebu.WithStore(st.Store), ebu.WithSubscriptionStore(ebu.NewMemoryStore()), ebu.WithPanicHandler(func(any, reflect.Type, any) { phCalls.Add(1) }))
				for k := 1; k <= 3; k++ {
					ebu.Publish(bus, rpEv{ID: k})
				}
				var so []ebu.SubscribeOption
				switch opt {
				case "async":
					so = append(so, ebu.Async())
				case "sequential":
					so = append(so, ebu.Sequential())
				case "once":
					so = append(so, ebu.Once())
				}
				var armed atomic.Bool
				armed.Store(true)
				var plain atomic.Int32
				ebu.Subscribe(bus, func(rpEv) {
					if !armed.CompareAndSwap(true, false) {
						return
					}
					n := 0
					bus.Replay(context.Background(), ebu.OffsetOldest, func(*ebu.StoredEvent) error {
						n++
						if n == panicAt {
							panic("c05: replay callback panics")
						}
						return nil
					})
				}, so...)
				ebu.Subscribe(bus, func(rpEv) { plain.Add(1) })
				ebu.Publish(bus, rpEv{ID: 4}) // the handler replays and panics
				bus.Wait()
				dog.Tick()
				ebu.Publish(bus, rpEv{ID: 5})
				ebu.Publish(bus, rpEv{ID: 6})
				bus.Wait()
				dog.Tick()
				seen := 0
				rerr := bus.Replay(context.Background(), ebu.OffsetOldest, func(*ebu.StoredEvent) error { seen++; return nil })
				dog.Tick()
				witness := map[string]any{"store": kind, "option": opt, "panic_at": panicAt}
				if phCalls.Load() != 1 {
					run.Violation("panic:handler-calls", fmt.Sprintf("[%s] panic handler called %d times for one panicking invocation", cur, phCalls.Load()), witness)
				}
				if plain.Load() != 3 {
					run.Violation("panic:other-handler-missed", fmt.Sprintf("[%s] the other handler ran %d times for 3 publishes", cur, plain.Load()), witness)
				}
				if rerr != nil || seen != 6 {
					run.Violation("panic:store-unusable-after-replay-panic", fmt.Sprintf("[%s] after the panic, a replay of the log returned %v after %d of 6 events", cur, rerr, seen), witness)
				}
				// a resumable subscription whose handler panics on a replayed event: whether the panic
				// reaches the caller of SubscribeWithReplay or not, the caller carries on and attaches the
				// same subscription id again with a handler that works - the bus lets it
				func() {
					defer func() { _ = recover() }()
					ebu.SubscribeWithReplay(context.Background(), bus, "c05-retried", func(e rpEv) {
						if e.ID == panicAt {
							panic("c05: handler panics on a replayed event")
						}
					}, so...)
				}()
				dog.Tick()
				var sawLive atomic.Bool
				serr := ebu.SubscribeWithReplay(context.Background(), bus, "c05-retried", func(e rpEv) {
					if e.ID == 7 {
						sawLive.Store(true)
					}
				})
				ebu.Publish(bus, rpEv{ID: 7})
				bus.Wait()
				dog.Tick()
				if serr != nil || !sawLive.Load() {
					run.Violation("panic:subscription-id-unusable-after-replay-panic", fmt.Sprintf("[%s] after a handler panicked on a replayed event inside SubscribeWithReplay, attaching the same subscription id again returned %v; the next published event reached the new handler: %v", cur, serr, sawLive.Load()), witness)
				}
				run.Case(cur, true)
				st.Close()
				st.Remove()
				runtime.Gosched()
			}
		}
	}
	run.Exhaustive(true)
}
