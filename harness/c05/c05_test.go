//go:build verif

// C05 — A panicking handler never harms the publisher or the other handlers.
package c05

import (
	"fmt"
	ebu "github.com/jilio/ebu"
	ebuotel "github.com/jilio/ebu/otel"
	"testing"

	"verif/harness/internal/prog"
	"verif/harness/internal/vk"
)

func sigOf(p *prog.Program) (string, bool) {
	s := ""
	panicking, normal, opt := false, false, false
	for _, op := range p.Ops {
		if op.K != prog.Sub {
			continue
		}
		r := op.Reg
		s += fmt.Sprintf("[c%v a%v o%v s%v f%d p%d m%d r%v]", r.Ctx, r.Async, r.Once, r.Seq, r.Filter, r.PanicKind, r.PanicMod, r.Replay)
		if r.PanicKind != 0 {
			panicking = true
			if r.Seq || r.Once || r.Async {
				opt = true
			}
		} else {
			normal = true
		}
	}
	return fmt.Sprintf("ph%v|%s", p.Cfg.PanicHandler, s), panicking && normal && opt
}

func TestC05(t *testing.T) {
	run := vk.New("C05", "panics")
	defer run.Finish()
	h := prog.NewHarness(run, "panic")
	defer h.Dog.Stop()
	after := func(eng *prog.Engine) {
		eng.CheckPanics()
		h.CountStats(eng)
	}
	if p := prog.ReplayProgram(); p != nil {
		h.Exec(0, p, nil, after)
		return
	}
	// (a) exhaustive arrangements of one and two handlers, each published three times (event ids
	// 1..3 so that id-dependent filters and panics vary), with and without a panic handler
	var kinds []prog.Reg
	for _, ctx := range []bool{false, true} {
		for _, async := range []bool{false, true} {
			for opt := 0; opt < 4; opt++ {
				for pk := 0; pk <= 8; pk++ {
					r := prog.Reg{Ctx: ctx, Async: async, PanicKind: pk}
					switch opt {
					case 1:
						r.Once = true
					case 2:
						r.Seq = true
					case 3:
						r.Filter = 4
					}
					kinds = append(kinds, r)
				}
			}
		}
	}
	idx := 0
	emit := func(regs []prog.Reg, ph, obs bool) {
		idx++
		if !run.Mine(idx) {
			return
		}
		p := &prog.Program{Types: []int{idx % len(h.Drivers)}}
		p.Cfg.PanicHandler = ph
		p.Cfg.Obs = obs // an Observability implementation next to the panic handler: both see the panic
		for i := range regs {
			r := regs[i]
			r.Class = i
			p.Ops = append(p.Ops, prog.Op{K: prog.Sub, T: 0, Reg: &r})
		}
		for k := 0; k < 3; k++ {
			p.Ops = append(p.Ops, prog.Op{K: prog.Pub, T: 0, UseCtx: k == 1}, prog.Op{K: prog.Count, T: 0})
		}
		h.Exec(idx, p, nil, after)
		sig, nt := sigOf(p)
		run.Case(sig, nt)
		if idx == 7777 {
			run.Sample(map[string]any{"program": p})
		}
	}
	for _, a := range kinds {
		emit([]prog.Reg{a}, true, false)
		emit([]prog.Reg{a}, true, true)
	}
	for _, a := range kinds {
		for _, b := range kinds {
			emit([]prog.Reg{a, b}, true, false)
			if a.PanicKind != 0 || b.PanicKind != 0 {
				emit([]prog.Reg{a, b}, false, false)
				emit([]prog.Reg{a, b}, true, true)
			}
		}
	}
	run.Count("exhaustive_arrangements_len_le_2", int64(idx))
	// (b) generated programs with panicking handlers at every position, scripts, nesting
	n := run.Scale(1500, 150000)
	pf := []prog.Profile{
		{MinTypes: 1, MaxTypes: 3, MinOps: 10, MaxOps: 40, Async: true, Scripts: true, Panics: true},
		{MinTypes: 1, MaxTypes: 2, MinOps: 8, MaxOps: 25, Async: true, Panics: true, FewClasses: true, Cancels: true},
		{MinTypes: 1, MaxTypes: 3, MinOps: 10, MaxOps: 35, Async: true, Scripts: true, Panics: true, Store: true},
		{MinTypes: 1, MaxTypes: 3, MinOps: 10, MaxOps: 35, Async: true, Scripts: true, Panics: true, Obs: true, Hooks: true},
	}
	for i := 0; i < n; i++ {
		p := prog.Gen(run.Rand(uint64(i)), h.Drivers, pf[i%len(pf)])
		var factory func(*prog.Engine) ebu.Observability
		if p.Cfg.Obs && i%8 == 7 {
			// the observer next to the panic handler is the bundled OpenTelemetry implementation
			factory = func(*prog.Engine) ebu.Observability {
				o, err := ebuotel.New()
				if err != nil {
					panic(err)
				}
				return o
			}
		}
		h.Exec(1000000+i, p, factory, after)
		sig, nt := sigOf(p)
		run.Case(sig, nt)
		if i < 2 && run.Shard == 0 {
			run.Sample(map[string]any{"program": p})
		}
	}
}
