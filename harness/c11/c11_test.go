//go:build verif

// C11 — Replay delivers every event after the offset, or says that it did not.
package c11

import (
	"context"
	"encoding/json"
	"errors"
	"fmt"
	"os"
	"slices"
	"strings"
	"sync/atomic"
	"testing"
	"time"

	ebu "github.com/jilio/ebu"

	"verif/harness/internal/faultsql"
	"verif/harness/internal/stores"
	"verif/harness/internal/vk"
)

type evA struct{ ID int }
type evB struct{ ID int }

func (evA) EventTypeName() string { return "c11.A" }
func (evB) EventTypeName() string { return "c11.B" }

type fail struct {
	Kind string `json:"kind"` // none, cb-error, cb-cancel, pre-cancel, store-read, store-stream, store-yield, store-*-deadline, sql-row
	K    int    `json:"k"`
	Q    int    `json:"q,omitempty"`
}

var errCB = errors.New("verif: callback error")

var busyErr error // a genuine SQLITE_BUSY error value, provoked once per process

func TestC11(t *testing.T) {
	run := vk.New("C11", "replay")
	defer run.Finish()
	scratch := os.Getenv("VERIF_SCRATCH")
	if scratch == "" {
		scratch = t.TempDir()
	}
	restore := faultsql.Install()
	defer restore()
	os.MkdirAll(scratch, 0o755)
	if be, err := faultsql.GenuineBusy(scratch); err == nil {
		busyErr = be
	} else {
		t.Fatalf("no SQLITE_BUSY to inject: %v", err)
	}
	configs := []string{"memory", "memory-paged", "sqlite-paged", "sqlite-file", "sqlite-mem", "sqlite-mem-batch2", "sqlite-batch1", "sqlite-batch2", "sqlite-batch3", "sqlite-batch5", "durable", "durable-chunk400", "durable-strict", "durable-strict-chunk400"}
	batches := []int{1, 2, 3, 5, 100, 0, -1}
	maxLen := run.Scale(6, 18)
	if !run.Thorough() {
		batches = []int{1, 2, 100, 0}
	}
	idx := 0
	for _, cfg := range configs {
		lens := []int{}
		for L := 0; L <= maxLen; L++ {
			lens = append(lens, L)
		}
		if cfg == "sqlite-paged" && maxLen < 11 {
			lens = append(lens, 11) // the log must cross "9" -> "10"
		}
		for _, L := range lens {
			idx++
			if !run.Mine(idx) {
				continue
			}
			st, err := stores.Open(cfg, scratch)
			if err != nil {
				t.Fatalf("open %s: %v", cfg, err)
			}
			offs := []ebu.Offset{ebu.OffsetOldest}
			// a second store object on the same durable state (another service / process) appends every
			// other event; all replays read through the first object
			writers := []ebu.EventStore{st.Store}
			if st.Reopen != nil {
				sib, err := st.Reopen()
				if err != nil {
					t.Fatalf("reopen %s: %v", cfg, err)
				}
				defer sib.Close()
				writers = append(writers, sib.Store)
			}
			for i := 1; i <= L; i++ {
				typ := "c11.A"
				if i%3 == 0 {
					typ = "c11.B"
				} else if i%5 == 0 {
					typ = "" // an event whose type name is the empty string (legal, if unusual)
				}
				o, err := writers[(i+1)%len(writers)].Append(context.Background(), &ebu.Event{Type: typ, Data: json.RawMessage(fmt.Sprintf(`{"ID":%d}`, i)), Timestamp: time.Unix(int64(1700000000+i), 0).UTC()})
				if err != nil {
					t.Fatalf("append: %v", err)
				}
				offs = append(offs, o)
			}
			for _, b := range batches {
				for start := 0; start <= L; start++ {
					S := L - start
					var fs []fail
					fs = append(fs, fail{Kind: "none"}, fail{Kind: "pre-cancel"}, fail{Kind: "reentrant-callback"})
					for k := 1; k <= S; k++ {
						fs = append(fs, fail{Kind: "cb-error", K: k}, fail{Kind: "cb-cancel", K: k})
					}
					_, streams := st.Store.(ebu.EventStoreStreamer)
					if streams {
						fs = append(fs, fail{Kind: "store-stream"})
						for k := 0; k <= S; k++ {
							fs = append(fs, fail{Kind: "store-yield", K: k}, fail{Kind: "store-yield-deadline", K: k}, fail{Kind: "store-yield-eof", K: k})
						}
					} else {
						bb := b
						if bb <= 0 {
							bb = 100
						}
						for k := 0; k <= S/bb+1; k++ {
							fs = append(fs, fail{Kind: "store-read", K: k}, fail{Kind: "store-read-deadline", K: k}, fail{Kind: "store-read-eof", K: k})
						}
					}
					if strings.HasPrefix(cfg, "sqlite") && b == batches[0] { // the bus batch size is irrelevant on the streaming path
						sb := 0
						if i := strings.Index(cfg, "batch"); i >= 0 {
							fmt.Sscanf(cfg[i+5:], "%d", &sb)
						}
						if sb == 0 {
							for r := 1; r <= S; r++ {
								fs = append(fs, fail{Kind: "sql-row", K: r}, fail{Kind: "sql-row-busy", K: r})
							}
						} else {
							for q := 0; q*sb < S; q++ {
								for r := 1; r <= sb && q*sb+r <= S; r++ {
									fs = append(fs, fail{Kind: "sql-row", K: r, Q: q}, fail{Kind: "sql-row-busy", K: r, Q: q})
								}
							}
						}
					}
					for _, f := range fs {
						one(run, cfg, st, offs, b, L, start, f)
					}
				}
				if strings.HasPrefix(cfg, "durable-strict") && L > 0 {
					// resuming from the offset of an event seen by an earlier (interrupted) replay, against a
					// server that validates offsets: deliver exactly what follows that event, or fail
					evs, _, rerr := st.Store.Read(context.Background(), ebu.OffsetOldest, 0)
					if rerr == nil && len(evs) == L {
						evOffs := []ebu.Offset{ebu.OffsetOldest}
						for _, e := range evs {
							evOffs = append(evOffs, e.Offset)
						}
						for start := 1; start <= L; start++ {
							one(run, cfg, st, evOffs, b, L, start, fail{Kind: "none"})
							run.Count("replays_resumed_from_an_event_offset_on_a_validating_server", 1)
						}
					}
				}
				if !strings.HasPrefix(cfg, "durable") {
					// a start offset beyond the newest event: issued by a longer log of the same kind
					base := cfg
					if cfg == "sqlite-paged" {
						base = "sqlite-file"
					}
					if longer, err := stores.Open(base, scratch); err == nil {
						var off ebu.Offset
						for i := 0; i < L+3; i++ {
							off, _ = longer.Store.Append(context.Background(), &ebu.Event{Type: "x", Data: json.RawMessage(`1`)})
						}
						longer.Close()
						longer.Remove()
						one(run, cfg, st, append(append([]ebu.Offset{}, offs...), off), b, L, L+1, fail{Kind: "none"})
					}
				}
			}
			st.Close()
			st.Remove()
		}
	}
	run.Exhaustive(true)
}

// pageRecycler is a decorator of a paged store that treats every page it hands out as its own
// once the next page is asked for: it reorders and empties the previous page in place (the events
// the page pointed to are left alone).
type pageRecycler struct {
	inner ebu.EventStore
	last  []*ebu.StoredEvent
}

func (p *pageRecycler) Append(ctx context.Context, e *ebu.Event) (ebu.Offset, error) {
	return p.inner.Append(ctx, e)
}
func (p *pageRecycler) Read(ctx context.Context, from ebu.Offset, limit int) ([]*ebu.StoredEvent, ebu.Offset, error) {
	slices.Reverse(p.last)
	for i := 0; i < len(p.last); i += 2 {
		p.last[i] = nil
	}
	evs, next, err := p.inner.Read(ctx, from, limit)
	p.last = evs
	return evs, next, err
}

func one(run *vk.Run, cfg string, st *stores.Opened, offs []ebu.Offset, batch, L, start int, f fail) {
	S := L - start
	if S < 0 {
		S = 0 // a start offset beyond the newest event: nothing follows it
	}
	faults := stores.NewFaults()
	switch f.Kind {
	case "store-read":
		faults.ByKind["read"] = map[int]stores.Action{f.K: stores.Fail}
	case "store-stream":
		faults.ByKind["stream"] = map[int]stores.Action{0: stores.Fail}
	case "store-yield":
		faults.ByKind["yield"] = map[int]stores.Action{f.K: stores.Fail}
	case "store-yield-deadline": // the store's own deadline expires: the error wraps a context error, the caller's context is live
		faults.ByKind["yield"] = map[int]stores.Action{f.K: stores.FailCtx}
	case "store-read-deadline":
		faults.ByKind["read"] = map[int]stores.Action{f.K: stores.FailCtx}
	case "store-read-eof": // the connection to the store is dropped in mid-response: the error wraps io.EOF
		faults.ByKind["read"] = map[int]stores.Action{f.K: stores.FailEOF}
	case "store-yield-eof":
		faults.ByKind["yield"] = map[int]stores.Action{f.K: stores.FailEOF}
	}
	inner := st.Store
	if _, streams := inner.(ebu.EventStoreStreamer); !streams && f.Kind != "reentrant-callback" { // a nested replay asks for pages while the outer one is still using its own
		inner = &pageRecycler{inner: inner}
	}
	opts := []ebu.Option{ebu.WithStore(stores.Wrap(inner, faults))}
	if (L+start+batch)%2 == 0 {
		// "defaults first, the caller's options last": a default in-memory store (which streams and
		// holds other events) is given before the store the bus is to use
		decoy := ebu.NewMemoryStore()
		for i := 0; i < 3; i++ {
			decoy.Append(context.Background(), &ebu.Event{Type: ebu.EventType(evA{}), Data: json.RawMessage(`{"N":-1}`), Timestamp: time.Unix(1, 0)})
		}
		opts = append([]ebu.Option{ebu.WithStore(decoy)}, opts...)
		run.Count("buses_given_a_default_store_before_their_own", 1)
	}
	if batch != 0 {
		opts = append(opts, ebu.WithReplayBatchSize(batch))
	}
	bus := ebu.New(opts...)
	var dispatched atomic.Int32
	ebu.Subscribe(bus, func(evA) { dispatched.Add(1) })
	ebu.Subscribe(bus, func(evB) { dispatched.Add(1) }, ebu.Async())
	ctx, cancel := context.WithCancel(context.Background())
	defer cancel()
	if f.Kind == "pre-cancel" {
		cancel()
	}
	if f.Kind == "sql-row" {
		faultsql.Set(faultsql.Plan{Match: "FROM events", QueryN: f.Q, FailRow: f.K})
		defer faultsql.Set(faultsql.Plan{})
	}
	if f.Kind == "sql-row-busy" {
		// the row iteration fails once with a genuine SQLITE_BUSY (a writer held the lock for longer
		// than the busy timeout): an error like any other - reported, after a gap-free prefix
		faultsql.Set(faultsql.Plan{Match: "FROM events", QueryN: f.Q, FailRow: f.K, Err: busyErr})
		defer faultsql.Set(faultsql.Plan{})
	}
	var got []int
	cancelledAt := -1
	nested, nestedBad := false, ""
	// every other case replays through ReplayWithUpcast, with an upcaster for one of the two stored
	// types that renames some events and fails for the others: the same events reach the callback,
	// once each, in the same order
	replay := bus.Replay
	upcasting := false
	wrongType := ""
	if (L+start+batch+len(f.Kind))%2 == 0 {
		upcasting = true
		bus.SetUpcastErrorHandler(func(string, json.RawMessage, error) {})
		ebu.RegisterUpcastFunc(bus, "c11.B", "c11.B.v2", func(d json.RawMessage) (json.RawMessage, string, error) {
			var x struct{ ID int }
			json.Unmarshal(d, &x)
			if x.ID%2 == 0 {
				return nil, "", errors.New("verif: this one cannot be upcast")
			}
			return d, "c11.B.v2", nil
		})
		replay = bus.ReplayWithUpcast
	}
	err := replay(ctx, offs[start], func(e *ebu.StoredEvent) error {
		var d struct{ ID int }
		json.Unmarshal(e.Data, &d)
		got = append(got, d.ID)
		n := len(got)
		// the event is handed out under the type it was stored with (a plain replay reads, it never
		// rewrites), or under the upcast type where the registered upcaster applies
		wantType := "c11.A"
		if d.ID%3 == 0 {
			wantType = "c11.B"
			if upcasting && d.ID%2 == 1 {
				wantType = "c11.B.v2"
			}
		} else if d.ID%5 == 0 {
			wantType = ""
		}
		if e.Type != wantType && wrongType == "" {
			wrongType = fmt.Sprintf("event %d was handed out as %q, want %q", d.ID, e.Type, wantType)
		}
		if f.Kind == "cb-error" && n == f.K {
			return errCB
		}
		if f.Kind == "reentrant-callback" {
			// the callback reads the same store and runs a nested replay: no lock may be held across it
			if _, _, rerr := st.Store.Read(ctx, ebu.OffsetOldest, 1); rerr != nil {
				return rerr
			}
			if !nested {
				nested = true
				cnt := 0
				if nerr := bus.Replay(ctx, offs[start], func(*ebu.StoredEvent) error { cnt++; return nil }); nerr != nil || cnt != S {
					nestedBad = fmt.Sprintf("nested Replay from inside the callback returned %v after %d of %d events", nerr, cnt, S)
				}
				// and one over a different range (from the event being handled): the outer replay's own
				// view of the log must not be disturbed by it
				cnt = 0
				if strings.HasPrefix(cfg, "durable") {
					// (per-event offsets of the durable-streams store cannot be resumed from: recorded finding)
				} else if nerr := bus.Replay(ctx, e.Offset, func(*ebu.StoredEvent) error { cnt++; return nil }); nerr != nil || cnt != S-n {
					nestedBad = fmt.Sprintf("nested Replay from the offset of the event being handled returned %v after %d of %d events", nerr, cnt, S-n)
				}
				nested = false
			}
		}
		if f.Kind == "cb-cancel" && n == f.K {
			cancel()
			cancelledAt = n
		}
		return nil
	})
	bus.Wait()
	sig := fmt.Sprintf("%s|b%d|L%d|s%d|%s@%d.%d", cfg, batch, L, start, f.Kind, f.K, f.Q)
	desc := fmt.Sprintf("store %s, replay batch size %d, log length %d, start after event %d, failure %+v: Replay returned %v after delivering %v", cfg, batch, L, start, f, err, got)
	fam := strings.SplitN(cfg, "-", 2)[0]
	witness := map[string]any{"config": cfg, "batch": batch, "log_len": L, "start": start, "failure": f, "delivered": got, "err": fmt.Sprint(err), "store_ops": faults.Snapshot()}
	// durable-streams: a page cut to the batch size is the recorded finding (next offset skips the rest)
	truncated := false
	if fam == "durable" {
		bb := batch
		if bb <= 0 {
			bb = 100
		}
		for _, op := range faults.Snapshot() {
			if op.Kind == "read" && strings.HasPrefix(op.Res, fmt.Sprintf("%d->", bb)) {
				truncated = true
			}
		}
	}
	viol := func(rule string) {
		s := fam + ":" + rule
		if truncated && (rule == "nil-after-incomplete-delivery" || rule == "delivery-not-a-prefix" || rule == "nil-after-cancel-with-events-remaining" || rule == "reentrant-replay-from-callback") {
			s = "durable:replay-nil-after-limit-truncated-page"
		}
		run.Violation(s, desc, witness)
	}
	if nestedBad != "" {
		desc += "; " + nestedBad
		viol("reentrant-replay-from-callback")
	}
	if wrongType != "" {
		desc += "; " + wrongType
		viol("event-type-changed")
	}
	// 1. gap-free, duplicate-free, in-order prefix of the suffix after the start offset
	for i, id := range got {
		if id != start+1+i {
			viol("delivery-not-a-prefix")
			break
		}
	}
	if len(got) > S {
		viol("delivered-more-than-stored")
	}
	injected := false
	switch f.Kind {
	case "store-read", "store-stream", "store-yield", "store-yield-deadline", "store-read-deadline", "store-read-eof", "store-yield-eof":
		for _, op := range faults.Snapshot() {
			if op.Err {
				injected = true
			}
		}
	case "sql-row", "sql-row-busy":
		_, fired := faultsql.Stats()
		injected = fired > 0
	}
	// 2. nil only if everything was delivered
	if err == nil && len(got) < S {
		viol("nil-after-incomplete-delivery")
	}
	// 3. failures are reported
	switch f.Kind {
	case "cb-error":
		if len(got) >= f.K { // the failing callback invocation was reached
			if err == nil || !errors.Is(err, errCB) {
				viol("callback-error-not-returned")
			}
			if len(got) != f.K {
				viol("delivery-continued-after-callback-error")
			}
		}
	case "cb-cancel":
		// cancelled while at least one event was still undelivered: whatever it goes on to deliver
		// (rows already fetched), Replay must say that it was cancelled
		if cancelledAt > 0 && cancelledAt < S && err == nil {
			viol("nil-after-cancel-with-events-remaining")
		}
	case "pre-cancel":
		if S > 0 && err == nil {
			viol("nil-with-cancelled-context")
		}
	case "sql-row-busy":
		// a transient condition: an implementation may report it, or recover from it - but then it has
		// delivered everything exactly once (rules 1 and 2 above)
	default:
		if injected && err == nil {
			viol("store-error-swallowed")
		}
	}
	// 4. replay never appends and never dispatches
	for _, op := range faults.Snapshot() {
		if op.Kind == "append" {
			viol("replay-appended-to-store")
		}
	}
	if dispatched.Load() != 0 {
		viol("replay-invoked-subscribed-handlers")
	}
	bb := batch
	if bb <= 0 {
		bb = 100
	}
	inside := (f.Kind != "none" && f.Kind != "pre-cancel" && f.K > 0 && f.K%bb != 0) || S > bb
	run.Case(sig, inside)
	run.Count("callback_deliveries_checked", int64(len(got)))
	if injected {
		run.Count("injected_store_errors_fired", 1)
	}
	if run.WantSample() && f.Kind == "cb-cancel" && f.K == 2 && L > 3 {
		run.Sample(witness)
	}
}
