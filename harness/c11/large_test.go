//go:build verif

package c11

import (
	"context"
	"encoding/json"
	"fmt"
	"os"
	"path/filepath"
	"strings"
	"testing"
	"time"

	ebu "github.com/jilio/ebu"
	"github.com/jilio/ebu/stores/sqlite"

	"verif/harness/internal/stores"
	"verif/harness/internal/vk"
)

// TestC11LargeLog: logs that are longer than a page / batch boundary by nothing, one and many —
// around the bus's default page size (100), around 1000 and beyond — on the streaming and the paged
// paths, with SQLite stream batch sizes below, at and above those lengths. Replay from the oldest
// offset and from the offsets next to the boundaries delivers every event after the offset, in order.
func TestC11LargeLog(t *testing.T) {
	run := vk.New("C11", "large-log")
	defer run.Finish()
	scratch := os.Getenv("VERIF_SCRATCH")
	if scratch == "" {
		scratch = t.TempDir()
	}
	os.MkdirAll(scratch, 0o755)
	ctx := context.Background()
	type cfg struct {
		name        string
		streamBatch int // sqlite only (0: unbatched)
	}
	cfgs := []cfg{{"memory", 0}, {"memory-paged", 0}, {"sqlite", 0}, {"sqlite", 99}, {"sqlite", 100}, {"sqlite", 1000}, {"sqlite", 1001}, {"sqlite", 1500}, {"sqlite", 5000}, {"sqlite", 1 << 30}}
	lengths := []int{99, 100, 101, 200, 201, 999, 1000, 1001, 1002, 2001}
	if run.Thorough() {
		lengths = append(lengths, 1499, 1500, 1501, 4096, 4097, 5001, 10001)
	}
	idx := 0
	for _, c := range cfgs {
		for _, L := range lengths {
			idx++
			if !run.Mine(idx) {
				continue
			}
			var store ebu.EventStore
			cleanup := func() {}
			if c.name == "sqlite" {
				path := filepath.Join(scratch, fmt.Sprintf("large-%d-%d.db", os.Getpid(), idx))
				var opts []sqlite.Option
				if c.streamBatch > 0 {
					opts = append(opts, sqlite.WithStreamBatchSize(c.streamBatch))
				}
				st, err := sqlite.New(path, opts...)
				if err != nil {
					t.Fatal(err)
				}
				store = st
				cleanup = func() { st.Close(); os.Remove(path); os.Remove(path + "-wal"); os.Remove(path + "-shm") }
			} else {
				o, err := stores.Open(c.name, scratch)
				if err != nil {
					t.Fatal(err)
				}
				store = o.Store
				cleanup = func() { o.Close() }
			}
			offs := []ebu.Offset{ebu.OffsetOldest}
			for k := 1; k <= L; k++ {
				o, err := store.Append(ctx, &ebu.Event{Type: "c11.A", Data: json.RawMessage(fmt.Sprintf(`{"ID":%d}`, k)), Timestamp: time.Unix(int64(1700000000+k), 0).UTC()})
				if err != nil {
					t.Fatal(err)
				}
				offs = append(offs, o)
			}
			for _, rb := range []int{0, 1000, 1001} {
				bo := []ebu.Option{ebu.WithStore(store)}
				if rb > 0 {
					bo = append(bo, ebu.WithReplayBatchSize(rb))
				}
				bus := ebu.New(bo...)
				for _, start := range []int{0, 1, L - 1001, L - 1000, L - 101, L - 100, L - 1, L} {
					if start < 0 || start > L {
						continue
					}
					if _, streams := store.(ebu.EventStoreStreamer); !streams && c.name != "memory-paged" && start > 9 {
						continue
					}
					next, count, bad := start+1, 0, ""
					err := bus.Replay(ctx, offs[start], func(e *ebu.StoredEvent) error {
						var d struct{ ID int }
						json.Unmarshal(e.Data, &d)
						if d.ID != next && bad == "" {
							bad = fmt.Sprintf("event %d delivered where %d was due", d.ID, next)
						}
						next++
						count++
						return nil
					})
					if err != nil || bad != "" || count != L-start {
						run.Violation(fmt.Sprintf("%s:large-log-replay", c.name), fmt.Sprintf("store %s (stream batch size %d), log of %d events, replay batch size %d, start after event %d: Replay returned %v after delivering %d of %d events %s", c.name, c.streamBatch, L, rb, start, err, count, L-start, bad),
							map[string]any{"store": c.name, "stream_batch": c.streamBatch, "log_len": L, "replay_batch": rb, "start": start, "delivered": count})
					}
					run.Count("replays_checked", 1)
				}
			}
			run.Case(fmt.Sprintf("%s|sb%d|L%d", c.name, c.streamBatch, L), true)
			run.Max("max_log_length", int64(L))
			cleanup()
		}
	}
	// a replay whose callback appends to the log it is reading (a projector that emits follow-up
	// events): what was in the log when the replay began is delivered in order without a gap; whatever
	// else is delivered are the appended events, in their order
	for _, kind := range []string{"memory", "memory-paged", "sqlite-mem", "sqlite-file"} {
		for _, L := range []int{100, 520, 1030} {
			idx++
			if !run.Mine(idx) {
				continue
			}
			o, err := stores.Open(kind, scratch)
			if err != nil {
				t.Fatal(err)
			}
			for k := 1; k <= L; k++ {
				if _, err := o.Store.Append(ctx, &ebu.Event{Type: "c11.A", Data: json.RawMessage(fmt.Sprintf(`{"ID":%d}`, k)), Timestamp: time.Unix(int64(1700000000+k), 0).UTC()}); err != nil {
					t.Fatal(err)
				}
			}
			bus := ebu.New(ebu.WithStore(o.Store))
			var ids []int
			appended := 0
			err = bus.Replay(ctx, ebu.OffsetOldest, func(e *ebu.StoredEvent) error {
				var d struct{ ID int }
				json.Unmarshal(e.Data, &d)
				ids = append(ids, d.ID)
				// one follow-up event per delivery for the first 50, then - two events before the end of
				// the log as it was - a burst of 650
				n := 0
				if appended < 50 {
					n = 1
				} else if len(ids) == L-2 {
					n = 650
				}
				for ; n > 0; n-- {
					appended++
					if _, aerr := o.Store.Append(ctx, &ebu.Event{Type: "c11.A", Data: json.RawMessage(fmt.Sprintf(`{"ID":%d}`, 100000+appended)), Timestamp: time.Unix(1, 0)}); aerr != nil {
						return fmt.Errorf("append from the callback: %w", aerr)
					}
				}
				return nil
			})
			bad := ""
			for i, id := range ids {
				want := i + 1
				if i >= L {
					want = 100000 + (i - L + 1)
				}
				if id != want {
					bad = fmt.Sprintf("delivery #%d was event %d, event %d was due", i+1, id, want)
					break
				}
			}
			if err != nil || bad != "" || len(ids) < L {
				run.Violation(strings.SplitN(kind, "-", 2)[0]+":replay-while-the-callback-appends", fmt.Sprintf("store %s, log of %d events, the replay callback appends one event for each of the first 50 it is given and a burst of 650 two events before the end: Replay returned %v after %d deliveries; %s", kind, L, err, len(ids), bad), map[string]any{"store": kind, "log_len": L, "delivered": len(ids)})
			}
			run.Case(fmt.Sprintf("callback-appends|%s|L%d", kind, L), true)
			o.Close()
			o.Remove()
		}
	}
	// durable-streams with the bus's default options (no replay batch size given): logs of up to a
	// hundred events - one server response - are replayed completely
	for _, L := range []int{20, 33, 60, 99, 100} {
		idx++
		if !run.Mine(idx) {
			continue
		}
		o, err := stores.Open("durable", scratch)
		if err != nil {
			t.Fatal(err)
		}
		for k := 1; k <= L; k++ {
			if _, err := o.Store.Append(ctx, &ebu.Event{Type: "c11.A", Data: json.RawMessage(fmt.Sprintf(`{"ID":%d}`, k)), Timestamp: time.Unix(int64(1700000000+k), 0).UTC()}); err != nil {
				t.Fatal(err)
			}
		}
		bus := ebu.New(ebu.WithStore(o.Store))
		next, bad := 1, ""
		err = bus.Replay(ctx, ebu.OffsetOldest, func(e *ebu.StoredEvent) error {
			var d struct{ ID int }
			json.Unmarshal(e.Data, &d)
			if d.ID != next && bad == "" {
				bad = fmt.Sprintf("event %d delivered where %d was due", d.ID, next)
			}
			next++
			return nil
		})
		if err != nil || bad != "" || next-1 != L {
			run.Violation("durable:default-options-replay-incomplete", fmt.Sprintf("durable-streams store, log of %d events, bus with default options, replay from the start: Replay returned %v after delivering %d of %d events %s", L, err, next-1, L, bad), map[string]any{"log_len": L, "delivered": next - 1})
		}
		run.Case(fmt.Sprintf("durable|default-options|L%d", L), true)
		o.Close()
		o.Remove()
	}
	// a few events, one of them very large (5 MiB, then 9 MiB): no page is "full" before it holds
	// at least the next event, whatever its size
	for bi, kind := range []string{"memory-paged", "sqlite-paged", "sqlite-mem", "sqlite-file", "sqlite-batch2", "sqlite-batch1000", "durable"} {
		idx++
		if !run.Mine(idx) {
			continue
		}
		o, err := stores.Open(kind, scratch)
		if err != nil {
			t.Fatal(err)
		}
		offs := []ebu.Offset{ebu.OffsetOldest}
		const L = 6
		for k := 1; k <= L; k++ {
			pad := ""
			switch k {
			case 2:
				pad = strings.Repeat("0123456789abcdef", 400) // a few KiB
			case 3:
				pad = strings.Repeat("0123456789abcdef", 5<<16)
			case 5:
				pad = strings.Repeat("0123456789abcdef", 9<<16)
			}
			off, err := o.Store.Append(ctx, &ebu.Event{Type: "c11.A", Data: json.RawMessage(fmt.Sprintf(`{"ID":%d,"pad":%q}`, k, pad)), Timestamp: time.Unix(int64(1700000000+k), 0).UTC()})
			if err != nil {
				t.Fatal(err)
			}
			offs = append(offs, off)
		}
		for _, rb := range []int{0, 2, 4} {
			if kind == "durable" && rb > 0 {
				continue // (a batch size below the server's chunk: recorded finding)
			}
			bo := []ebu.Option{ebu.WithStore(o.Store)}
			if rb > 0 {
				bo = append(bo, ebu.WithReplayBatchSize(rb))
			}
			bus := ebu.New(bo...)
			for _, start := range []int{0, 1, 2, 4} {
				if kind == "durable" && start > 0 {
					continue // (resuming from an event offset on durable-streams: recorded finding of C10)
				}
				var ids []int
				err := bus.Replay(ctx, offs[start], func(e *ebu.StoredEvent) error {
					var d struct{ ID int }
					json.Unmarshal(e.Data, &d)
					ids = append(ids, d.ID)
					return nil
				})
				var want []int
				for k := start + 1; k <= L; k++ {
					want = append(want, k)
				}
				if err != nil || fmt.Sprint(ids) != fmt.Sprint(want) {
					run.Violation(strings.SplitN(kind, "-", 2)[0]+":nil-after-incomplete-delivery", fmt.Sprintf("store %s, six events of which the third is 5 MiB and the fifth 9 MiB, replay batch size %d, start after event %d: Replay returned %v after delivering %v (want %v)", kind, rb, start, err, ids, want),
						map[string]any{"store": kind, "replay_batch": rb, "start": start, "delivered": ids})
				}
				run.Count("replays_over_very_large_events", 1)
			}
		}
		run.Case(fmt.Sprintf("very-large-events|%s|%d", kind, bi), true)
		o.Close()
		o.Remove()
	}
	run.Exhaustive(true)
}
