//go:build verif

package c11

import (
	"context"
	"encoding/json"
	"fmt"
	"os"
	"runtime"
	"sync"
	"testing"

	ebu "github.com/jilio/ebu"

	"verif/harness/internal/stores"
	"verif/harness/internal/vk"
)

// TestC11ConcurrentWriters: the log is written by several buses (services) that share one store and
// publish concurrently; afterwards "the log" is what a full read from the oldest offset returns.
// Replaying from the offset of any of its events — with every page size — must deliver exactly the
// events that follow that event in the log, in log order, and return nil.
func TestC11ConcurrentWriters(t *testing.T) {
	run := vk.New("C11", "concurrent-writers")
	defer run.Finish()
	scratch := os.Getenv("VERIF_SCRATCH")
	if scratch == "" {
		scratch = t.TempDir()
	}
	configs := []string{"memory", "memory-paged", "sqlite-file", "sqlite-batch3"}
	n := run.Scale(40, 1500)
	procs := []int{1, 2, 4, 16}
	defer runtime.GOMAXPROCS(runtime.GOMAXPROCS(0))
	for i := 0; i < n; i++ {
		rng := run.Rand(uint64(i))
		cfg := configs[i%len(configs)]
		runtime.GOMAXPROCS(procs[(i/len(configs))%len(procs)])
		st, err := stores.Open(cfg, scratch)
		if err != nil {
			t.Fatalf("open %s: %v", cfg, err)
		}
		G := 2 + rng.IntN(3)
		E := 2 + rng.IntN(4) // short logs: single-digit SQLite offsets (their ordering beyond "9" is C10's recorded finding)
		if G*E > 9 && cfg != "memory" && cfg != "memory-paged" {
			E = 9 / G
		}
		var wg sync.WaitGroup
		start := make(chan struct{})
		for g := 0; g < G; g++ {
			bus := ebu.New(ebu.WithStore(st.Store))
			wg.Add(1)
			go func(g int) {
				defer wg.Done()
				<-start
				for k := 0; k < E; k++ {
					ebu.Publish(bus, evA{ID: g*1000 + k + 1})
					if k%2 == 0 {
						runtime.Gosched()
					}
				}
			}(g)
		}
		close(start)
		wg.Wait()
		ctx := context.Background()
		full, _, err := st.Store.Read(ctx, ebu.OffsetOldest, 0)
		witness := map[string]any{"config": cfg, "writers": G, "events_each": E, "case": i}
		if err != nil || len(full) != G*E {
			// the log could not be written completely (a persistence failure under concurrent writers):
			// whether every publish is recorded is C09's subject, not Replay's
			run.Count("rounds_skipped_log_incomplete", 1)
			st.Close()
			st.Remove()
			continue
		}
		ids := make([]int, len(full))
		var offs []string
		for k, e := range full {
			var d struct{ ID int }
			json.Unmarshal(e.Data, &d)
			ids[k] = d.ID
			offs = append(offs, string(e.Offset))
		}
		witness["log_ids"], witness["log_offsets"] = ids, offs
		reader := ebu.New(ebu.WithStore(st.Store))
		descending := false
		for k := 1; k < len(full); k++ {
			if !(full[k].Offset > full[k-1].Offset) {
				descending = true
			}
		}
		for _, b := range []int{0, 1, 2, 3} {
			reader = ebu.New(ebu.WithStore(st.Store), ebu.WithReplayBatchSize(max(b, 1)))
			if b == 0 {
				reader = ebu.New(ebu.WithStore(st.Store))
			}
			for p := -1; p < len(full); p++ {
				from := ebu.OffsetOldest
				if p >= 0 {
					from = full[p].Offset
				}
				var got []int
				rerr := reader.Replay(ctx, from, func(e *ebu.StoredEvent) error {
					var d struct{ ID int }
					json.Unmarshal(e.Data, &d)
					got = append(got, d.ID)
					return nil
				})
				want := ids[p+1:]
				if rerr != nil || fmt.Sprint(got) != fmt.Sprint(append([]int{}, want...)) {
					w2 := map[string]any{"from_position": p, "from_offset": string(from), "batch": b, "delivered": got, "want": want, "err": fmt.Sprint(rerr)}
					for k, v := range witness {
						w2[k] = v
					}
					run.Violation(famOf(cfg)+":replay-of-concurrently-written-log", fmt.Sprintf("[%s] log written by %d concurrent buses (ids %v, offsets %v): Replay from the offset of its event #%d with batch size %d returned %v after delivering %v, the log continues with %v", cfg, G, ids, offs, p+1, b, rerr, got, want), w2)
					p = len(full)
				}
				run.Count("replays_checked", 1)
			}
		}
		run.Case(fmt.Sprintf("%s|G%d|E%d|desc%v", cfg, G, E, descending), true)
		run.Count("concurrently_written_logs", 1)
		st.Close()
		st.Remove()
	}
}

func famOf(cfg string) string {
	for i := 0; i < len(cfg); i++ {
		if cfg[i] == '-' {
			return cfg[:i]
		}
	}
	return cfg
}
