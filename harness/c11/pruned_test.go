//go:build verif

package c11

import (
	"context"
	"database/sql"
	"encoding/json"
	"fmt"
	"os"
	"path/filepath"
	"testing"
	"time"

	ebu "github.com/jilio/ebu"
	"github.com/jilio/ebu/stores/sqlite"

	"verif/harness/internal/vk"
)

// TestC11PrunedLog: a SQLite log whose position sequence has holes — a retention job deleted rows
// directly in the database (AUTOINCREMENT never reuses the positions). The stored events are the
// rows that are left: Replay from the oldest offset and from the offset of every remaining event,
// for every stream batch size and bus page size, delivers exactly the events that follow, once each,
// in order, and returns nil.
func TestC11PrunedLog(t *testing.T) {
	run := vk.New("C11", "pruned-log")
	defer run.Finish()
	scratch := os.Getenv("VERIF_SCRATCH")
	if scratch == "" {
		scratch = t.TempDir()
	}
	os.MkdirAll(scratch, 0o755)
	n := run.Scale(60, 2500)
	ctx := context.Background()
	for i := 0; i < n; i++ {
		if !run.Mine(i) {
			continue
		}
		rng := run.GlobalRand(uint64(i))
		path := filepath.Join(scratch, fmt.Sprintf("pruned-%d-%d.db", os.Getpid(), i))
		L := 3 + rng.IntN(7) // single-digit positions (ordering beyond "9" is C10's recorded finding)
		w, err := sqlite.New(path)
		if err != nil {
			t.Fatal(err)
		}
		for k := 1; k <= L; k++ {
			if _, err := w.Append(ctx, &ebu.Event{Type: "c11.A", Data: json.RawMessage(fmt.Sprintf(`{"ID":%d}`, k)), Timestamp: time.Unix(int64(1700000000+k), 0).UTC()}); err != nil {
				t.Fatal(err)
			}
		}
		w.Close()
		// the retention job
		var keep []int
		var drop []int
		for k := 1; k <= L; k++ {
			if rng.IntN(3) == 0 {
				drop = append(drop, k)
			} else {
				keep = append(keep, k)
			}
		}
		db, err := sql.Open("sqlite", "file:"+path)
		if err != nil {
			t.Fatal(err)
		}
		for _, k := range drop {
			if _, err := db.Exec("DELETE FROM events WHERE position = ?", k); err != nil {
				t.Fatal(err)
			}
		}
		db.Close()
		for _, sb := range []int{0, 1, 2, 3, 5} {
			var opts []sqlite.Option
			if sb > 0 {
				opts = append(opts, sqlite.WithStreamBatchSize(sb))
			}
			st, err := sqlite.New(path, opts...)
			if err != nil {
				t.Fatal(err)
			}
			full, _, err := st.Read(ctx, ebu.OffsetOldest, 0)
			if err != nil || len(full) != len(keep) {
				run.Violation("sqlite:pruned-log-read", fmt.Sprintf("log of %d events with rows %v deleted: a full read returned %d events, err %v", L, drop, len(full), err), map[string]any{"case": i})
				st.Close()
				continue
			}
			for _, b := range []int{0, 1, 2} {
				bo := []ebu.Option{ebu.WithStore(st)}
				if b > 0 {
					bo = append(bo, ebu.WithReplayBatchSize(b))
				}
				bus := ebu.New(bo...)
				for p := -1; p < len(full); p++ {
					from := ebu.OffsetOldest
					if p >= 0 {
						from = full[p].Offset
					}
					var got []int
					rerr := bus.Replay(ctx, from, func(e *ebu.StoredEvent) error {
						var d struct{ ID int }
						json.Unmarshal(e.Data, &d)
						got = append(got, d.ID)
						return nil
					})
					want := append([]int{}, keep[p+1:]...)
					if rerr != nil || fmt.Sprint(got) != fmt.Sprint(want) {
						run.Violation("sqlite:replay-of-pruned-log", fmt.Sprintf("SQLite log of %d events with the rows at positions %v deleted (stream batch size %d, replay batch size %d): Replay from %q returned %v after delivering %v, the remaining events after it are %v", L, drop, sb, b, from, rerr, got, want),
							map[string]any{"case": i, "log_len": L, "deleted_positions": drop, "stream_batch": sb, "replay_batch": b, "from": string(from), "delivered": got, "want": want})
						p = len(full)
					}
					run.Count("replays_checked", 1)
				}
			}
			st.Close()
		}
		run.Case(fmt.Sprintf("L%d drop%d first%v last%v", L, len(drop), len(drop) > 0 && drop[0] == 1, len(drop) > 0 && drop[len(drop)-1] == L), len(drop) > 0)
		os.Remove(path)
		os.Remove(path + "-wal")
		os.Remove(path + "-shm")
	}
}
