//go:build verif

package c07

import (
	"context"
	"fmt"
	"reflect"
	"runtime"
	"sync"
	"sync/atomic"
	"testing"
	"time"

	ebu "github.com/jilio/ebu"

	"verif/harness/internal/vk"
	"verif/harness/internal/watchdog"
)

type rsEv struct{ ID uint64 }

// TestC07ReplaySequential: a Sequential handler registered through SubscribeWithReplay on a
// persistent bus with history, while other goroutines publish events of its type. Invocations of
// the replay phase and of the live phase are invocations of one Sequential handler: none may
// overlap another (in-body counter, unsynchronised canary under the race detector). Which of the
// concurrently published events reach the subscription is C12's subject, not asserted here.
func TestC07ReplaySequential(t *testing.T) {
	run := vk.New("C07", "replay-sequential")
	defer run.Finish()
	n := run.Scale(120, 3000)
	procs := []int{1, 2, 4, 16}
	defer runtime.GOMAXPROCS(runtime.GOMAXPROCS(0))
	var cur string
	dog := watchdog.Start(20*time.Second, func(v watchdog.Verdict) {
		if !v.Deadlock {
			run.Count("watchdog_slow_windows", 1)
			return
		}
		run.Violation("seq:hang", "SubscribeWithReplay / publishers stopped making progress with goroutines parked below ebu frames: "+cur, map[string]any{"case": cur, "dump": v.Dump[:min(len(v.Dump), 20000)]})
		run.Finish()
		watchdog.Exit()
	})
	defer dog.Stop()
	for i := 0; i < n; i++ {
		rng := run.Rand(uint64(i))
		cur = fmt.Sprintf("round %d", i)
		dog.Tick()
		runtime.GOMAXPROCS(procs[i%len(procs)])
		bus := ebu.New(ebu.WithStore(ebu.NewMemoryStore()), ebu.WithPanicHandler(func(any, reflect.Type, any) {}))
		H := 3 + rng.IntN(25)
		for k := 0; k < H; k++ {
			ebu.Publish(bus, rsEv{ID: uint64(k + 1)})
		}
		P := 1 + rng.IntN(4)
		E := 3 + rng.IntN(15)
		async := i%3 == 1
		var inBody, maxIn, replayInv, liveInv atomic.Int32
		canary := 0 // deliberately unsynchronised
		start := make(chan struct{})
		var once sync.Once
		spin := 20 + rng.IntN(300)
		handler := func(e rsEv) {
			if c := inBody.Add(1); c > maxIn.Load() {
				maxIn.Store(c)
			}
			canary++
			once.Do(func() { close(start) }) // the publishers start while the replay is running
			if e.ID <= uint64(H) {
				replayInv.Add(1)
			} else {
				liveInv.Add(1)
			}
			s := 0
			for k := 0; k < spin; k++ {
				s += k
			}
			_ = s
			runtime.Gosched()
			canary++
			inBody.Add(-1)
		}
		var wg sync.WaitGroup
		for g := 0; g < P; g++ {
			wg.Add(1)
			go func(g int) {
				defer wg.Done()
				<-start
				for k := 0; k < E; k++ {
					ebu.Publish(bus, rsEv{ID: uint64(1000 + g*100 + k)})
					if k%3 == 0 {
						runtime.Gosched()
					}
					dog.Tick()
				}
			}(g)
		}
		opts := []ebu.SubscribeOption{ebu.Sequential()}
		if async {
			opts = append(opts, ebu.Async())
		}
		if err := ebu.SubscribeWithReplay(context.Background(), bus, "sub", handler, opts...); err != nil {
			run.Violation("seq:replay-subscribe-error", "SubscribeWithReplay returned "+err.Error(), map[string]any{"case": i})
		}
		once.Do(func() { close(start) })
		wg.Wait()
		bus.Wait()
		inv := int(replayInv.Load() + liveInv.Load())
		if m := maxIn.Load(); m > 1 {
			run.Violation("seq:replay-live-overlap", fmt.Sprintf("%d invocations of a Sequential handler registered through SubscribeWithReplay were inside its body at once (history %d events, %d concurrent publishers, async=%v)", m, H, P, async),
				map[string]any{"case": i, "gomaxprocs": procs[i%len(procs)], "replay_invocations": replayInv.Load(), "live_invocations": liveInv.Load()})
		}
		if canary != 2*inv {
			run.Violation("seq:canary", fmt.Sprintf("unsynchronised canary of the replay subscription's handler is %d after %d invocations", canary, inv), map[string]any{"case": i})
		}
		if int(replayInv.Load()) < H {
			run.Violation("seq:replay-incomplete", fmt.Sprintf("the replay phase delivered %d of %d stored events", replayInv.Load(), H), map[string]any{"case": i})
		}
		run.Case(fmt.Sprintf("H%d P%d a%v p%d live%v", H/8, P, async, procs[i%len(procs)], liveInv.Load() > 0), liveInv.Load() > 0)
		run.Count("replay_phase_invocations", int64(replayInv.Load()))
		run.Count("live_phase_invocations", int64(liveInv.Load()))
	}
}
