//go:build verif

// C07 — Sequential handlers never overlap and process events in publish order.
package c07

import (
	"context"
	"fmt"
	"reflect"
	"runtime"
	"sync"
	"sync/atomic"
	"testing"
	"time"

	ebu "github.com/jilio/ebu"

	"verif/harness/internal/conc"
	"verif/harness/internal/evt"
	"verif/harness/internal/vk"
	"verif/harness/internal/watchdog"
)

func TestC07(t *testing.T) {
	run := vk.New("C07", "sequential")
	defer run.Finish()
	if run.Shard == 0 {
		forwardedContextOverlap(run)
		queuedBacklog(run)
	}
	all := evt.Drivers()
	n := run.Scale(150, 2500)
	procs := []int{1, 2, 4, 16}
	defer runtime.GOMAXPROCS(runtime.GOMAXPROCS(0))
	var cur string
	dog := watchdog.Start(20*time.Second, func(v watchdog.Verdict) {
		if v.Deadlock {
			run.Violation("seq:hang", "publishers / Wait stopped making progress with goroutines parked below ebu frames: "+cur, map[string]any{"case": cur, "dump": v.Dump[:min(len(v.Dump), 20000)]})
		} else {
			run.Count("watchdog_slow_windows", 1)
			return
		}
		run.Finish()
		watchdog.Exit()
	})
	defer dog.Stop()
	dead, cancelDead := context.WithCancel(context.Background())
	cancelDead()
	for i := 0; i < n; i++ {
		rng := run.Rand(uint64(i))
		withCancelled := i%3 == 0
		cur = fmt.Sprintf("round %d", i)
		dog.Tick()
		runtime.GOMAXPROCS(procs[i%len(procs)])
		drivers := conc.SameShardTypes(all, 1, rng.Uint64())
		w := conc.NewWorld(drivers, rng.Uint64(), true, ebu.WithPanicHandler(func(any, reflect.Type, any) {}))
		w.NoisePct = 30 + rng.IntN(60)
		panicky := i%4 == 1
		P := 1 + rng.IntN(8)
		E := 5 + rng.IntN(25)
		if rng.IntN(20) == 0 {
			E = 100 + rng.IntN(100)
		}
		// handlers: sequential sync, async+sequential, context-aware variants, plus a plain one
		type hs struct {
			r       *conc.Reg
			canary  int // deliberately unsynchronised: the race detector is a second overlap witness
			pending atomic.Int32
			maxPend atomic.Int32
		}
		var hl []*hs
		pc, cc := 0, 0
		add := func(async, ctxAware bool) {
			h := &hs{}
			r := &conc.Reg{T: 0, Seq: true, Async: async, Ctx: ctxAware, Filter: async && i%5 == 2 && len(hl) == 1}
			if ctxAware {
				r.Class, cc = cc, cc+1
			} else {
				r.Class, pc = pc, pc+1
			}
			r.Body = func(w *conc.World, _ *conc.Reg, _ context.Context, eid uint64) {
				h.canary++
				w.Noise()
				h.canary++
				if panicky && eid%9 == 4 {
					// a panicking invocation must not keep the handler locked or out of turn
					w.Rec(conc.Ev{G: -1, K: "h.exit", Reg: r.ID, T: r.T, EID: eid})
					r.EndBody()
					panic("c07: handler panic")
				}
			}
			h.r = r
			hl = append(hl, h)
			w.Subscribe(90, r)
		}
		if i%4 == 1 {
			// a one-shot initialiser subscribed before the sequential handlers: when it has fired and
			// left the registry, every handler behind it has moved up one place
			w.Subscribe(90, &conc.Reg{T: 0, Class: 10, Once: true})
			if i%8 == 1 {
				w.Subscribe(90, &conc.Reg{T: 0, Class: 9, Once: true, Async: true})
			}
		}
		add(rng.IntN(2) == 0, false)
		add(true, rng.IntN(2) == 0)
		filtered := i%5 == 2
		_ = filtered // (the async+sequential handler only accepts even ids in these rounds: rejected events take no ticket and no turn)
		lateCancel := i%5 == 3
		if rng.IntN(2) == 0 {
			add(false, true)
		}
		// every fourth round: publishers keep subscribing Once handlers on the same type, each of which
		// fires on the next publish and is then taken out of the registry while other publishers are
		// part-way through their dispatch
		onceChurn := i%4 == 2
		published := make([][]uint64, P)
		var maybe sync.Map // ids whose context ended after the publish returned
		var wg sync.WaitGroup
		start := make(chan struct{})
		for g := 0; g < P; g++ {
			wg.Add(1)
			go func(g int) {
				defer wg.Done()
				<-start
				for k := 0; k < E; k++ {
					id := w.NextEID()
					if onceChurn && k%2 == 0 {
						w.Subscribe(g, &conc.Reg{T: 0, Class: 11, Once: true})
					}
					if withCancelled && (k+g)%5 == 1 {
						// a publish whose context is already cancelled: no delivery is owed, and it must
						// not disturb the deliveries of the live publishes around it
						w.PublishID(g, 0, dead, id)
						continue
					}
					if lateCancel && (k+g)%4 == 2 {
						// the context ends right after the publish returned: an async delivery may find it
						// over when its turn comes (at most once), and must still hand the turn on
						c, cancel := context.WithCancel(context.Background())
						w.PublishID(g, 0, c, id)
						cancel()
						maybe.Store(id, true)
						continue
					}
					published[g] = append(published[g], id)
					if k%3 == 0 {
						w.PublishID(g, 0, context.Background(), id)
					} else {
						w.PublishID(g, 0, nil, id)
					}
					if k%7 == 0 {
						w.Noise()
					}
					dog.Tick()
				}
			}(g)
		}
		if i%7 == 3 {
			// an impatient caller gives up on Shutdown (its context has already ended) while deliveries
			// are queued: that abandons the wait, not the deliveries
			wg.Add(1)
			go func() {
				defer wg.Done()
				<-start
				for k := 0; k < 5; k++ {
					w.Bus.Shutdown(dead)
					w.Noise()
				}
			}()
		}
		close(start)
		wg.Wait()
		w.Bus.Wait()
		// ---- oracle on the recorded history
		h := conc.Index(w.Log)
		for _, ov := range h.Overlap {
			run.Violation("seq:overlap-counter", fmt.Sprintf("two invocations of sequential registration #%d were inside the handler body at once (event %d)", ov.Reg, ov.EID), map[string]any{"case": i})
		}
		owner := map[uint64]int{}
		rank := map[uint64]int{}
		for g, l := range published {
			for k, id := range l {
				owner[id], rank[id] = g, k
			}
		}
		maxPending := 0
		for _, x := range hl {
			r := x.r
			// enter / exit must alternate in stamp order
			depth, pend := 0, 0
			last := map[int]int{}
			for g := range published {
				last[g] = -1
			}
			for _, e := range w.Log {
				if e.Reg != r.ID {
					continue
				}
				switch e.K {
				case "h.enter":
					depth++
					if depth > 1 {
						run.Violation("seq:overlap-stamps", fmt.Sprintf("sequential registration #%d entered for event %d before the previous invocation had exited", r.ID, e.EID), map[string]any{"case": i, "gomaxprocs": procs[i%len(procs)]})
					}
					if _, tracked := owner[e.EID]; r.Async && tracked {
						g := owner[e.EID]
						if rank[e.EID] < last[g] {
							run.Violation("seq:async-order", fmt.Sprintf("async+sequential registration #%d processed event %d (the %d-th publish of goroutine %d) after a later publish of the same goroutine (%d-th)", r.ID, e.EID, rank[e.EID], g, last[g]),
								map[string]any{"case": i, "gomaxprocs": procs[i%len(procs)], "publishers": P, "events": E})
						}
						last[g] = rank[e.EID]
					}
				case "h.exit":
					depth--
				}
			}
			_ = pend
			// exactly once
			for id := range owner {
				if r.Filter && id%2 == 1 {
					if c := h.Deliv[[2]uint64{uint64(r.ID), id}]; c != 0 {
						run.Violation("seq:filter-ignored", fmt.Sprintf("sequential registration #%d received event %d which its filter rejects", r.ID, id), map[string]any{"case": i})
					}
					continue
				}
				if c := h.Deliv[[2]uint64{uint64(r.ID), id}]; c != 1 {
					run.Violation("seq:not-exactly-once", fmt.Sprintf("sequential registration #%d received event %d %d times", r.ID, id, c), map[string]any{"case": i})
					break
				}
			}
			nd := 0
			for k, c := range h.Deliv {
				if int(k[0]) == r.ID {
					nd += c
				}
			}
			if x.canary != 2*nd {
				run.Violation("seq:canary", fmt.Sprintf("unsynchronised canary of registration #%d is %d after %d deliveries (lost update = overlapping bodies)", r.ID, x.canary, nd), map[string]any{"case": i})
			}
			maybe.Range(func(k, _ any) bool {
				if c := h.Deliv[[2]uint64{uint64(r.ID), k.(uint64)}]; c > 1 {
					run.Violation("seq:not-exactly-once", fmt.Sprintf("sequential registration #%d received event %d %d times", r.ID, k.(uint64), c), map[string]any{"case": i})
				}
				return true
			})
		}
		// pending invocations: publishes whose call precedes an enter that had not happened yet
		maxPending = pendingEstimate(w.Log, hl[1].r.ID)
		run.Case(fmt.Sprintf("P%d E%d pend%d p%d", P, E/10, min(maxPending, 8), procs[i%len(procs)]), maxPending >= 2)
		run.Max("max_pending_invocations", int64(maxPending))
		run.Count("deliveries_checked", int64(len(h.Deliv)))
		run.Count("history_events", int64(len(w.Log)))
		if i < 1 && run.Shard == 0 {
			run.Sample(map[string]any{"publishers": P, "events_each": E, "handlers": len(hl), "history_len": len(w.Log), "max_pending": maxPending})
		}
	}
}

// pendingEstimate: the largest number of dispatched-but-not-yet-entered invocations of the
// async+sequential registration, from stamps (dispatch happens before the publish returns).
func pendingEstimate(log []conc.Ev, reg int) int {
	pending, best := 0, 0
	for _, e := range log {
		switch {
		case e.K == "pub":
			pending++
			if pending > best {
				best = pending
			}
		case e.K == "h.enter" && e.Reg == reg:
			pending--
		}
	}
	return best
}
