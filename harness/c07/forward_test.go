//go:build verif

package c07

import (
	"context"
	"fmt"
	"runtime"
	"sync"
	"sync/atomic"
	"time"

	ebu "github.com/jilio/ebu"

	"verif/harness/internal/vk"
)

type fwEv struct{ N int }

// forwardedContextOverlap: a synchronous Sequential context-aware handler hands the context of one
// of its invocations to a worker, which later publishes an event of the same type with it while the
// handler is busy with an event of another publisher. Invocations of the handler still never overlap.
func forwardedContextOverlap(run *vk.Run) {
	for variant := 0; variant < 4; variant++ {
		async := variant&1 != 0
		bus := ebu.New()
		var in, maxIn atomic.Int32
		var saved context.Context
		var mu sync.Mutex
		got := map[int]int{}
		in1, gate := make(chan struct{}), make(chan struct{})
		opts := []ebu.SubscribeOption{ebu.Sequential()}
		if async {
			opts = append(opts, ebu.Async())
		}
		ebu.SubscribeContext(bus, func(ctx context.Context, e fwEv) {
			n := in.Add(1)
			for {
				m := maxIn.Load()
				if n <= m || maxIn.CompareAndSwap(m, n) {
					break
				}
			}
			mu.Lock()
			got[e.N]++
			mu.Unlock()
			switch e.N {
			case 0:
				saved = ctx
			case 1:
				close(in1)
				<-gate
			}
			in.Add(-1)
		}, opts...)
		ebu.PublishContext(bus, context.Background(), fwEv{0})
		bus.Wait()
		var wg sync.WaitGroup
		wg.Add(2)
		go func() { defer wg.Done(); ebu.Publish(bus, fwEv{1}) }()
		<-in1
		go func() { defer wg.Done(); ebu.PublishContext(bus, saved, fwEv{2}) }()
		for y := 0; y < 300; y++ {
			runtime.Gosched()
		}
		time.Sleep(time.Duration(5*(variant/2)) * time.Millisecond)
		close(gate)
		wg.Wait()
		bus.Wait()
		mu.Lock()
		ok := got[0] == 1 && got[1] == 1 && got[2] == 1
		mu.Unlock()
		run.Case(fmt.Sprintf("publish with a context kept from an earlier invocation while the handler is busy|async%v|%d", async, variant/2), true)
		if maxIn.Load() > 1 || !ok {
			run.Violation("seq:overlap-through-a-forwarded-context", fmt.Sprintf("Sequential context-aware handler (async %v): a worker published an event of the handler's type with the context of an earlier invocation while the handler was busy with another publisher's event: up to %d invocations ran at the same time (want 1); deliveries per event %v (want one each)", async, maxIn.Load(), got), nil)
		}
	}
}

// queuedBacklog: five events are published to an Async+Sequential handler whose first invocation
// is parked; then the handler is unsubscribed (the publishes had returned before: their deliveries are
// owed) and / or the bus is a persistent one with a persistence timeout configured. Released, the
// handler receives all five, in publish order.
func queuedBacklog(run *vk.Run) {
	for variant := 1; variant < 8; variant++ {
		unsub, persist, ctxPub := variant&1 != 0, variant&2 != 0, variant&4 != 0
		var opts []ebu.Option
		if persist {
			opts = append(opts, ebu.WithStore(ebu.NewMemoryStore()), ebu.WithPersistenceTimeout(time.Hour))
		}
		bus := ebu.New(opts...)
		var mu sync.Mutex
		var got []int
		in0, gate := make(chan struct{}), make(chan struct{})
		neverStarted := false
		h := func(e fwEv) {
			if e.N == 0 {
				close(in0)
				<-gate
			}
			mu.Lock()
			got = append(got, e.N)
			mu.Unlock()
		}
		ebu.Subscribe(bus, h, ebu.Async(), ebu.Sequential())
		for k := 0; k < 5; k++ {
			if ctxPub {
				ebu.PublishContext(bus, context.Background(), fwEv{k})
			} else {
				ebu.Publish(bus, fwEv{k})
			}
			if k == 0 {
				select {
				case <-in0:
				case <-time.After(10 * time.Second):
					neverStarted = true // (the delivery of the first event never began: reported below)
				}
			}
		}
		var uerr error
		if unsub {
			uerr = ebu.Unsubscribe[fwEv](bus, h)
		}
		close(gate)
		bus.Wait()
		mu.Lock()
		g := fmt.Sprint(got)
		mu.Unlock()
		run.Case(fmt.Sprintf("backlog behind a parked Async+Sequential invocation|unsub%v|persist%v|ctx%v", unsub, persist, ctxPub), true)
		if g != "[0 1 2 3 4]" || neverStarted {
			run.Violation("seq:queued-deliveries-lost", fmt.Sprintf("five events published to an Async+Sequential handler whose first invocation was parked (handler unsubscribed afterwards: %v, returned %v; persistent bus with a one-hour persistence timeout: %v; PublishContext: %v): after the release it received %s, want [0 1 2 3 4]", unsub, uerr, persist, ctxPub, g), nil)
		}
	}
}
