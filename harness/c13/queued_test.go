//go:build verif

package c13

import (
	"context"
	"encoding/json"
	"errors"
	"fmt"
	"reflect"
	"runtime"
	"sort"
	"sync"
	"time"

	ebu "github.com/jilio/ebu"

	"verif/harness/internal/vk"
)

// stallStore lets the first append stall until released (it cannot be aborted), then rejects it;
// every other append is refused if its context has ended and stored otherwise.
type stallStore struct {
	inner   *ebu.MemoryStore
	mu      sync.Mutex
	n       int
	stalled chan struct{}
	release chan struct{}
}

func (s *stallStore) Append(ctx context.Context, e *ebu.Event) (ebu.Offset, error) {
	s.mu.Lock()
	s.n++
	first := s.n == 1
	s.mu.Unlock()
	if first {
		close(s.stalled)
		<-s.release
		return "", errors.New("verif: the stalled append is rejected in the end")
	}
	if err := ctx.Err(); err != nil {
		return "", err
	}
	return s.inner.Append(ctx, e)
}
func (s *stallStore) Read(ctx context.Context, from ebu.Offset, limit int) ([]*ebu.StoredEvent, ebu.Offset, error) {
	return s.inner.Read(ctx, from, limit)
}

// queuedBehindAStall: one publish is stuck in an append that is rejected in the end; behind it wait
// a publish whose context is cancelled while it waits and two or three healthy ones. Every publish
// returns and reaches its handler; the rejected one is reported once, the cancelled one is reported
// once or stored, the healthy ones are stored and not reported.
func queuedBehindAStall(run *vk.Run) {
	for healthy := 2; healthy <= 3; healthy++ {
		st := &stallStore{inner: ebu.NewMemoryStore(), stalled: make(chan struct{}), release: make(chan struct{})}
		var mu sync.Mutex
		reported := map[int]int{}
		handled := map[int]int{}
		bus := ebu.New(ebu.WithStore(st), ebu.WithPersistenceErrorHandler(func(ev any, _ reflect.Type, _ error) {
			mu.Lock()
			reported[idOf(ev)]++
			mu.Unlock()
		}))
		ebu.Subscribe(bus, func(e flex) { mu.Lock(); handled[e.ID]++; mu.Unlock() })
		var wg sync.WaitGroup
		pub := func(ctx context.Context, id int) {
			wg.Add(1)
			go func() { defer wg.Done(); ebu.PublishContext(bus, ctx, flex{ID: id}) }()
		}
		pub(context.Background(), 1)
		<-st.stalled
		ctxB, cancelB := context.WithCancel(context.Background())
		pub(ctxB, 2)
		settle := func() {
			for y := 0; y < 200; y++ {
				runtime.Gosched()
			}
			time.Sleep(3 * time.Millisecond)
		}
		settle()
		for k := 0; k < healthy; k++ {
			pub(context.Background(), 3+k)
			settle()
		}
		cancelB()
		settle()
		close(st.release)
		done := make(chan struct{})
		go func() { wg.Wait(); close(done) }()
		hung := false
		select {
		case <-done:
		case <-time.After(30 * time.Second):
			hung = true
		}
		evs, _, _ := st.inner.Read(context.Background(), ebu.OffsetOldest, 0)
		var stored []int
		for _, e := range evs {
			stored = append(stored, idOfJSON(e.Data))
		}
		sort.Ints(stored)
		mu.Lock()
		bad := ""
		switch {
		case hung:
			bad = "not every publish had returned 30 s after the stall ended"
		case reported[1] != 1:
			bad = fmt.Sprintf("the rejected publish #1 was reported %d times", reported[1])
		case reported[2] > 1 || (reported[2] == 1 && contains(stored, 2)) || (reported[2] == 0 && !contains(stored, 2) && handled[2] != 0):
			// (not reported, not stored and not handled: its goroutine only got going after the cancellation)
			bad = fmt.Sprintf("publish #2 (context cancelled while it waited) was reported %d times and stored: %v", reported[2], contains(stored, 2))
		}
		for k := 0; k < healthy && bad == ""; k++ {
			if id := 3 + k; reported[id] != 0 || !contains(stored, id) {
				bad = fmt.Sprintf("healthy publish #%d was reported %d times, stored: %v", id, reported[id], contains(stored, id))
			}
		}
		for id := 1; id <= 2+healthy && bad == "" && !hung; id++ {
			if handled[id] != 1 && !(id == 2 && handled[id] == 0) { // (#2's context was cancelled: it may not be dispatched)
				bad = fmt.Sprintf("publish #%d reached its handler %d times", id, handled[id])
			}
		}
		rep, hd := fmt.Sprint(reported), fmt.Sprint(handled)
		mu.Unlock()
		run.Case(fmt.Sprintf("publishes queued behind a stalled append|healthy%d", healthy), true)
		if bad != "" {
			run.Violation("persist:queued-behind-a-stalled-append", fmt.Sprintf("publish #1 stalls in an append that is rejected in the end; behind it queue #2 (its context is cancelled while it waits) and %d healthy publishes: %s (reports %s, handled %s, stored %v)", healthy, bad, rep, hd, stored), nil)
			if hung {
				return
			}
		}
	}
}

func contains(l []int, x int) bool {
	for _, v := range l {
		if v == x {
			return true
		}
	}
	return false
}

func idOfJSON(d []byte) int {
	var v struct{ ID int }
	json.Unmarshal(d, &v)
	return v.ID
}
