//go:build verif

package c13

import (
	"context"
	"encoding/json"
	"fmt"
	"os"
	"reflect"
	"strings"
	"testing"
	"time"

	ebu "github.com/jilio/ebu"

	"verif/harness/internal/stores"
	"verif/harness/internal/vk"
	"verif/harness/internal/watchdog"
)

type sev struct{ ID int }

// TestC13Stores: the bundled stores themselves as the source of failures. A publish whose context
// has already ended is rejected by the stores that honour their context (a persistence failure like
// any other: reported once, nothing written); the publishes after it — with request-scoped contexts
// that end right after the publish returns, with and without a persistence timeout, and plain ones —
// are persisted normally, in order, and are not reported.
func TestC13Stores(t *testing.T) {
	run := vk.New("C13", "stores")
	defer run.Finish()
	scratch := os.Getenv("VERIF_SCRATCH")
	if scratch == "" {
		scratch = t.TempDir()
	}
	kinds := []string{"memory", "sqlite-file", "sqlite-mem", "durable", "durable-chunk400"}
	// publish kinds: D = context already ended, R = request-scoped (ends after the publish returned),
	// P = plain Publish
	// (durable-streams only) X = the append request is answered 503 by a gateway and never reaches the
	// server, Y = the server commits the append but its reply is lost (503)
	alphabet := []string{"D", "R", "P", "X", "Y"}
	maxLen := run.Scale(4, 6)
	idx := 0
	var cur string
	dog := watchdog.Start(20*time.Second, func(v watchdog.Verdict) {
		if !v.Deadlock {
			run.Count("watchdog_slow_windows", 1)
			return
		}
		run.Violation("persist:stores:publish-hung", "a publish never returned (goroutines parked below ebu frames): "+cur, map[string]any{"case": cur, "dump": v.Dump[:min(len(v.Dump), 20000)]})
		run.Finish()
		watchdog.Exit()
	})
	defer dog.Stop()
	var rec func(seq []string)
	runSeq := func(seq []string) {
		httpFaults := strings.ContainsAny(strings.Join(seq, ""), "XY")
		if httpFaults && len(seq) > run.Scale(3, 4) {
			return
		}
		for _, kind := range kinds {
			if httpFaults && !strings.HasPrefix(kind, "durable") {
				continue
			}
			for _, timeout := range []bool{false, true} {
				idx++
				if !run.Mine(idx) {
					continue
				}
				cur = fmt.Sprintf("store %s, publishes %s, persistence timeout %v", kind, strings.Join(seq, ""), timeout)
				dog.Case(cur)
				dog.Tick()
				st, err := stores.Open(kind, scratch)
				if err != nil {
					t.Fatal(err)
				}
				var reported []int
				opts := []ebu.Option{ebu.WithStore(st.Store), ebu.WithPersistenceErrorHandler(func(ev any, _ reflect.Type, _ error) {
					if e, ok := ev.(sev); ok {
						reported = append(reported, e.ID)
					}
				})}
				if timeout {
					opts = append(opts, ebu.WithPersistenceTimeout(time.Hour))
				}
				bus := ebu.New(opts...)
				handled := 0
				ebu.Subscribe(bus, func(sev) { handled++ })
				for i, k := range seq {
					switch k {
					case "D":
						ctx, cancel := context.WithCancel(context.Background())
						cancel()
						ebu.PublishContext(bus, ctx, sev{ID: i + 1})
					case "R":
						ctx, cancel := context.WithCancel(context.Background())
						ebu.PublishContext(bus, ctx, sev{ID: i + 1})
						cancel()
					case "X":
						st.RejectNext(1)
						ebu.Publish(bus, sev{ID: i + 1})
						st.RejectNext(0)
					case "Y":
						st.LostAckNext(1)
						ebu.Publish(bus, sev{ID: i + 1})
						st.LostAckNext(0)
					default:
						ebu.Publish(bus, sev{ID: i + 1})
					}
				}
				var logIDs []int
				from := ebu.OffsetOldest
				for step := 0; step < 100; step++ {
					evs, next, err := st.Store.Read(context.Background(), from, 0)
					if err != nil || len(evs) == 0 {
						break
					}
					for _, e := range evs {
						var d sev
						json.Unmarshal(e.Data, &d)
						logIDs = append(logIDs, d.ID)
					}
					from = next
				}
				witness := map[string]any{"store": kind, "sequence": strings.Join(seq, ""), "persistence_timeout": timeout, "log": logIDs, "reported": reported}
				desc := fmt.Sprintf("store %s, publishes %s (D: context already ended, R: request-scoped context, P: plain, X: append answered 503 by a gateway, Y: reply lost after the commit), persistence timeout set: %v: log %v, reported failures %v", kind, strings.Join(seq, ""), timeout, logIDs, reported)
				inLog := map[int]int{}
				for _, id := range logIDs {
					inLog[id]++
				}
				rep := map[int]int{}
				for _, id := range reported {
					rep[id]++
				}
				for i, k := range seq {
					id := i + 1
					switch {
					case inLog[id] > 1:
						run.Violation("persist:stores:written-more-than-once", desc, witness)
					case k == "X" && (inLog[id] != 0 || rep[id] != 1):
						run.Violation("persist:stores:rejected-append-retried-or-unreported", desc, witness)
					case k == "Y" && (inLog[id] != 1 || rep[id] != 1):
						run.Violation("persist:stores:lost-reply-append-duplicated-or-unreported", desc, witness)
					case k == "X" || k == "Y":
					case k != "D" && inLog[id] != 1:
						run.Violation("persist:stores:live-publish-not-persisted", desc, witness)
					case k != "D" && rep[id] != 0:
						run.Violation("persist:stores:success-reported-as-failure", desc, witness)
					case k == "D" && inLog[id]+rep[id] != 1:
						run.Violation("persist:stores:ended-context-publish-neither-or-both", desc, witness)
					}
				}
				for j := 1; j < len(logIDs); j++ {
					if logIDs[j] <= logIDs[j-1] {
						run.Violation("persist:stores:log-order", desc, witness)
						break
					}
				}
				nD := strings.Count(strings.Join(seq, ""), "D")
				if handled != len(seq)-nD {
					// (X and Y publishes are delivered like any other: a persistence failure is contained)
					// a publish whose context has ended reaches no handler (C08); every other one reaches it
					run.Violation("persist:stores:handler-missed-event", fmt.Sprintf("%s; the handler ran %d times for %d live publishes", desc, handled, len(seq)-nD), witness)
				}
				run.Case(fmt.Sprintf("%s|%s|t%v", kind, strings.Join(seq, ""), timeout), nD > 0 && nD < len(seq))
				run.Count("publishes_checked", int64(len(seq)))
				st.Close()
				st.Remove()
			}
		}
	}
	rec = func(seq []string) {
		if len(seq) >= 2 {
			runSeq(seq)
		}
		if len(seq) == maxLen {
			return
		}
		for _, a := range alphabet {
			rec(append(append([]string{}, seq...), a))
		}
	}
	rec(nil)
	run.Exhaustive(true)
}
