//go:build verif

// C13 — Persistence failures are contained, reported once and never corrupt the log.
package c13

import (
	"context"
	"encoding/json"
	"errors"
	"fmt"
	ebuotel "github.com/jilio/ebu/otel"
	"math"
	"reflect"
	"runtime"
	"sync/atomic"
	"testing"
	"testing/synctest"
	"time"

	ebu "github.com/jilio/ebu"

	"verif/harness/internal/stores"
	"verif/harness/internal/vk"
	"verif/harness/internal/watchdog"
)

// one Go type whose encodability depends on the value (interface-typed field), plus statically
// unencodable types
type flex struct {
	ID      int
	Payload any
}
type withChan struct {
	ID int
	C  chan int
}
type withFunc struct {
	ID int
	F  func()
}
type badMarshal struct{ ID int }

func (badMarshal) MarshalJSON() ([]byte, error) { return nil, errors.New("verif: MarshalJSON fails") }

type cyc struct {
	ID   int
	Next *cyc
}

// invalidJSON has a MarshalJSON that emits bytes that are not JSON for some values
type invalidJSON struct {
	ID int
	F  float64
}

func (v invalidJSON) MarshalJSON() ([]byte, error) {
	return []byte(fmt.Sprintf(`{"ID":%d,"F":%g}`, v.ID, v.F)), nil // NaN / Inf print as bare words
}

// ptrMarshal has MarshalJSON on the pointer receiver; a nil *ptrMarshal encodes as null
type ptrMarshal struct{ ID int }

func (p *ptrMarshal) MarshalJSON() ([]byte, error) {
	return []byte(fmt.Sprintf(`{"ID":%d}`, p.ID)), nil
}

type alert struct{ ID int }

// kinds of publish: 0 ok (append succeeds), 1 ok event but the store rejects the append,
// 2..8 unencodable values, 9 a nil pointer event that encodes as null (ok), 10 the store writes the
// record but reports an error (lost acknowledgement)
const nKinds = 11

func mkEvent(kind, id int) any {
	switch kind {
	case 0, 1:
		return flex{ID: id, Payload: map[string]any{"n": id}}
	case 2:
		return flex{ID: id, Payload: make(chan int)}
	case 3:
		return flex{ID: id, Payload: math.NaN()}
	case 4:
		return withChan{ID: id, C: make(chan int)}
	case 5:
		return withFunc{ID: id, F: func() {}}
	case 6:
		return badMarshal{ID: id}
	case 7:
		c := &cyc{ID: id}
		c.Next = c
		return c
	case 8:
		return invalidJSON{ID: id, F: math.Inf(1)}
	case 9:
		return (*ptrMarshal)(nil)
	case 11:
		// a map that contains itself: no JSON encoding (cycle), and naive formatting of it never ends
		m := map[string]any{"n": id}
		m["self"] = m
		return flex{ID: id, Payload: m}
	default:
		return flex{ID: id, Payload: "lost-ack"}
	}
}

func idOf(ev any) int {
	switch e := ev.(type) {
	case flex:
		return e.ID
	case withChan:
		return e.ID
	case withFunc:
		return e.ID
	case badMarshal:
		return e.ID
	case *cyc:
		return e.ID
	case invalidJSON:
		return e.ID
	case *ptrMarshal:
		return -9
	case alert:
		return e.ID
	}
	return -1
}

type world struct {
	bus      *ebu.EventBus
	mem      *ebu.MemoryStore
	faults   *stores.Faults
	handled  [5]atomic.Int32 // per handler slot
	errCalls []errCall
}

type errCall struct {
	id  int
	typ reflect.Type
	err error
}

func (w *world) onErr(ev any, t reflect.Type, err error) {
	w.errCalls = append(w.errCalls, errCall{idOf(ev), t, err})
}

func publish(bus *ebu.EventBus, ev any, viaAny bool) {
	if viaAny {
		ebu.Publish[any](bus, ev) // an outbox of interface-typed events being drained
		return
	}
	switch e := ev.(type) {
	case flex:
		ebu.Publish(bus, e)
	case withChan:
		ebu.Publish(bus, e)
	case withFunc:
		ebu.Publish(bus, e)
	case badMarshal:
		ebu.Publish(bus, e)
	case *cyc:
		ebu.Publish(bus, e)
	case invalidJSON:
		ebu.Publish(bus, e)
	case *ptrMarshal:
		ebu.Publish(bus, e)
	}
}

func subscribeAll(w *world, nHandlers int) {
	if nHandlers >= 1 {
		ebu.Subscribe(w.bus, func(flex) { w.handled[0].Add(1) })
		ebu.Subscribe(w.bus, func(withChan) { w.handled[0].Add(1) })
		ebu.Subscribe(w.bus, func(withFunc) { w.handled[0].Add(1) })
		ebu.Subscribe(w.bus, func(badMarshal) { w.handled[0].Add(1) })
		ebu.Subscribe(w.bus, func(*cyc) { w.handled[0].Add(1) })
		ebu.Subscribe(w.bus, func(invalidJSON) { w.handled[0].Add(1) })
		ebu.Subscribe(w.bus, func(*ptrMarshal) { w.handled[0].Add(1) })
	}
	if nHandlers >= 2 {
		ebu.Subscribe(w.bus, func(flex) { w.handled[1].Add(1) }, ebu.Async())
		ebu.Subscribe(w.bus, func(withChan) { w.handled[1].Add(1) }, ebu.Async())
		ebu.Subscribe(w.bus, func(withFunc) { w.handled[1].Add(1) }, ebu.Async())
		ebu.Subscribe(w.bus, func(badMarshal) { w.handled[1].Add(1) }, ebu.Async())
		ebu.Subscribe(w.bus, func(*cyc) { w.handled[1].Add(1) }, ebu.Async())
		ebu.Subscribe(w.bus, func(invalidJSON) { w.handled[1].Add(1) }, ebu.Async())
		ebu.Subscribe(w.bus, func(*ptrMarshal) { w.handled[1].Add(1) }, ebu.Async())
	}
	if nHandlers >= 3 {
		ebu.SubscribeContext(w.bus, func(context.Context, flex) { w.handled[2].Add(1) }, ebu.Sequential())
		ebu.SubscribeContext(w.bus, func(context.Context, withChan) { w.handled[2].Add(1) })
		ebu.SubscribeContext(w.bus, func(context.Context, withFunc) { w.handled[2].Add(1) })
		ebu.SubscribeContext(w.bus, func(context.Context, badMarshal) { w.handled[2].Add(1) })
		ebu.SubscribeContext(w.bus, func(context.Context, *cyc) { w.handled[2].Add(1) })
		ebu.SubscribeContext(w.bus, func(context.Context, invalidJSON) { w.handled[2].Add(1) })
		ebu.SubscribeContext(w.bus, func(context.Context, *ptrMarshal) { w.handled[2].Add(1) })
	}
}

// keeper is the front of a write-behind store: it remembers every *Event the store accepted
// (pointer and a copy of what it said at that moment).
type keeper struct {
	inner ebu.EventStore
	kept  []keptEvent
}
type keptEvent struct {
	e         *ebu.Event
	typ, data string
}

func (k *keeper) Append(ctx context.Context, e *ebu.Event) (ebu.Offset, error) {
	off, err := k.inner.Append(ctx, e)
	if err == nil {
		k.kept = append(k.kept, keptEvent{e, e.Type, string(e.Data)})
	}
	return off, err
}
func (k *keeper) Read(ctx context.Context, from ebu.Offset, limit int) ([]*ebu.StoredEvent, ebu.Offset, error) {
	return k.inner.Read(ctx, from, limit)
}

func TestC13Patterns(t *testing.T) {
	run := vk.New("C13", "patterns")
	defer run.Finish()
	if run.Shard == 0 {
		busyErrorHandler(run)
		queuedBehindAStall(run)
	}
	maxLen := run.Scale(6, 11)
	idx := 0
	// every fail/succeed bit pattern of length 1..maxLen; on top of each, one unencodable publish of
	// every kind at every position (pos -1: none)
	for L := 1; L <= maxLen; L++ {
		for bits := 0; bits < 1<<L; bits++ {
			for pos := -1; pos < L; pos++ {
				ukinds := []int{0}
				if pos >= 0 {
					ukinds = []int{2, 3, 4, 5, 6, 7, 8, 9, 10, 11}
					if !run.Thorough() && L > 4 {
						ukinds = []int{2 + (bits+pos)%10}
					}
				}
				for _, uk := range ukinds {
					idx++
					if !run.Mine(idx) {
						continue
					}
					pattern := make([]int, L)
					for i := range pattern {
						if bits>>i&1 == 1 {
							pattern[i] = 1
						}
						if i == pos {
							pattern[i] = uk
						}
					}
					variant := idx % 30 // (>= 15: plus a resumable SubscribeWithReplay subscriber of every type) x error handler {option, option replaced by setter, unset, option+re-entrant alert, option cleared by setter(nil)} x handlers {0, 1, 3}
					runPattern(run, pattern, variant)
				}
			}
		}
	}
	run.Count("patterns_enumerated", int64(idx))
	run.Exhaustive(true)
}

func runPattern(run *vk.Run, pattern []int, variant int) {
	replaySub := variant >= 15
	variant %= 15
	ehMode := variant % 5 // 3: an error handler that publishes an alert event on the same bus; 4: cleared with SetPersistenceErrorHandler(nil)
	nH := variant / 5
	if nH == 2 {
		nH = 3
	}
	w := &world{mem: ebu.NewMemoryStore(), faults: stores.NewFaults()}
	fa := map[int]stores.Action{}
	ai := 0
	for _, k := range pattern {
		switch k {
		case 1:
			fa[ai] = stores.Fail
		case 10:
			fa[ai] = stores.LostAck
		}
		if k <= 1 || k == 9 || k == 10 {
			ai++
		}
		if ehMode == 3 && k != 0 && k != 9 {
			ai++ // the alert published by the error handler is appended too
		}
	}
	w.faults.ByKind["append"] = fa
	keep := &keeper{inner: stores.Wrap(w.mem, w.faults)}
	opts := []ebu.Option{ebu.WithStore(keep), ebu.WithSubscriptionStore(ebu.NewMemoryStore())}
	if ehMode == 0 {
		opts = append(opts, ebu.WithPersistenceErrorHandler(w.onErr))
	}
	alerts := 0
	if ehMode == 3 {
		opts = append(opts, ebu.WithPersistenceErrorHandler(func(ev any, t reflect.Type, err error) {
			w.onErr(ev, t, err)
			// a dead-letter / alert event published from inside the error handler
			ebu.Publish(w.bus, alert{ID: 1000 + len(w.errCalls)})
		}))
	}
	staleCalls := 0
	if ehMode == 1 {
		// a handler given by option that is replaced by the setter before use: it must never be called
		opts = append(opts, ebu.WithPersistenceErrorHandler(func(any, reflect.Type, error) { staleCalls++ }))
	}
	if (len(pattern)+variant)%2 == 1 {
		// the store is configured last (after the error handler): option order does not matter
		opts = append(opts[1:len(opts):len(opts)], opts[0])
	}
	w.bus = ebu.New(opts...)
	if ehMode == 1 {
		w.bus.SetPersistenceErrorHandler(w.onErr)
	}
	if ehMode == 4 {
		w.bus.SetPersistenceErrorHandler(func(any, reflect.Type, error) { staleCalls++ })
		w.bus.SetPersistenceErrorHandler(nil) // detached again: failures are then simply not reported
	}
	subscribeAll(w, nH)
	if replaySub {
		// resumable subscribers: their live handlers are handlers of the publish like any other
		rctx := context.Background()
		ebu.SubscribeWithReplay(rctx, w.bus, "c13-flex", func(flex) { w.handled[3].Add(1) })
		ebu.SubscribeWithReplay(rctx, w.bus, "c13-chan", func(withChan) { w.handled[3].Add(1) })
		ebu.SubscribeWithReplay(rctx, w.bus, "c13-func", func(withFunc) { w.handled[3].Add(1) })
		ebu.SubscribeWithReplay(rctx, w.bus, "c13-bad", func(badMarshal) { w.handled[3].Add(1) })
		ebu.SubscribeWithReplay(rctx, w.bus, "c13-cyc", func(*cyc) { w.handled[3].Add(1) })
		ebu.SubscribeWithReplay(rctx, w.bus, "c13-inv", func(invalidJSON) { w.handled[3].Add(1) })
		ebu.SubscribeWithReplay(rctx, w.bus, "c13-ptr", func(*ptrMarshal) { w.handled[3].Add(1) })
	}
	ebu.Subscribe(w.bus, func(alert) { alerts++ })
	sig := fmt.Sprintf("%v|eh%d|h%d|r%v", pattern, ehMode, nH, replaySub)
	witness := map[string]any{"pattern": pattern, "error_handler": []string{"option", "option replaced by setter", "unset", "option, publishes an alert", "set, then cleared with SetPersistenceErrorHandler(nil)"}[ehMode], "handlers": nH}
	viol := func(rule, desc string) {
		witness["store_ops"] = w.faults.Snapshot()
		run.Violation("persist:"+rule, fmt.Sprintf("pattern %v (0 ok, 1 append rejected, >=2 unencodable), error handler %s, %d handlers: %s", pattern, witness["error_handler"], nH, desc), witness)
	}
	var wantLog []int
	prevOps := 0
	for i, k := range pattern {
		id := i + 1
		ev := mkEvent(k, id)
		errBefore := len(w.errCalls)
		var h0 [4]int32
		for j := range h0 {
			h0[j] = w.handled[j].Load()
		}
		done := make(chan struct{})
		go func() {
			defer close(done)
			defer func() {
				if r := recover(); r != nil {
					viol("publish-panicked", fmt.Sprintf("publish #%d panicked: %v", id, r))
				}
			}()
			publish(w.bus, ev, (id+variant)%3 == 0)
			w.bus.Wait()
		}()
		hung := false
		for waited := 0; ; waited++ {
			select {
			case <-done:
			case <-time.After(20 * time.Second):
				buf := make([]byte, 1<<20)
				d := string(buf[:runtime.Stack(buf, true)])
				if watchdog.BlockedUnderEbu(d) {
					viol("publish-hung", fmt.Sprintf("publish #%d (kind %d) never returned: goroutines are parked below ebu frames", id, k))
					// the blocked goroutines stay behind: end this child now, with its summary
					run.Finish()
					watchdog.Exit()
				} else if waited < 30 {
					continue
				}
			}
			break
		}
		if hung {
			return
		}
		for j := 0; j < nH; j++ {
			if d := w.handled[j].Load() - h0[j]; d != 1 {
				viol("handler-missed-event", fmt.Sprintf("publish #%d (kind %d): handler %d received the event %d times", id, k, j, d))
			}
		}
		if replaySub {
			if d := w.handled[3].Load() - h0[3]; d != 1 {
				viol("handler-missed-event", fmt.Sprintf("publish #%d (kind %d): the live handler of the SubscribeWithReplay subscription received the event %d times", id, k, d))
			}
		}
		newErr := w.errCalls[errBefore:]
		wantErr := 0
		if k != 0 && k != 9 && ehMode != 2 && ehMode != 4 {
			wantErr = 1
		}
		if len(newErr) != wantErr {
			viol("error-handler-count", fmt.Sprintf("publish #%d (kind %d): persistence error handler called %d times, want %d", id, k, len(newErr), wantErr))
		} else if wantErr == 1 {
			ec := newErr[0]
			if ec.id != id || ec.typ != reflect.TypeOf(ev) || ec.err == nil {
				viol("error-handler-args", fmt.Sprintf("publish #%d: error handler got event id %d, type %v, err %v; want id %d type %v", id, ec.id, ec.typ, ec.err, id, reflect.TypeOf(ev)))
			}
		}
		// append attempts of this publish
		ops := w.faults.Snapshot()
		attempts := 0
		for _, op := range ops[prevOps:] {
			if op.Kind == "append" {
				attempts++
			}
		}
		prevOps = len(ops)
		wantAttempts := 0
		if k <= 1 || k == 9 || k == 10 {
			wantAttempts = 1
		}
		if ehMode == 3 && wantErr == 1 {
			wantAttempts++ // the alert's own append
		}
		if attempts != wantAttempts {
			viol("append-attempts", fmt.Sprintf("publish #%d (kind %d): %d append attempts, want %d (no retry, nothing partly written)", id, k, attempts, wantAttempts))
		}
		switch k {
		case 0, 10: // 10: the store did write the record although it reported an error
			wantLog = append(wantLog, id)
		case 9:
			wantLog = append(wantLog, -9)
		}
		if ehMode == 3 && wantErr == 1 {
			wantLog = append(wantLog, 1000+len(w.errCalls))
		}
		// the underlying store after this publish
		evs, _, _ := w.mem.Read(context.Background(), ebu.OffsetOldest, 0)
		if len(evs) != len(wantLog) {
			viol("log-length", fmt.Sprintf("after publish #%d the log holds %d records, want %d (%v)", id, len(evs), len(wantLog), wantLog))
			return
		}
	}
	evs, _, _ := w.mem.Read(context.Background(), ebu.OffsetOldest, 0)
	var prev ebu.Offset
	for i, e := range evs {
		var d struct{ ID int }
		if wantLog[i] == -9 {
			if string(e.Data) != "null" {
				viol("log-content", fmt.Sprintf("record %d should be the null encoding of a nil pointer event, is %s", i, e.Data))
				break
			}
		} else if json.Unmarshal(e.Data, &d); d.ID != wantLog[i] {
			viol("log-content", fmt.Sprintf("record %d is publish #%d, want #%d", i, d.ID, wantLog[i]))
			break
		}
		if i > 0 && !(e.Offset > prev) {
			viol("offsets-not-increasing", fmt.Sprintf("record %d has offset %q after %q", i, e.Offset, prev))
		}
		prev = e.Offset
	}
	// a write-behind store keeps the *Event it accepted until it flushes: what it accepted must
	// still be what it holds, and what it rejected must not have taken its place
	for i, k := range keep.kept {
		if k.e.Type != k.typ || string(k.e.Data) != k.data {
			viol("accepted-event-changed-after-append", fmt.Sprintf("the %d-th accepted *Event was %s %s when Append returned and reads %s %s after the later publishes", i+1, k.typ, k.data, k.e.Type, k.e.Data))
			break
		}
	}
	succAfterFail, consec := false, false
	for i := 1; i < len(pattern); i++ {
		if pattern[i] == 0 && pattern[i-1] != 0 {
			succAfterFail = true
		}
		if pattern[i] != 0 && pattern[i-1] != 0 {
			consec = true
		}
	}
	if staleCalls != 0 {
		viol("replaced-error-handler-called", fmt.Sprintf("the error handler given by option was called %d times after SetPersistenceErrorHandler replaced it", staleCalls))
	}
	if ehMode == 3 {
		nf := 0
		for _, k := range pattern {
			if k != 0 && k != 9 {
				nf++
			}
		}
		if alerts != nf {
			viol("reentrant-error-handler", fmt.Sprintf("the error handler published %d alerts, %d reached their handler", nf, alerts))
		}
	}
	run.Case(sig, succAfterFail || consec)
	run.Count("publishes_checked", int64(len(pattern)))
	if run.WantSample() && succAfterFail && consec {
		run.Sample(witness)
	}
}

// ---------------------------------------------------------------------------------------------
// timeouts under virtual time

type slowStore struct {
	inner     *ebu.MemoryStore
	delay     time.Duration
	honourCtx bool
	attempts  atomic.Int32
}

func (s *slowStore) Append(ctx context.Context, e *ebu.Event) (ebu.Offset, error) {
	s.attempts.Add(1)
	if s.honourCtx {
		select {
		case <-ctx.Done():
			return "", ctx.Err()
		case <-time.After(s.delay):
		}
	} else {
		time.Sleep(s.delay) // a store that cannot abort a write in progress
	}
	return s.inner.Append(ctx, e)
}

func (s *slowStore) Read(ctx context.Context, from ebu.Offset, limit int) ([]*ebu.StoredEvent, ebu.Offset, error) {
	return s.inner.Read(ctx, from, limit)
}

func TestC13Timeouts(t *testing.T) {
	run := vk.New("C13", "timeouts")
	defer run.Finish()
	delays := []time.Duration{0, 20 * time.Millisecond, 200 * time.Millisecond, 10 * time.Minute} // (virtual time)
	timeouts := []time.Duration{0, 5 * time.Millisecond, 50 * time.Millisecond, time.Second}
	deadlines := []time.Duration{0, 10 * time.Millisecond, 100 * time.Millisecond}
	idx := 0
	for _, d := range delays {
		for _, to := range timeouts {
			for _, dl := range deadlines {
				for _, honour := range []bool{true, false} {
					for _, seq := range [][]int{{1}, {1, 0}, {0, 1, 0}, {1, 1, 0}} { // 1 = slow append, 0 = instant
						for _, withOTel := range []bool{false, true} {
							idx++
							if !run.Mine(idx) {
								continue
							}
							timeoutScenario(t, run, d, to, dl, honour, seq, withOTel)
						}
					}
				}
			}
		}
	}
	run.Exhaustive(true)
}

func timeoutScenario(t *testing.T, run *vk.Run, delay, timeout, deadline time.Duration, honour bool, seq []int, withOTel bool) {
	synctest.Test(t, func(t *testing.T) {
		st := &slowStore{inner: ebu.NewMemoryStore(), honourCtx: honour}
		var errIDs []int
		opts := []ebu.Option{ebu.WithStore(st), ebu.WithPersistenceErrorHandler(func(ev any, _ reflect.Type, _ error) { errIDs = append(errIDs, idOf(ev)) })}
		if timeout > 0 {
			opts = append(opts, ebu.WithPersistenceTimeout(timeout))
		}
		if withOTel {
			// the bundled OpenTelemetry observability (default no-op providers): the contexts it returns
			// from its start callbacks are the ones the bus carries on with
			o, err := ebuotel.New()
			if err != nil {
				t.Fatal(err)
			}
			opts = append(opts, ebu.WithObservability(o))
		}
		bus := ebu.New(opts...)
		handled := 0
		ebu.Subscribe(bus, func(flex) { handled++ })
		sig := fmt.Sprintf("delay=%v timeout=%v deadline=%v honour=%v seq=%v otel=%v", delay, timeout, deadline, honour, seq, withOTel)
		witness := map[string]any{"scenario": sig}
		for i, slow := range seq {
			id := i + 1
			st.delay = 0
			if slow == 1 {
				st.delay = delay
			}
			ctx := context.Background()
			cancel := func() {}
			if deadline > 0 {
				ctx, cancel = context.WithTimeout(ctx, deadline)
			}
			before := handled
			t0 := time.Now()
			func() {
				defer func() {
					if r := recover(); r != nil {
						run.Violation("persist:publish-panicked", sig+": "+fmt.Sprint(r), witness)
					}
				}()
				ebu.PublishContext(bus, ctx, flex{ID: id, Payload: "x"})
			}()
			elapsed := time.Since(t0)
			cancel()
			if honour {
				// a store that honours its context gives up at the earliest of: its own delay, the
				// persistence timeout, the publish context's deadline (virtual time: exact)
				want := st.delay
				if timeout > 0 && timeout < want {
					want = timeout
				}
				if deadline > 0 && deadline < want {
					want = deadline
				}
				if elapsed != want {
					run.Violation("persist:timeout-not-effective", fmt.Sprintf("%s: publish #%d took %v of virtual time on a store that honours its context; its append should have ended after %v", sig, id, elapsed, want), witness)
				}
			}
			// the handler must have run unless the publish context itself expired before dispatch
			if handled-before != 1 && ctx.Err() == nil {
				run.Violation("persist:handler-missed-event", fmt.Sprintf("%s: publish #%d did not reach its handler", sig, id), witness)
			}
		}
		// let abandoned work (if any) finish, then compare reports with the log
		time.Sleep(4*delay + 5*time.Second)
		synctest.Wait()
		evs, _, _ := st.inner.Read(context.Background(), ebu.OffsetOldest, 0)
		inLog := map[int]int{}
		var order []int
		for _, e := range evs {
			var d struct{ ID int }
			json.Unmarshal(e.Data, &d)
			inLog[d.ID]++
			order = append(order, d.ID)
		}
		reported := map[int]int{}
		for _, id := range errIDs {
			reported[id]++
		}
		witness["log"] = order
		witness["reported_failed"] = errIDs
		for i := range seq {
			id := i + 1
			switch {
			case reported[id] > 1:
				run.Violation("persist:error-handler-count", fmt.Sprintf("%s: failure of publish #%d reported %d times", sig, id, reported[id]), witness)
			case reported[id] == 1 && inLog[id] != 0:
				run.Violation("persist:failed-but-written", fmt.Sprintf("%s: publish #%d was reported as failed, yet its record is in the log", sig, id), witness)
			case reported[id] == 0 && inLog[id] != 1:
				run.Violation("persist:unreported-loss-or-duplicate", fmt.Sprintf("%s: publish #%d was not reported as failed but appears %d times in the log", sig, id, inLog[id]), witness)
			}
		}
		for i := 1; i < len(order); i++ {
			if order[i] < order[i-1] {
				run.Violation("persist:log-order", fmt.Sprintf("%s: log order %v is not publish order", sig, order), witness)
			}
		}
		if int(st.attempts.Load()) != len(seq) {
			run.Violation("persist:append-attempts", fmt.Sprintf("%s: %d append attempts for %d publishes", sig, st.attempts.Load(), len(seq)), witness)
		}
		expired := delay > 0 && ((timeout > 0 && timeout < delay) || (deadline > 0 && deadline < delay))
		run.Case(sig, expired && len(seq) > 1)
		if expired {
			run.Count("scenarios_with_expiry", 1)
		}
		if run.WantSample() && expired && len(seq) == 3 {
			run.Sample(witness)
		}
	})
}
