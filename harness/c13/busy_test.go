//go:build verif

package c13

import (
	"context"
	"fmt"
	"reflect"
	"sort"
	"sync"

	ebu "github.com/jilio/ebu"

	"verif/harness/internal/stores"
	"verif/harness/internal/vk"
)

// busyErrorHandler: the persistence error handler is still running for one failed publish (it
// writes to a dead-letter queue, pages someone ...) when publishes on other goroutines fail too:
// every one of those failures is reported exactly once as well, and the successful publishes in
// between are stored.
func busyErrorHandler(run *vk.Run) {
	for others := 1; others <= 3; others++ {
		mem, faults := ebu.NewMemoryStore(), stores.NewFaults()
		fa := map[int]stores.Action{0: stores.Fail}
		for k := 1; k <= others; k++ {
			fa[2*k-1] = stores.Fail // appends 1, 3, 5 fail; 2, 4, 6 succeed
		}
		faults.ByKind["append"] = fa
		var mu sync.Mutex
		var reported []int
		inFirst, release := make(chan struct{}), make(chan struct{})
		bus := ebu.New(ebu.WithStore(stores.Wrap(mem, faults)), ebu.WithPersistenceErrorHandler(func(ev any, _ reflect.Type, _ error) {
			mu.Lock()
			reported = append(reported, idOf(ev))
			first := len(reported) == 1
			mu.Unlock()
			if first {
				close(inFirst)
				<-release
			}
		}))
		handled := 0
		ebu.Subscribe(bus, func(flex) { mu.Lock(); handled++; mu.Unlock() })
		g1 := make(chan struct{})
		go func() { defer close(g1); ebu.Publish(bus, flex{ID: 100}) }()
		<-inFirst
		// the other publishers run one after the other on their own goroutine while the handler is busy
		g2 := make(chan struct{})
		go func() {
			defer close(g2)
			for k := 1; k <= others; k++ {
				ebu.Publish(bus, flex{ID: 100 + 2*k - 1}) // rejected by the store
				ebu.Publish(bus, flex{ID: 100 + 2*k})     // stored
			}
		}()
		<-g2
		close(release)
		<-g1
		mu.Lock()
		got := append([]int{}, reported...)
		h := handled
		mu.Unlock()
		sort.Ints(got)
		want := []int{100}
		for k := 1; k <= others; k++ {
			want = append(want, 100+2*k-1)
		}
		evs, _, _ := mem.Read(context.Background(), ebu.OffsetOldest, 0)
		run.Case(fmt.Sprintf("failures while the error handler is busy|%d", others), true)
		if fmt.Sprint(got) != fmt.Sprint(want) || len(evs) != others || h != 1+2*others {
			run.Violation("persist:failure-while-error-handler-busy", fmt.Sprintf("publish #100 fails and its error handler call is still running while another goroutine publishes %d rejected and %d accepted events: failures reported for %v (want %v), %d records stored (want %d), the subscriber handled %d events (want %d)", others, others, got, want, len(evs), others, h, 1+2*others), nil)
		}
	}
}
