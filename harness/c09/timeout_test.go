//go:build verif

package c09

import (
	"context"
	"encoding/json"
	"fmt"
	"reflect"
	"sync/atomic"
	"testing"
	"testing/synctest"
	"time"

	ebu "github.com/jilio/ebu"

	"verif/harness/internal/vk"
)

// slowEv takes (virtual) time to encode.
type slowEv ev

var slowEncode atomic.Int64

func (e slowEv) MarshalJSON() ([]byte, error) {
	time.Sleep(time.Duration(slowEncode.Load()))
	return json.Marshal(ev(e))
}

// slowStore takes (virtual) time to append; it either honours its context or cannot abort a write
// in progress.
type slowStore struct {
	inner     *ebu.MemoryStore
	delay     time.Duration
	honourCtx bool
}

func (s *slowStore) Append(ctx context.Context, e *ebu.Event) (ebu.Offset, error) {
	if s.honourCtx {
		select {
		case <-ctx.Done():
			return "", ctx.Err()
		case <-time.After(s.delay):
		}
	} else {
		time.Sleep(s.delay)
	}
	return s.inner.Append(ctx, e)
}
func (s *slowStore) Read(ctx context.Context, from ebu.Offset, limit int) ([]*ebu.StoredEvent, ebu.Offset, error) {
	return s.inner.Read(ctx, from, limit)
}

// TestC09SlowStore (virtual time): appends that take time, with and without a persistence timeout
// that is shorter. Every publish whose record ends up in the log had that record readable when its
// handlers ran; the log holds each such publish once, in publish order.
func TestC09SlowStore(t *testing.T) {
	run := vk.New("C09", "slow-store")
	defer run.Finish()
	idx := 0
	for _, delay := range []time.Duration{0, 5 * time.Millisecond, 50 * time.Millisecond, 10 * time.Minute} { // (virtual time: a ten-minute append costs nothing)
		for _, timeout := range []time.Duration{0, 10 * time.Millisecond, time.Hour} {
			for _, honour := range []bool{true, false} {
				for _, async := range []bool{false, true} {
					for _, enc := range []time.Duration{0, 50 * time.Millisecond} { // (virtual) time the event takes to encode
						idx++
						if !run.Mine(idx) {
							continue
						}
						slowEncode.Store(int64(enc))
						sig := fmt.Sprintf("delay=%v timeout=%v honour=%v async=%v encode=%v", delay, timeout, honour, async, enc)
						synctest.Test(t, func(t *testing.T) {
							st := &slowStore{inner: ebu.NewMemoryStore(), delay: delay, honourCtx: honour}
							opts := []ebu.Option{ebu.WithStore(st), ebu.WithPersistenceErrorHandler(func(any, reflect.Type, error) {})}
							if timeout > 0 {
								opts = append(opts, ebu.WithPersistenceTimeout(timeout))
							}
							bus := ebu.New(opts...)
							readable := map[int]bool{}
							h := func(e ev) {
								evs, _, _ := st.inner.Read(context.Background(), ebu.OffsetOldest, 0)
								for _, x := range evs {
									var d ev
									if json.Unmarshal(x.Data, &d) == nil && d.ID == e.ID {
										readable[e.ID] = true
									}
								}
							}
							if async {
								done := make(chan struct{}, 16)
								ebu.Subscribe(bus, func(e ev) { h(e); done <- struct{}{} }, ebu.Async(), ebu.Sequential())
								ebu.Subscribe(bus, func(e slowEv) { h(ev(e)); done <- struct{}{} }, ebu.Async(), ebu.Sequential())
							} else {
								ebu.Subscribe(bus, h)
								ebu.Subscribe(bus, func(e slowEv) { h(ev(e)) })
							}
							for id := 1; id <= 4; id++ {
								if enc > 0 {
									ebu.Publish(bus, slowEv{ID: id, S: "slow"})
								} else {
									ebu.Publish(bus, ev{ID: id, S: "slow"})
								}
							}
							bus.Wait()
							time.Sleep(4*delay + 10*time.Second) // let abandoned work (if any) finish
							synctest.Wait()
							evs, _, _ := st.inner.Read(context.Background(), ebu.OffsetOldest, 0)
							var order []int
							for _, x := range evs {
								var d ev
								json.Unmarshal(x.Data, &d)
								order = append(order, d.ID)
								if !readable[d.ID] {
									run.Violation("slow-store:not-readable-before-delivery", fmt.Sprintf("%s: the record of publish #%d is in the log, but it was not readable when that publish's handler ran", sig, d.ID), map[string]any{"scenario": sig, "log": order})
								}
							}
							for i := 1; i < len(order); i++ {
								if order[i] <= order[i-1] {
									run.Violation("slow-store:log-order", fmt.Sprintf("%s: log %v is not publish order / has repeats", sig, order), map[string]any{"scenario": sig})
								}
							}
							// (the persistence timeout bounds the append, not the encoding that precedes it)
							if (timeout == 0 || timeout > delay) && len(order) != 4 {
								run.Violation("slow-store:record-count", fmt.Sprintf("%s: 4 publishes, no timeout shorter than the append: the log holds %v", sig, order), map[string]any{"scenario": sig})
							}
						})
						run.Case(sig, timeout > 0 && timeout < delay)
					}
				}
			}
		}
	}
	run.Exhaustive(true)
}
