//go:build verif

// C09 — Every publish on a persistent bus is recorded once, before it is delivered.
package c09

import (
	"context"
	"encoding/json"
	"fmt"
	"math"
	"math/rand/v2"
	"os"
	"reflect"
	"runtime"
	"strings"
	"sync"
	"sync/atomic"
	"testing"
	"time"

	ebu "github.com/jilio/ebu"

	"verif/harness/internal/jgen"
	"verif/harness/internal/stores"
	"verif/harness/internal/vk"
	"verif/harness/internal/watchdog"
)

type ev struct {
	ID int
	S  string
}

type recObs struct{}

func (recObs) OnPublishStart(ctx context.Context, _ string, _ any) context.Context { return ctx }
func (recObs) OnPublishComplete(context.Context, string)                           {}
func (recObs) OnHandlerStart(ctx context.Context, _ string, _ bool) context.Context {
	return context.WithValue(ctx, recObs{}, 1)
}
func (recObs) OnHandlerComplete(context.Context, time.Duration, error)               {}
func (recObs) OnPersistStart(ctx context.Context, _ string, _ int64) context.Context { return ctx }
func (recObs) OnPersistComplete(context.Context, time.Duration, error)               {}

var optNames = []string{"BeforePublish", "BeforePublishContext", "AfterPublish", "AfterPublishContext", "Observability", "PersistenceTimeout", "PersistenceErrorHandler", "SubscriptionStore", "ReplayBatchSize", "Upcast", "PanicHandler"}

type hookCount struct{ before, beforeCtx, after, afterCtx atomic.Int32 }

func mkOpt(name string, hc *hookCount) ebu.Option {
	switch name {
	case "BeforePublish":
		return ebu.WithBeforePublish(func(reflect.Type, any) { hc.before.Add(1) })
	case "BeforePublishContext":
		return ebu.WithBeforePublishContext(func(context.Context, reflect.Type, any) { hc.beforeCtx.Add(1) })
	case "AfterPublish":
		return ebu.WithAfterPublish(func(reflect.Type, any) { hc.after.Add(1) })
	case "AfterPublishContext":
		return ebu.WithAfterPublishContext(func(context.Context, reflect.Type, any) { hc.afterCtx.Add(1) })
	case "Observability":
		return ebu.WithObservability(recObs{})
	case "PersistenceTimeout":
		return ebu.WithPersistenceTimeout(time.Hour)
	case "PersistenceErrorHandler":
		return ebu.WithPersistenceErrorHandler(func(any, reflect.Type, error) {})
	case "SubscriptionStore":
		return ebu.WithSubscriptionStore(ebu.NewMemoryStore())
	case "ReplayBatchSize":
		return ebu.WithReplayBatchSize(7)
	case "Upcast":
		return ebu.WithUpcast("c09.old", "c09.new", func(d json.RawMessage) (json.RawMessage, string, error) { return d, "c09.new", nil })
	case "PanicHandler":
		return ebu.WithPanicHandler(func(any, reflect.Type, any) {})
	}
	panic(name)
}

func permutations(a []string, f func([]string)) {
	var rec func(int)
	rec = func(k int) {
		if k == len(a) {
			f(append([]string{}, a...))
			return
		}
		for i := k; i < len(a); i++ {
			a[k], a[i] = a[i], a[k]
			rec(k + 1)
			a[k], a[i] = a[i], a[k]
		}
	}
	rec(0)
}

// TestC09Options: every permutation of option lists containing WithStore.
func TestC09Options(t *testing.T) {
	run := vk.New("C09", "options")
	defer run.Finish()
	maxSub := run.Scale(3, 4)
	idx := 0
	n := len(optNames)
	for mask := 0; mask < 1<<n; mask++ {
		var sub []string
		for i := 0; i < n; i++ {
			if mask>>i&1 == 1 {
				sub = append(sub, optNames[i])
			}
		}
		if len(sub) > maxSub {
			continue
		}
		if !run.Thorough() && len(sub) == 3 && mask%5 != int(run.Seed%5) {
			continue // quick: a seed-determined fifth of the 3-subsets, every smaller subset
		}
		list := append([]string{"Store"}, sub...)
		permutations(list, func(perm []string) {
			for _, late := range []int{0, 1, 2} { // 0: all in New; 1: WithStore applied after New; 2: legacy hooks by setter after New
				if late == 2 && !(strings.Contains(strings.Join(perm, ","), "BeforePublish") || strings.Contains(strings.Join(perm, ","), "AfterPublish")) {
					continue
				}
				idx++
				if !run.Mine(idx) {
					continue
				}
				optionCase(run, perm, late)
			}
		})
	}
	run.Count("option_lists", int64(idx))
	run.Exhaustive(run.Thorough())
	if run.Shard == 0 {
		lostAck(run)
		panickingHooks(run)
	}
}

// panickingHooks: a publish hook that panics for some events, with and without a panic handler
// installed, in every position relative to WithStore. Whatever becomes of such a publish (it may
// panic out to the publisher): if any handler of it ran, its record was in the store before.
func panickingHooks(run *vk.Run) {
	for v := 0; v < 32; v++ {
		storeFirst, ctxHook, withPH, afterToo, async := v&1 != 0, v&2 != 0, v&4 != 0, v&8 != 0, v&16 != 0
		mem := ebu.NewMemoryStore()
		boom := func(e any) {
			if x, ok := e.(ev); ok && x.ID%2 == 0 {
				panic("c09: hook panics")
			}
		}
		var opts []ebu.Option
		if storeFirst {
			opts = append(opts, ebu.WithStore(mem))
		}
		if ctxHook {
			opts = append(opts, ebu.WithBeforePublishContext(func(_ context.Context, _ reflect.Type, e any) { boom(e) }))
		} else {
			opts = append(opts, ebu.WithBeforePublish(func(_ reflect.Type, e any) { boom(e) }))
		}
		if afterToo {
			opts = append(opts, ebu.WithAfterPublish(func(_ reflect.Type, e any) { boom(e) }))
		}
		if withPH {
			opts = append(opts, ebu.WithPanicHandler(func(any, reflect.Type, any) {}))
		}
		if !storeFirst {
			opts = append(opts, ebu.WithStore(mem))
		}
		bus := ebu.New(opts...)
		var unrecorded []int
		h := func(e ev) {
			evs, _, _ := mem.Read(context.Background(), ebu.OffsetOldest, 0)
			for _, x := range evs {
				var d ev
				if json.Unmarshal(x.Data, &d) == nil && d.ID == e.ID {
					return
				}
			}
			unrecorded = append(unrecorded, e.ID)
		}
		if async {
			var mu sync.Mutex
			ebu.Subscribe(bus, func(e ev) { mu.Lock(); defer mu.Unlock(); h(e) }, ebu.Async())
		} else {
			ebu.Subscribe(bus, h)
		}
		escaped := 0
		for id := 1; id <= 6; id++ {
			func() {
				defer func() {
					if recover() != nil {
						escaped++
					}
				}()
				ebu.Publish(bus, ev{ID: id, S: "hp"})
			}()
		}
		bus.Wait()
		sig := fmt.Sprintf("panicking-hook storeFirst%v ctx%v ph%v after%v async%v", storeFirst, ctxHook, withPH, afterToo, async)
		if len(unrecorded) != 0 {
			run.Violation("record:delivered-without-record-after-hook-panic", fmt.Sprintf("%s: handlers ran for events %v although no record of them was in the store (a before-publish hook had panicked for the even ids; %d publishes panicked out to the publisher)", sig, unrecorded, escaped), map[string]any{"variant": sig})
		}
		run.Case(sig, true)
	}
}

// lostAck: a store that writes the record but reports an error (the acknowledgement is lost, e.g. a
// timeout after the server committed) must still end up with exactly one record per publish.
func lostAck(run *vk.Run) {
	for pat := 0; pat < 64; pat++ {
		mem := ebu.NewMemoryStore()
		f := stores.NewFaults()
		fa := map[int]stores.Action{}
		for i := 0; i < 6; i++ {
			if pat>>i&1 == 1 {
				fa[i] = stores.LostAck
			}
		}
		f.ByKind["append"] = fa
		reported := 0
		bus := ebu.New(ebu.WithStore(stores.Wrap(mem, f)), ebu.WithPersistenceErrorHandler(func(any, reflect.Type, error) { reported++ }))
		for i := 1; i <= 6; i++ {
			ebu.Publish(bus, ev{ID: i, S: "x"})
		}
		evs, _, _ := mem.Read(context.Background(), ebu.OffsetOldest, 0)
		ids := map[int]int{}
		for _, e := range evs {
			var d ev
			json.Unmarshal(e.Data, &d)
			ids[d.ID]++
		}
		for i := 1; i <= 6; i++ {
			if ids[i] != 1 {
				run.Violation("record:count-after-lost-ack", fmt.Sprintf("appends whose acknowledgement is lost: pattern %06b; publish #%d has %d records in the store (the bus must not append twice)", pat, i, ids[i]), map[string]any{"lost_ack_pattern": fmt.Sprintf("%06b", pat), "records": len(evs)})
				break
			}
		}
		run.Case(fmt.Sprintf("lost-ack|%06b", pat), pat != 0)
	}
}

func optionCase(run *vk.Run, perm []string, late int) {
	mem := ebu.NewMemoryStore()
	hc := &hookCount{}
	var opts []ebu.Option
	for _, name := range perm {
		if name == "Store" {
			if late != 1 {
				opts = append(opts, ebu.WithStore(mem))
			}
			continue
		}
		if late == 2 && (name == "BeforePublish" || name == "AfterPublish") {
			continue
		}
		opts = append(opts, mkOpt(name, hc))
	}
	bus := ebu.New(opts...)
	if late == 1 {
		ebu.WithStore(mem)(bus)
	}
	if late == 2 {
		for _, name := range perm {
			if name == "BeforePublish" {
				bus.SetBeforePublishHook(func(reflect.Type, any) { hc.before.Add(1) })
			}
			if name == "AfterPublish" {
				bus.SetAfterPublishHook(func(reflect.Type, any) { hc.after.Add(1) })
			}
		}
	}
	sig := fmt.Sprintf("%s|late%d", strings.Join(perm, ","), late)
	witness := map[string]any{"options_in_order": perm, "variant": []string{"all in New", "WithStore applied after New", "legacy hooks installed by setter"}[late]}
	viol := func(rule, desc string) {
		run.Violation("record:"+rule, fmt.Sprintf("options %v (%s): %s", perm, witness["variant"], desc), witness)
	}
	var seenSync, seenAsync atomic.Int32
	find := func(id int) bool {
		evs, _, _ := mem.Read(context.Background(), ebu.OffsetOldest, 0)
		for _, e := range evs {
			var d ev
			if json.Unmarshal(e.Data, &d) == nil && d.ID == id && e.Type == ebu.EventType(ev{}) {
				return true
			}
		}
		return false
	}
	ebu.Subscribe(bus, func(e ev) {
		if find(e.ID) {
			seenSync.Add(1)
		}
	})
	ebu.SubscribeContext(bus, func(_ context.Context, e ev) {
		if find(e.ID) {
			seenAsync.Add(1)
		}
	}, ebu.Async())
	const N = 3
	for i := 1; i <= N; i++ {
		if i == 2 {
			ebu.PublishContext(bus, context.Background(), ev{ID: i, S: "x"})
		} else {
			ebu.Publish(bus, ev{ID: i, S: "x"})
		}
		evs, _, _ := mem.Read(context.Background(), ebu.OffsetOldest, 0)
		if len(evs) != i {
			viol("count", fmt.Sprintf("after %d publishes the store holds %d records", i, len(evs)))
			return
		}
	}
	bus.Wait()
	if seenSync.Load() != N || seenAsync.Load() != N {
		viol("not-readable-before-delivery", fmt.Sprintf("handlers found their own record in the store %d (sync) / %d (async) times out of %d", seenSync.Load(), seenAsync.Load(), N))
	}
	evs, _, _ := mem.Read(context.Background(), ebu.OffsetOldest, 0)
	var prev ebu.Offset
	for i, e := range evs {
		want, _ := json.Marshal(ev{ID: i + 1, S: "x"})
		if e.Type != ebu.EventType(ev{}) || !jgen.JSONEqual(e.Data, want) {
			viol("content", fmt.Sprintf("record %d is type %q data %s", i, e.Type, e.Data))
		}
		if i > 0 && !(e.Offset > prev) {
			viol("offsets", fmt.Sprintf("offset %q after %q", e.Offset, prev))
		}
		prev = e.Offset
	}
	// the user's own hooks must still run (a store must not displace them either)
	for _, name := range perm {
		var c int32
		switch name {
		case "BeforePublish":
			c = hc.before.Load()
		case "BeforePublishContext":
			c = hc.beforeCtx.Load()
		case "AfterPublish":
			c = hc.after.Load()
		case "AfterPublishContext":
			c = hc.afterCtx.Load()
		default:
			continue
		}
		if c != N {
			viol("hook-displaced", fmt.Sprintf("%s hook ran %d times for %d publishes", name, c, N))
		}
	}
	hookAfterStore := false
	si := -1
	for i, nm := range perm {
		if nm == "Store" {
			si = i
		}
	}
	for i, nm := range perm {
		if i > si && strings.Contains(nm, "Publish") {
			hookAfterStore = true
		}
	}
	run.Case(sig, hookAfterStore || late != 0)
	if run.WantSample() && hookAfterStore && len(perm) == 4 {
		run.Sample(witness)
	}
}

// ---------------------------------------------------------------------------------------------
// values

type inner struct {
	A int64
	B *string
	C []float64
	D map[string]int
}
type nested struct {
	ID    int
	Name  string
	In    inner
	PIn   *inner
	List  []inner
	Bytes []byte
	U     uint64
	F     float64
	Any   map[string]any `json:"any,omitempty"`
}
type custom struct{ ID, X int }

func (c custom) MarshalJSON() ([]byte, error) {
	return []byte(fmt.Sprintf(`{"id":%d,"x":"%d"}`, c.ID, c.X)), nil
}
func (c *custom) UnmarshalJSON(b []byte) error {
	var t struct {
		ID int    `json:"id"`
		X  string `json:"x"`
	}
	if err := json.Unmarshal(b, &t); err != nil {
		return err
	}
	c.ID = t.ID
	fmt.Sscanf(t.X, "%d", &c.X)
	return nil
}

type named struct{ ID int }

func (named) EventTypeName() string { return "c09.named.v1" }

// unnamed reports the empty string as its event name, oddName one full of separators, quotes, a NUL
// and a newline: unusual, legal, and stored verbatim.
type unnamed struct{ ID int }

func (unnamed) EventTypeName() string { return "" }

type oddName struct{ ID int }

func (oddName) EventTypeName() string { return "c09/odd name\x00\n\"quoted\" → ünï*" }

type versioned struct{ ID, V int }

func (v versioned) EventTypeName() string { return fmt.Sprintf("c09.versioned.v%d", v.V) }

type ptrNamed struct{ ID int }

func (*ptrNamed) EventTypeName() string { return "c09.ptrnamed" }

// ptrRecv has MarshalJSON on the pointer receiver only: published by value its encoding is the
// default struct encoding, published by pointer the custom one
type ptrRecv struct{ ID, X int }

func (p *ptrRecv) MarshalJSON() ([]byte, error) {
	return []byte(fmt.Sprintf(`{"ID":%d,"X":%d,"via":"ptr"}`, p.ID, p.X)), nil
}

type bigEv struct {
	ID   int
	Blob string
}

type strEv string
type mapEv map[string]int

func str(r *rand.Rand) string {
	pool := []string{"", "a", "é", "日本", "😀", "\"q\"", "\\", "\n\t", " ", "<&>", "\x00"}
	return pool[r.IntN(len(pool))] + pool[r.IntN(len(pool))]
}

func genInner(r *rand.Rand, depth int) inner {
	in := inner{A: []int64{0, -1, math.MaxInt64, math.MinInt64, r.Int64()}[r.IntN(5)]}
	if r.IntN(2) == 0 {
		s := str(r)
		in.B = &s
	}
	switch r.IntN(3) {
	case 0:
		in.C = []float64{}
	case 1:
		in.C = []float64{0, -0.5, math.MaxFloat64, math.SmallestNonzeroFloat64, r.NormFloat64()}
	}
	switch r.IntN(3) {
	case 0:
		in.D = map[string]int{}
	case 1:
		in.D = map[string]int{str(r): r.IntN(100), "k": -1}
	}
	return in
}

func genNested(r *rand.Rand, id int) nested {
	n := nested{ID: id, Name: str(r), In: genInner(r, 0), U: []uint64{0, math.MaxUint64, r.Uint64()}[r.IntN(3)], F: []float64{0, 1e-300, 1e300, r.Float64()}[r.IntN(4)]}
	if r.IntN(2) == 0 {
		in := genInner(r, 1)
		n.PIn = &in
	}
	for i := r.IntN(3); i > 0; i-- {
		n.List = append(n.List, genInner(r, 1))
	}
	if r.IntN(3) == 0 {
		n.Bytes = []byte{0, 255, 'x'}
	}
	return n
}

func roundTrip[T any](run *vk.Run, bus *ebu.EventBus, mem *ebu.MemoryStore, value T, shape string, depth int) {
	before, _, _ := mem.Read(context.Background(), ebu.OffsetOldest, 0)
	ebu.Publish(bus, value)
	after, _, _ := mem.Read(context.Background(), ebu.OffsetOldest, 0)
	witness := map[string]any{"shape": shape, "value": fmt.Sprintf("%+v", value)}
	if len(after) != len(before)+1 {
		run.Violation("record:count", fmt.Sprintf("publishing a %s appended %d records", shape, len(after)-len(before)), witness)
		return
	}
	rec := after[len(after)-1]
	witness["stored_type"], witness["stored_data"] = rec.Type, string(rec.Data)
	if rec.Type != ebu.EventType(value) {
		run.Violation("record:type-name", fmt.Sprintf("%s stored under type %q, EventType reports %q", shape, rec.Type, ebu.EventType(value)), witness)
	}
	want, err := json.Marshal(value)
	if err != nil {
		panic(err)
	}
	if !jgen.JSONEqual(rec.Data, want) {
		run.Violation("record:data", fmt.Sprintf("%s stored as %s, its JSON encoding is %s", shape, rec.Data, want), witness)
	}
	var back T
	if err := json.Unmarshal(rec.Data, &back); err != nil {
		run.Violation("record:undecodable", fmt.Sprintf("%s: stored data does not decode: %v", shape, err), witness)
	} else if !reflect.DeepEqual(back, value) {
		// only values with an exact JSON round trip are generated: compare through a second encoding
		b2, _ := json.Marshal(back)
		if !jgen.JSONEqual(b2, want) {
			run.Violation("record:decoded-differs", fmt.Sprintf("%s: decoding the record yields %+v", shape, back), witness)
		}
	}
	run.Case(fmt.Sprintf("value|%s|d%d|%d|%s", shape, depth, len(rec.Data)/64, shapeFlags(value)), depth >= 2)
	if run.WantSample() && depth >= 2 && shape == "nested" {
		run.Sample(witness)
	}
}

// readersLeaveRecords: the records stay what the publishes wrote, whatever reads them afterwards —
// a plain replay, an upcasting replay with an upcaster registered for every stored type, and a
// typed replay subscription.
func readersLeaveRecords(run *vk.Run, bus *ebu.EventBus, mem *ebu.MemoryStore) {
	ctx := context.Background()
	type rec struct {
		off  ebu.Offset
		typ  string
		data string
	}
	snap := func() (l []rec) {
		evs, _, _ := mem.Read(ctx, ebu.OffsetOldest, 0)
		for _, e := range evs {
			l = append(l, rec{e.Offset, e.Type, string(e.Data)})
		}
		return
	}
	before := snap()
	types := map[string]bool{}
	for _, r := range before {
		types[r.typ] = true
	}
	for tn := range types {
		to := tn + ".next"
		ebu.RegisterUpcastFunc(bus, tn, to, func(d json.RawMessage) (json.RawMessage, string, error) {
			return json.RawMessage(`{"upcast":true}`), to, nil
		})
	}
	seen := 0
	bus.Replay(ctx, ebu.OffsetOldest, func(*ebu.StoredEvent) error { seen++; return nil })
	bus.ReplayWithUpcast(ctx, ebu.OffsetOldest, func(*ebu.StoredEvent) error { seen++; return nil })
	ebu.SubscribeWithReplay(ctx, bus, "c09-reader", func(named) { seen++ })
	after := snap()
	run.Count("records_reread_after_readers", int64(len(after)))
	if len(after) != len(before) {
		run.Violation("record:changed-by-a-reader", fmt.Sprintf("the log had %d records, after replays and a replay subscription it has %d", len(before), len(after)), nil)
		return
	}
	for i := range before {
		if before[i] != after[i] {
			run.Violation("record:changed-by-a-reader", fmt.Sprintf("record %s was {%s %s}; after Replay / ReplayWithUpcast / SubscribeWithReplay had read the log it is {%s %s}", before[i].off, before[i].typ, before[i].data, after[i].typ, after[i].data),
				map[string]any{"offset": string(before[i].off)})
			return
		}
	}
	run.Case(fmt.Sprintf("readers|%d types", min(len(types), 8)), seen > 0)
}

func TestC09Values(t *testing.T) {
	run := vk.New("C09", "values")
	defer run.Finish()
	n := run.Scale(2000, 60000)
	mem := ebu.NewMemoryStore()
	bus := ebu.New(ebu.WithStore(mem))
	for i := 0; i < n; i++ {
		r := run.Rand(uint64(i))
		if i%500 == 0 {
			if i > 0 {
				readersLeaveRecords(run, bus, mem)
			}
			mem = ebu.NewMemoryStore()
			bus = ebu.New(ebu.WithStore(mem))
			if (i/500)%2 == 1 {
				// upcasters for the published types are already registered (a service that also reads old
				// data): what it publishes is still recorded as published
				for _, name := range []string{ebu.EventType(nested{}), ebu.EventType(&nested{}), ebu.EventType(named{}), ebu.EventType(custom{}), ebu.EventType(strEv("")), "c09.versioned.v1", "c09.versioned.v2"} {
					to := name + ".next"
					ebu.RegisterUpcastFunc(bus, name, to, func(d json.RawMessage) (json.RawMessage, string, error) {
						return json.RawMessage(`{"migrated":true}`), to, nil
					})
				}
			}
		}
		switch i % 10 {
		case 0, 1, 2:
			v := genNested(r, i)
			d := 1
			if v.PIn != nil || len(v.List) > 0 {
				d = 2
			}
			roundTrip(run, bus, mem, v, "nested", d)
		case 3:
			v := genNested(r, i)
			roundTrip(run, bus, mem, &v, "*nested", 2)
		case 4:
			cv := custom{ID: i, X: r.IntN(1000)}
			roundTrip(run, bus, mem, cv, "custom-MarshalJSON", 1)
			roundTrip(run, bus, mem, cv, "the-same-value-published-again", 2) // a second publish is a second event
			// events of unnamed Go types (their reflection names contain spaces and punctuation)
			roundTrip(run, bus, mem, map[string]any{"id": float64(i), "s": str(r)}, "map[string]any", 2)
			roundTrip(run, bus, mem, []any{float64(i), str(r), nil}, "[]any", 2)
			roundTrip(run, bus, mem, struct {
				ID int
				S  string
			}{i, str(r)}, "anonymous-struct", 2)
		case 5:
			roundTrip(run, bus, mem, named{ID: i}, "TypeNamer", 1)
			roundTrip(run, bus, mem, unnamed{ID: i}, "TypeNamer-returning-the-empty-name", 2)
			roundTrip(run, bus, mem, oddName{ID: i}, "TypeNamer-with-separators-and-control-characters", 2)
		case 6:
			roundTrip(run, bus, mem, versioned{ID: i, V: 1 + r.IntN(3)}, "TypeNamer-value-dependent", 2)
		case 7:
			roundTrip(run, bus, mem, &ptrNamed{ID: i}, "TypeNamer-pointer-receiver", 2)
			roundTrip(run, bus, mem, ptrNamed{ID: i}, "TypeNamer-pointer-receiver-by-value", 2)
		case 8:
			roundTrip(run, bus, mem, strEv(str(r)), "named-string", 1)
			roundTrip(run, bus, mem, ptrRecv{ID: i, X: r.IntN(9)}, "pointer-receiver-MarshalJSON-by-value", 2)
			roundTrip(run, bus, mem, &ptrRecv{ID: i, X: r.IntN(9)}, "pointer-receiver-MarshalJSON-by-pointer", 2)
			if i%200 == 8 {
				roundTrip(run, bus, mem, bigEv{ID: i, Blob: strings.Repeat(str(r)+"xyz", 400000)}, "large-event", 2)
			}
		case 9:
			roundTrip(run, bus, mem, mapEv{str(r): i, "k": -i}, "named-map", 1)
			// byte-slice events: the JSON encoding of []byte is a base64 string, also when the bytes
			// happen to be JSON text; json.RawMessage events are stored as their (compacted) document,
			// and the record must not alias the publisher's buffer
			texts := []string{" [1, 2, 3] ", "42", "true", `{"id": 7}`, "not json", ""}
			roundTrip(run, bus, mem, []byte(texts[r.IntN(len(texts))]), "[]byte", 2)
			js, _ := json.Marshal(str(r))
			buf := []byte(fmt.Sprintf(` {"id": %d, "s": %s} `, i, js))
			raw := json.RawMessage(buf)
			want, _ := json.Marshal(raw)
			roundTrip(run, bus, mem, raw, "json.RawMessage", 2)
			for k := range buf {
				buf[k] = 'x' // the publisher reuses its buffer
			}
			evs, _, _ := mem.Read(context.Background(), ebu.OffsetOldest, 0)
			if last := evs[len(evs)-1]; !jgen.JSONEqual(last.Data, want) {
				run.Violation("record:aliases-publisher-buffer", fmt.Sprintf("a json.RawMessage event was stored as %s; after the publisher reused its buffer the record reads %s", want, last.Data), map[string]any{"shape": "json.RawMessage"})
			}
		}
	}
	readersLeaveRecords(run, bus, mem)
	retainingStore(run)
	if run.Shard == 0 {
		existingFile(run)
	}
}

// retaining is a write-behind store: Append queues the *Event it is handed (the interface says
// nothing about whose it is afterwards) and the queue is written out when somebody reads.
type retaining struct {
	mu    sync.Mutex
	queue []*ebu.Event
}

func (s *retaining) Append(_ context.Context, e *ebu.Event) (ebu.Offset, error) {
	s.mu.Lock()
	defer s.mu.Unlock()
	s.queue = append(s.queue, e)
	return ebu.Offset(fmt.Sprintf("%020d", len(s.queue))), nil
}

func (s *retaining) Read(_ context.Context, from ebu.Offset, limit int) ([]*ebu.StoredEvent, ebu.Offset, error) {
	s.mu.Lock()
	defer s.mu.Unlock()
	var out []*ebu.StoredEvent
	last := from
	for i, e := range s.queue {
		off := ebu.Offset(fmt.Sprintf("%020d", i+1))
		if off <= from {
			continue
		}
		out = append(out, &ebu.StoredEvent{Offset: off, Type: e.Type, Data: e.Data, Timestamp: e.Timestamp})
		last = off
		if limit > 0 && len(out) == limit {
			break
		}
	}
	return out, last, nil
}

// retainingStore: every publish hands the store a record of its own - one that still says what was
// published when the store gets round to writing it.
func retainingStore(run *vk.Run) {
	st := &retaining{}
	bus := ebu.New(ebu.WithStore(st))
	type want struct{ typ, data string }
	var wants []want
	pub := func(typ string, v any, publish func()) {
		b, _ := json.Marshal(v)
		wants = append(wants, want{typ, string(b)})
		publish()
	}
	for k := 0; k < 12; k++ {
		switch k % 4 {
		case 0:
			v := named{ID: k}
			pub(ebu.EventType(v), v, func() { ebu.Publish(bus, v) })
		case 1:
			v := ev{ID: k, S: "q"}
			pub(ebu.EventType(v), v, func() { ebu.Publish(bus, v) })
		case 2:
			v := versioned{ID: k, V: 1 + k%3}
			pub(ebu.EventType(v), v, func() { ebu.Publish(bus, v) })
		default:
			v := &ptrNamed{ID: k}
			pub(ebu.EventType(v), v, func() { ebu.Publish(bus, v) })
		}
	}
	recs, _, _ := st.Read(context.Background(), ebu.OffsetOldest, 0)
	if len(recs) != len(wants) {
		run.Violation("record:count", fmt.Sprintf("a write-behind store was handed %d records for %d publishes", len(recs), len(wants)), nil)
		return
	}
	for i, r := range recs {
		if r.Type != wants[i].typ || !jgen.JSONEqual(r.Data, []byte(wants[i].data)) {
			run.Violation("record:retained-record-changed", fmt.Sprintf("a store that keeps the record it was handed until it writes it out: record %d reads {%s %s}, publish %d was {%s %s}", i, r.Type, r.Data, i, wants[i].typ, wants[i].data), map[string]any{"index": i})
			return
		}
	}
	run.Case("write-behind store", true)
}

// ---------------------------------------------------------------------------------------------
// concurrent publishers on each bundled store

func TestC09Concurrent(t *testing.T) {
	run := vk.New("C09", "concurrent")
	defer run.Finish()
	scratch := os.Getenv("VERIF_SCRATCH")
	if scratch == "" {
		scratch = t.TempDir()
	}
	kinds := []string{"memory", "memory-paged", "sqlite-file", "sqlite-mem", "durable"}
	rounds := run.Scale(10, 150)
	procs := []int{1, 2, 4, 16}
	defer runtime.GOMAXPROCS(runtime.GOMAXPROCS(0))
	for i := 0; i < rounds; i++ {
		rng := run.Rand(uint64(i))
		kind := kinds[(i+run.Shard)%len(kinds)]
		runtime.GOMAXPROCS(procs[i%len(procs)])
		st, err := stores.Open(kind, scratch)
		if err != nil {
			t.Fatal(err)
		}
		busOpts := []ebu.Option{ebu.WithStore(st.Store)}
		if _, ok := st.Store.(ebu.SubscriptionStore); !ok && st.Sub != nil {
			busOpts = append(busOpts, ebu.WithSubscriptionStore(st.Sub))
		}
		bus := ebu.New(busOpts...)
		P := 2 + rng.IntN(15)
		E := 2 + rng.IntN(12)
		if kind != "memory" && kind != "memory-paged" {
			E = 1 + rng.IntN(4)
		}
		withSub := (i/len(kinds))%2 == 1 && st.Sub != nil
		if withSub {
			// a resumable subscription next to the publishers: its handler saves its position in the
			// same store while other publishers append
			// (every fifth event makes it publish a follow-up of its own, which is recorded like any publish)
			if err := ebu.SubscribeWithReplay(context.Background(), bus, "c09-sub", func(e ev) {
				if e.ID%5 == 0 && e.S == "c" {
					ebu.Publish(bus, ev{ID: 1000000 + e.ID, S: "follow-up"})
				}
			}); err != nil {
				t.Fatalf("SubscribeWithReplay: %v", err)
			}
		}
		var found, notFound atomic.Int32
		ebu.Subscribe(bus, func(e ev) {
			evs, _, err := st.Store.Read(context.Background(), ebu.OffsetOldest, 0)
			if err != nil {
				return
			}
			for _, x := range evs {
				var d ev
				if json.Unmarshal(x.Data, &d) == nil && d.ID == e.ID {
					found.Add(1)
					return
				}
			}
			notFound.Add(1)
		})
		var wg sync.WaitGroup
		start := make(chan struct{})
		for p := 0; p < P; p++ {
			wg.Add(1)
			go func(p int) {
				defer wg.Done()
				<-start
				for k := 0; k < E; k++ {
					ebu.Publish(bus, ev{ID: p*1000 + k, S: "c"})
					if k%2 == 0 {
						runtime.Gosched()
					}
				}
			}(p)
		}
		close(start)
		wg.Wait()
		bus.Wait()
		witness := map[string]any{"store": kind, "publishers": P, "events_each": E, "gomaxprocs": procs[i%len(procs)], "resumable_subscription_saving_offsets_in_the_store": withSub}
		fam := strings.SplitN(kind, "-", 2)[0]
		// read the whole log (durable-streams: follow next offsets; no limit is used, so the recorded
		// truncation finding is not involved)
		var all []*ebu.StoredEvent
		from := ebu.OffsetOldest
		for step := 0; step < 1000; step++ {
			evs, next, err := st.Store.Read(context.Background(), from, 0)
			if err != nil {
				t.Fatalf("read: %v", err)
			}
			if len(evs) == 0 {
				break
			}
			all = append(all, evs...)
			from = next
		}
		wantRecords := P * E
		if withSub {
			for p := 0; p < P; p++ {
				for k := 0; k < E; k++ {
					if (p*1000+k)%5 == 0 {
						wantRecords++ // its follow-up
					}
				}
			}
		}
		if len(all) != wantRecords {
			run.Violation(fam+":record-count", fmt.Sprintf("%d concurrent publishes on %s (follow-ups published by the resumable subscription's handler included) produced %d records", wantRecords, kind, len(all)), witness)
		}
		ids := map[int]int{}
		for _, e := range all {
			var d ev
			json.Unmarshal(e.Data, &d)
			ids[d.ID]++
		}
		for p := 0; p < P; p++ {
			for k := 0; k < E; k++ {
				if ids[p*1000+k] != 1 {
					run.Violation(fam+":record-multiset", fmt.Sprintf("publish %d appears %d times in the log of %s", p*1000+k, ids[p*1000+k], kind), witness)
				}
			}
		}
		if fam != "durable" { // per-event offsets of the durable-streams store are synthetic (recorded under C10)
			for j := 1; j < len(all); j++ {
				if !(all[j].Offset > all[j-1].Offset) {
					rule := "offsets-not-strictly-increasing"
					if len(all[j].Offset) != len(all[j-1].Offset) {
						rule = "append-offsets-not-lexicographically-increasing-shorter-decimal-before-longer"
					}
					run.Violation(fam+":"+rule, fmt.Sprintf("record %d has offset %q after %q on %s", j, all[j].Offset, all[j-1].Offset, kind), witness)
					break
				}
			}
		}
		if notFound.Load() != 0 {
			run.Violation(fam+":not-readable-before-delivery", fmt.Sprintf("%d handler invocations could not read their own record from %s", notFound.Load(), kind), witness)
		}
		st.Close()
		st.Remove()
		// request-scoped contexts: every publish gets its own context that ends when the publish
		// returns (and, on odd rounds, the bus adds a persistence timeout whose context ends likewise):
		// later publishes must still be recorded
		if st2, err := stores.Open(kind, scratch); err == nil {
			var opts []ebu.Option
			if i%2 == 1 {
				opts = append(opts, ebu.WithPersistenceTimeout(time.Hour))
			}
			bus2 := ebu.New(append(opts, ebu.WithStore(st2.Store))...)
			for k := 1; k <= 5; k++ {
				ctx, cancel := context.WithCancel(context.Background())
				ebu.PublishContext(bus2, ctx, ev{ID: k, S: "r"})
				cancel()
			}
			n := 0
			from := ebu.OffsetOldest
			for step := 0; step < 100; step++ {
				evs, next, err := st2.Store.Read(context.Background(), from, 0)
				if err != nil || len(evs) == 0 {
					break
				}
				n += len(evs)
				from = next
			}
			if n != 5 {
				run.Violation(fam+":record-count-request-scoped-contexts", fmt.Sprintf("5 sequential publishes on %s, each with its own context that ended after the publish returned (persistence timeout set: %v), produced %d records", kind, i%2 == 1, n), witness)
			}
			st2.Close()
			st2.Remove()
		}
		// a follow-up event published by an async handler that is still running while Shutdown drains:
		// the store is open until Shutdown returns, the publish is recorded and delivered
		{
			mem := ebu.NewMemoryStore()
			busS := ebu.New(ebu.WithStore(mem))
			gateS := make(chan struct{})
			var followUps atomic.Int32
			ebu.Subscribe(busS, func(e ev) {
				if e.S == "first" {
					<-gateS
					ebu.Publish(busS, ev{ID: e.ID + 1, S: "follow-up"})
				}
			}, ebu.Async())
			ebu.Subscribe(busS, func(e ev) {
				if e.S == "follow-up" {
					followUps.Add(1)
				}
			})
			ebu.Publish(busS, ev{ID: 1, S: "first"})
			sd := make(chan error, 1)
			go func() { sd <- busS.Shutdown(context.Background()) }()
			for spins := 0; spins < 20; spins++ {
				runtime.Gosched()
			}
			time.Sleep(time.Duration(rng.IntN(3)) * time.Millisecond) // either order of Shutdown and the follow-up is legal
			close(gateS)
			serr := <-sd
			recs, _, _ := mem.Read(context.Background(), ebu.OffsetOldest, 0)
			if serr != nil || len(recs) != 2 || followUps.Load() != 1 {
				run.Violation("memory:publish-while-shutdown-drains", fmt.Sprintf("an async handler still running during Shutdown published a follow-up event: Shutdown returned %v, the log holds %d records (want 2), the follow-up was delivered %d times (want 1)", serr, len(recs), followUps.Load()), nil)
			}
			run.Count("publishes_while_shutdown_drains", 1)
		}
		// many replays open at once, each publishing from inside its callback: every one of those
		// publishes is recorded too
		if st3, err := stores.Open(kind, scratch); err == nil {
			bus3 := ebu.New(ebu.WithStore(st3.Store))
			for k := 1; k <= 3; k++ {
				ebu.Publish(bus3, ev{ID: k, S: "h"})
			}
			R := 8 + rng.IntN(24)
			var arrived atomic.Int32
			var wg3 sync.WaitGroup
			for r := 0; r < R; r++ {
				wg3.Add(1)
				go func(r int) {
					defer wg3.Done()
					first := true
					bus3.Replay(context.Background(), ebu.OffsetOldest, func(*ebu.StoredEvent) error {
						if first {
							first = false
							arrived.Add(1)
							// stimulus only: give the other replays time to be open at the same moment
							for spins := 0; spins < 400 && int(arrived.Load()) < R; spins++ {
								time.Sleep(500 * time.Microsecond)
							}
							ebu.Publish(bus3, ev{ID: 5000 + r, S: "m"})
						}
						return nil
					})
				}(r)
			}
			done3 := make(chan struct{})
			go func() { wg3.Wait(); close(done3) }()
			hung := false
			for waited := 0; ; waited++ {
				select {
				case <-done3:
				case <-time.After(20 * time.Second):
					buf := make([]byte, 4<<20)
					d := string(buf[:runtime.Stack(buf, true)])
					if watchdog.BlockedUnderEbu(d) {
						run.Violation(fam+":publish-from-concurrent-replays-hung", fmt.Sprintf("%d replays of %s open at once, each publishing one event from inside its callback: the publishes never returned", R, kind), map[string]any{"store": kind, "replays": R, "dump": d[:min(len(d), 20000)]})
						run.Finish()
						watchdog.Exit()
					}
					if waited < 30 {
						continue
					}
					hung = true
				}
				break
			}
			if !hung {
				n, markers := 0, map[int]int{}
				from := ebu.OffsetOldest
				for step := 0; step < 1000; step++ {
					evs, next, err := st3.Store.Read(context.Background(), from, 0)
					if err != nil || len(evs) == 0 {
						break
					}
					for _, e := range evs {
						var d ev
						json.Unmarshal(e.Data, &d)
						if d.ID >= 5000 {
							markers[d.ID]++
						}
					}
					n += len(evs)
					from = next
				}
				if n != 3+R || len(markers) != R {
					run.Violation(fam+":record-count-publishes-from-concurrent-replays", fmt.Sprintf("%d replays of %s open at once, each publishing one event from inside its callback: the log holds %d records (%d distinct markers), want %d", R, kind, n, len(markers), 3+R), map[string]any{"store": kind, "replays": R})
				}
				run.Count("publishes_from_inside_concurrent_replays", int64(R))
			}
			st3.Close()
			st3.Remove()
		}
		run.Case(fmt.Sprintf("%s|P%d|E%d|p%d|sub%v", kind, P, E, procs[i%len(procs)], withSub), P >= 2)
		run.Count("records_checked", int64(len(all)))
		run.Count("handler_reads_that_found_own_record", int64(found.Load()))
		if i == 0 {
			run.Sample(witness)
		}
	}
}

// shapeFlags summarises which optional parts of a generated value are nil / empty / filled.
func shapeFlags(v any) string {
	n, ok := v.(nested)
	if p, isP := v.(*nested); isP {
		n, ok = *p, true
	}
	if !ok {
		return ""
	}
	f := func(in inner) string {
		return fmt.Sprintf("%v%d%d", in.B == nil, min(len(in.C), 2)+b2i(in.C == nil)*3, min(len(in.D), 2)+b2i(in.D == nil)*3)
	}
	s := f(n.In)
	if n.PIn != nil {
		s += "p" + f(*n.PIn)
	}
	return fmt.Sprintf("%s|l%d|b%v", s, len(n.List), n.Bytes != nil)
}

func b2i(b bool) int {
	if b {
		return 1
	}
	return 0
}
