//go:build verif

package c09

import (
	"context"
	"encoding/json"
	"fmt"
	"io"
	"os"
	"path/filepath"
	"runtime"

	ebu "github.com/jilio/ebu"
	"github.com/jilio/ebu/stores/sqlite"

	"verif/harness/internal/vk"
)

type exEv struct{ ID int }

// existingFile: a persistent bus on a database file that already holds events written by the
// pinned release (c14/testdata): every publish is recorded once after them and is readable when its
// handler runs.
func existingFile(run *vk.Run) {
	_, self, _, _ := runtime.Caller(0)
	src, err := os.Open(filepath.Join(filepath.Dir(self), "..", "c14", "testdata", "pinned-release.db"))
	if err != nil {
		run.Inconclusive("fixture database missing: " + err.Error())
		return
	}
	scratch := os.Getenv("VERIF_SCRATCH")
	if scratch == "" {
		scratch = os.TempDir()
	}
	os.MkdirAll(scratch, 0o755)
	path := filepath.Join(scratch, fmt.Sprintf("c09-existing-%d.db", os.Getpid()))
	dst, _ := os.Create(path)
	io.Copy(dst, src)
	src.Close()
	dst.Close()
	defer func() { os.Remove(path); os.Remove(path + "-wal"); os.Remove(path + "-shm") }()
	run.Case("a bus on a database file written by the pinned release", true)
	st, err := sqlite.New(path)
	if err != nil {
		run.Violation("sqlite:existing-file:open", fmt.Sprintf("opening a database file written by the pinned release failed: %v", err), nil)
		return
	}
	defer st.Close()
	ctx := context.Background()
	bus := ebu.New(ebu.WithStore(st))
	seenBefore := map[int]bool{}
	ebu.Subscribe(bus, func(e exEv) {
		evs, _, err := st.Read(ctx, ebu.OffsetOldest, 0)
		for _, x := range evs {
			var d exEv
			if x.Type == ebu.EventType(exEv{}) && json.Unmarshal(x.Data, &d) == nil && d.ID == e.ID {
				seenBefore[e.ID] = true
			}
		}
		_ = err
	})
	for id := 1; id <= 3; id++ {
		ebu.Publish(bus, exEv{ID: id})
	}
	evs, _, err := st.Read(ctx, ebu.OffsetOldest, 0)
	if err != nil || len(evs) != 25+3 || !seenBefore[1] || !seenBefore[2] || !seenBefore[3] {
		run.Violation("sqlite:existing-file:record-count", fmt.Sprintf("three publishes on a bus whose database file already held 25 events of the pinned release: the log reads %d events (err %v); record readable when the handler ran: %v", len(evs), err, seenBefore), nil)
	}
}
