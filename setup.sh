#!/bin/sh
# Builds everything the checks need from files on disk and the module cache (offline) and warms the
# Go build cache (race-enabled standard library, modernc sqlite). Safe to re-run.
set -e
cd "$(dirname "$0")"
export GOFLAGS=-mod=mod GOPROXY=off
unset GOSUMDB GOTOOLCHAIN
mkdir -p .build evidence
cd harness
go build ./...
go build -o ../.build/sqlitechild.warm ./cmd/sqlitechild && rm -f ../.build/sqlitechild.warm
for d in c[0-9][0-9]/; do
  d=${d%/}
  [ -f "$d/.norace" ] || go test -c -vet=off -tags verif -race -o ../.build/warm.test ./$d >/dev/null 2>&1 || true
  go test -c -vet=off -tags verif -o ../.build/warm.test ./$d
done
rm -f ../.build/warm.test
echo setup ok
