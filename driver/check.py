#!/usr/bin/env python3
"""Driver: rebuilds the harness against /repo's working tree, runs the monitors of one property in
child processes, classifies their outcome, matches violations against known_findings.json, writes
evidence/<ID>.json and prints the verdict lines.

usage: check <ID> [--tier quick|thorough] [--replay <path>]
env:   VERIF_SEED (default 1), VERIF_TIER, VERIF_REPO (default /repo), VERIF_KEEP=1 keeps child logs
exit:  0 held on everything explored (KNOWN-FINDING lines allowed), 1 violation, 2 infrastructure error / nothing observed
"""
import concurrent.futures as cf
import hashlib
import json
import os
import re
import shutil
import subprocess
import sys
import time

VERIF = os.path.dirname(os.path.dirname(os.path.abspath(__file__)))
HARNESS = os.path.join(VERIF, "harness")
BUILD = os.path.join(VERIF, ".build")
EVID = os.path.join(VERIF, "evidence")
sys.path.insert(0, os.path.dirname(os.path.abspath(__file__)))
from properties import PROPS  # noqa: E402


def goenv():
    e = dict(os.environ)
    e["GOFLAGS"] = "-mod=mod"
    e["GOPROXY"] = "off"
    e.pop("GOSUMDB", None)
    e.pop("GOTOOLCHAIN", None)
    e.pop("CARGO_NET_OFFLINE", None)
    return e


def modfile_args(repo):
    """-modfile for a repository other than /repo (mutant runs); /repo uses harness/go.mod as is."""
    if os.path.realpath(repo) == "/repo":
        return []
    os.makedirs(BUILD, exist_ok=True)
    tag = hashlib.sha1(repo.encode()).hexdigest()[:10]
    mf = os.path.join(BUILD, f"go.{tag}.mod")
    src = open(os.path.join(HARNESS, "go.mod")).read()
    src = re.sub(r"=> /repo(\S*)", lambda m: "=> " + repo.rstrip("/") + m.group(1), src)
    open(mf, "w").write(src)
    shutil.copy(os.path.join(HARNESS, "go.sum"), os.path.join(BUILD, f"go.{tag}.sum"))
    return ["-modfile=" + mf]


def build(pkg, race, repo, extra_tags=()):
    os.makedirs(BUILD, exist_ok=True)
    tag = hashlib.sha1(repo.encode()).hexdigest()[:6]
    out = os.path.join(BUILD, f"{pkg.replace('/', '_')}{'-race' if race else ''}-{tag}.test")
    cmd = ["go", "test", "-c", "-vet=off", "-tags", ",".join(("verif",) + tuple(extra_tags))] + (["-race"] if race else []) + modfile_args(repo) + ["-o", out, "./" + pkg]
    p = subprocess.run(cmd, cwd=HARNESS, env=goenv(), stdout=subprocess.PIPE, stderr=subprocess.STDOUT, text=True)
    if p.returncode != 0:
        sys.stderr.write("BUILD FAILED: " + " ".join(cmd) + "\n" + p.stdout + "\n")
        return None
    return out


def build_cmd(pkg, repo):
    """plain `go build` of a main package under harness/cmd (child processes of C14)."""
    tag = hashlib.sha1(repo.encode()).hexdigest()[:6]
    out = os.path.join(BUILD, f"{pkg.replace('/', '_')}-{tag}.bin")
    cmd = ["go", "build", "-tags", "verif"] + modfile_args(repo) + ["-o", out, "./" + pkg]
    p = subprocess.run(cmd, cwd=HARNESS, env=goenv(), stdout=subprocess.PIPE, stderr=subprocess.STDOUT, text=True)
    if p.returncode != 0:
        sys.stderr.write("BUILD FAILED: " + " ".join(cmd) + "\n" + p.stdout + "\n")
        return None
    return out


EBU_FRAME = re.compile(r"github\.com/jilio/ebu[\w/.\-]*\.[\w\[\](){}*.,\- ]+\(|/repo/|jilio/ebu")
HARNESS_FRAME = re.compile(r"verif/harness")


def crash_stack(logtxt, head):
    """the text from the panic / fatal-error line to the end of the first goroutine's stack (a stack
    overflow prints 100 top frames, an elision marker and the bottom frames: far more than a page)"""
    t = logtxt[logtxt.find(head):][:600000]
    # up to the end of the first goroutine that is not the idle scheduler goroutine 0
    cuts = [m.start() for m in re.finditer(r"\n\ngoroutine \d+ ", t)]
    blocks = 2 if re.search(r"\n\ngoroutine 0 [^\n]*\[idle\]", t[:cuts[1]] if len(cuts) > 1 else t) else 1
    if len(cuts) > blocks:
        return t[:cuts[blocks]]
    return t[:200000]


def has_ebu_frame(text, repo):
    for line in text.splitlines():
        if "github.com/jilio/ebu" in line and "verif/harness" not in line:
            return True
        if line.strip().startswith(repo.rstrip("/") + "/") and "_test.go" not in line:
            return True
    return False


def parse_races(paths, repo):
    """returns (attributed, unattributed, harness_only) lists of deduplicated reports"""
    att, unatt, harn = {}, {}, {}
    for p in paths:
        try:
            txt = open(p, errors="replace").read()
        except OSError:
            continue
        for blk in txt.split("=================="):
            if "WARNING: DATA RACE" not in blk:
                continue
            # signature: function names of the first frame of each stack, line numbers stripped
            funcs = []
            for part in re.split(r"\n\n", blk):
                lines = [l for l in part.splitlines() if l.startswith("  ") and not l.startswith("      ")]
                fl = [l.strip() for l in lines if "(" in l and not l.strip().startswith("runtime.")]
                if fl:
                    funcs.append(re.sub(r"\(.*", "", fl[0]))
            sig = " | ".join(sorted(set(funcs))[:4])
            if has_ebu_frame(blk, repo):
                att.setdefault(sig, blk.strip()[:6000])
            elif "verif/harness" in blk:
                harn.setdefault(sig, blk.strip()[:3000])
            else:
                unatt.setdefault(sig, blk.strip()[:3000])
    return att, unatt, harn


def run_gofuzz(part, env, log, timeout_s, repo, execs):
    """coverage-guided tier: `go test -fuzz` (iteration-bounded); writes a child-style summary."""
    cmd = ["timeout", "-s", "QUIT", "-k", "20", str(timeout_s), "go", "test", "-vet=off", "-tags", "verif"] + modfile_args(repo) + \
          ["-run", "^$", "-fuzz", part["fuzz"], "-fuzztime", f"{execs}x", "./" + part["pkg"]]
    t0 = time.time()
    with open(log, "w") as f:
        p = subprocess.run(cmd, cwd=HARNESS, env=env, stdout=f, stderr=subprocess.STDOUT)
    txt = open(log, errors="replace").read()
    ex = [int(x) for x in re.findall(r"execs: (\d+)", txt)]
    tot = [int(x) for x in re.findall(r"new interesting: \d+ \(total: (\d+)\)", txt)]
    summ = {"property": "", "part": part["name"], "evaluations": max(ex or [0]), "distinct": [f"coverage-distinct-input-{i}" for i in range(max(tot or [0]))],
            "samples": [{"fuzz_target": part["fuzz"], "engine": "go test -fuzz (coverage-guided)", "last_progress_line": (re.findall(r"fuzz: elapsed.*", txt) or [""])[-1]}],
            "violations": [], "viol_count": {}, "inconclusive": {}, "counters": {"fuzz_execs": max(ex or [0]), "max_coverage_distinct_inputs": max(tot or [0])}, "sets": {}, "notes": [], "complete": True}
    if p.returncode != 0:
        m = re.search(r"VIOLATION-(C\d+) (.*)", txt)
        crash_dir = os.path.join(HARNESS, part["pkg"], "testdata", "fuzz", part["fuzz"])
        witness = {}
        if os.path.isdir(crash_dir):
            for fn in sorted(os.listdir(crash_dir)):
                witness[fn] = open(os.path.join(crash_dir, fn), errors="replace").read()[:4000]
            shutil.rmtree(os.path.join(HARNESS, part["pkg"], "testdata"), ignore_errors=True)
        if m or witness:
            desc = m.group(2)[:500] if m else "fuzz target failed (panic in Apply?): " + (re.findall(r"^\s+(panic: .*|.*_test.go:\d+: .*)$", txt, re.M) or ["see log"])[0][:300]
            summ["violations"].append({"sig": "statemsg:apply-bad-input", "desc": "coverage-guided fuzzing: " + desc, "witness": witness})
            summ["viol_count"]["statemsg:apply-bad-input"] = 1
        else:
            summ["complete"] = False
    json.dump(summ, open(env["VERIF_OUT"], "w"))
    return (0 if summ["complete"] else p.returncode), time.time() - t0


def has_complete_summary(path):
    """a child's summary file exists and is the final one (interim summaries carry complete: false)"""
    try:
        return bool(json.load(open(path)).get("complete"))
    except Exception:  # noqa
        return False


def run_child(spec):
    if spec[0] == "gofuzz":
        return run_gofuzz(*spec[1:])
    (binpath, runre, env, log, timeout_s, extra_args) = spec
    cmd = ["timeout", "-s", "QUIT", "-k", "20", str(timeout_s), binpath, "-test.run", runre, "-test.timeout", "0", "-test.count", "1", "-test.v"] + list(extra_args)
    t0 = time.time()
    with open(log, "w") as f:
        p = subprocess.run(cmd, cwd=os.path.dirname(log), env=env, stdout=f, stderr=subprocess.STDOUT)
    # testing/synctest (go1.25.1) can also spin for ever inside runtime.getOrSetBubbleSpecial (the
    # bookkeeping that ties a sync.WaitGroup to its bubble), called from WaitGroup.Add: the goroutine is
    # *running* in the runtime, the world cannot be stopped, everything else waits for it. The driver's
    # watchdog then ends the child. That is the virtual-time test environment failing, not the code
    # under test making no progress: such a shard is run again (up to three times, every log kept).
    spins = 0
    while spins < 3 and not has_complete_summary(env.get("VERIF_OUT", "")):
        try:
            logtxt = open(log, errors="replace").read()
        except OSError:
            break
        if not re.search(r"goroutine \d+ [^\n]*\[running[^\]]*synctest bubble[^\]]*\]:\n(?:[^\n]*\n){0,8}?[^\n]*runtime\.getOrSetBubbleSpecial", logtxt):
            break
        spins += 1
        shutil.copy(log, log + ".synctest-spin%d" % spins)
        with open(log, "w") as f:
            f.write("(attempt %d: the one before was stuck inside testing/synctest's WaitGroup bookkeeping in the Go runtime, see %s.synctest-spin%d)\n" % (spins + 1, os.path.basename(log), spins))
            f.flush()
            p = subprocess.run(cmd, cwd=os.path.dirname(log), env=env, stdout=f, stderr=subprocess.STDOUT)
    # a child that died inside the Go runtime itself (no summary, a crash whose stack holds no frame of
    # the code under test - e.g. a SIGSEGV in runtime.GOMAXPROCS) says nothing about the property: run
    # that shard once more; the first log is kept. A crash with an ebu frame is never retried.
    if p.returncode not in (0, 124, 137) and not has_complete_summary(env.get("VERIF_OUT", "")):
        try:
            logtxt = open(log, errors="replace").read()
        except OSError:
            logtxt = ""
        m = re.search(r"^(panic: .*|fatal error: .*|SIGSEGV: .*|SIGBUS: .*)$", logtxt, re.M)
        # testing/synctest (go1.25.1) occasionally aborts with "WaitGroup.Add called from multiple synctest
        # bubbles" for the per-publish WaitGroup of PublishContext - a local variable that no two bubbles can
        # share (its memory was used by a WaitGroup of an earlier bubble). That is bookkeeping of the virtual-
        # time test environment, not behaviour of the code under test: such a shard is run again (3 tries).
        tries = 0
        while m and "called from multiple synctest bubbles" in m.group(1) and tries < 3:
            tries += 1
            shutil.copy(log, log + ".synctest%d" % tries)
            with open(log, "w") as f:
                f.write("(attempt %d: the one before was aborted by testing/synctest's WaitGroup bookkeeping, see %s.synctest%d)\n" % (tries + 1, os.path.basename(log), tries))
                f.flush()
                p = subprocess.run(cmd, cwd=os.path.dirname(log), env=env, stdout=f, stderr=subprocess.STDOUT)
            if p.returncode in (0, 124, 137) or has_complete_summary(env.get("VERIF_OUT", "")):
                return p.returncode, time.time() - t0
            logtxt = open(log, errors="replace").read()
            m = re.search(r"^(panic: .*|fatal error: .*|SIGSEGV: .*|SIGBUS: .*)$", logtxt, re.M)
        attempt = 1
        while attempt < 4 and m and not has_ebu_frame(crash_stack(logtxt, m.group(1)), env.get("VERIF_REPO", "/repo")) and "verif/harness" not in crash_stack(logtxt, m.group(1)).split("\n\ngoroutine ")[0]:
            # (seen three times in all, always in the C09 concurrent part under heavy machine load: SIGSEGV at
            # one and the same PC inside runtime.startTheWorld, called from runtime.GOMAXPROCS - go1.25.1)
            shutil.copy(log, log + (".first" if attempt == 1 else ".attempt%d" % attempt))
            attempt += 1
            with open(log, "w") as f:
                f.write("(attempt %d: the one before died inside the Go runtime, see the copies of this log next to it)\n" % attempt)
                f.flush()
                p = subprocess.run(cmd, cwd=os.path.dirname(log), env=env, stdout=f, stderr=subprocess.STDOUT)
            if p.returncode in (0, 124, 137) or has_complete_summary(env.get("VERIF_OUT", "")):
                break
            logtxt = open(log, errors="replace").read()
            m = re.search(r"^(panic: .*|fatal error: .*|SIGSEGV: .*|SIGBUS: .*)$", logtxt, re.M)
    return p.returncode, time.time() - t0


def main():
    args = sys.argv[1:]
    if not args:
        print(__doc__)
        return 2
    pid = args[0]
    tier = os.environ.get("VERIF_TIER", "quick")
    replay = None
    i = 1
    while i < len(args):
        if args[i] == "--tier":
            tier = args[i + 1]
            i += 2
        elif args[i] == "--replay":
            replay = args[i + 1]
            i += 2
        else:
            i += 1
    if tier not in ("quick", "thorough"):
        tier = "quick"
    if pid not in PROPS:
        sys.stderr.write(f"unknown property {pid}\n")
        return 2
    prop = PROPS[pid]
    seed = int(os.environ.get("VERIF_SEED", "1") or "1")
    repo = os.environ.get("VERIF_REPO", "/repo")
    t_start = time.time()
    outdir = os.path.join(BUILD, "out", pid)
    shutil.rmtree(outdir, ignore_errors=True)
    os.makedirs(outdir, exist_ok=True)
    os.makedirs(EVID, exist_ok=True)
    evid_path = os.path.join(EVID, pid + ".json")

    infra = []
    # ---- build
    bins = {}
    for part in prop["parts"]:
        if part.get("kind") == "gofuzz":
            continue
        key = (part["pkg"], bool(part.get("race")))
        if key not in bins:
            bins[key] = build(part["pkg"], key[1], repo)
            if bins[key] is None:
                infra.append(f"build of {key} failed")
    aux = {}
    for name, pkg in prop.get("aux_bins", {}).items():
        aux[name] = build_cmd(pkg, repo)
        if aux[name] is None:
            infra.append(f"build of {pkg} failed")
    if infra:
        for m in infra:
            sys.stderr.write("INFRASTRUCTURE: " + m + "\n")
        return 2

    # ---- run
    specs, meta = [], []
    for part in prop["parts"]:
        if replay and part["name"] != json.load(open(replay)).get("part", part["name"]):
            continue
        nsh = part.get("shards", {}).get(tier, 1)
        if part.get("kind") == "gofuzz":
            execs = part.get("execs", {}).get(tier, 0)
            if not execs or replay:
                continue
            env = goenv()
            env.update({"VERIF_OUT": os.path.join(outdir, f"{part['name']}-0.json")})
            log = os.path.join(outdir, f"{part['name']}-0.log")
            specs.append(("gofuzz", part, env, log, part.get("timeout", {}).get(tier, 1800), repo, execs))
            meta.append((part, 0, env["VERIF_OUT"], log))
            continue
        shard_list = range(nsh)
        if replay:
            # re-run exactly the shard that produced the witness (same seed, tier and shard count);
            # engine-based tests run only the recorded program ($VERIF_REPLAY)
            rf = json.load(open(replay))
            nsh = int(rf.get("shards", nsh))
            shard_list = [int(rf.get("shard", 0))]
            seed = int(rf.get("seed", seed))
            tier = rf.get("tier", tier)
        for sh in shard_list:
            env = goenv()
            env.update({"VERIF_SEED": str(seed), "VERIF_TIER": tier, "VERIF_SHARD": str(sh), "VERIF_SHARDS": str(nsh),
                        "VERIF_OUT": os.path.join(outdir, f"{part['name']}-{sh}.json"), "VERIF_REPO": repo,
                        "VERIF_SCRATCH": os.path.join(outdir, f"scratch-{part['name']}-{sh}")})
            os.makedirs(env["VERIF_SCRATCH"], exist_ok=True)
            for k, v in aux.items():
                env["VERIF_BIN_" + k.upper()] = v
            if replay:
                env["VERIF_REPLAY"] = os.path.abspath(replay)
            if part.get("race"):
                env["GORACE"] = f"halt_on_error=0 log_path={os.path.join(outdir, 'race-' + part['name'] + '-' + str(sh))}"
            for k, v in part.get("env", {}).items():
                env[k] = str(v)
            if "gomaxprocs" in part:
                env["GOMAXPROCS"] = str(part["gomaxprocs"])
            log = os.path.join(outdir, f"{part['name']}-{sh}.log")
            to = part.get("timeout", {}).get(tier, 600)
            specs.append((bins[(part["pkg"], bool(part.get("race")))], part["run"], env, log, to, part.get("args", [])))
            meta.append((part, sh, env["VERIF_OUT"], log))
    workers = int(os.environ.get("VERIF_JOBS", "16"))
    with cf.ThreadPoolExecutor(max_workers=workers) as ex:
        results = list(ex.map(run_child, specs))

    # ---- collect
    merged = {"evaluations": 0, "distinct": set(), "samples": [], "counters": {}, "sets": {}, "inconclusive": {}, "notes": [], "parts": {}}
    violations = []  # (sig, desc, witness, part, shard)
    viol_counts = {}
    exhaustive = None
    for (part, sh, outp, log), (rc, wall) in zip(meta, results):
        pname = part["name"]
        ps = merged["parts"].setdefault(pname, {"evaluations": 0, "shards": 0, "wall_s": 0.0})
        ps["shards"] += 1
        ps["wall_s"] = round(max(ps["wall_s"], wall), 2)
        summ = None
        if os.path.exists(outp):
            try:
                summ = json.load(open(outp))
            except Exception as ex:  # noqa
                summ = None
        logtxt = ""
        try:
            logtxt = open(log, errors="replace").read()
        except OSError:
            pass
        if summ is None or not summ.get("complete"):
            # child died before writing its summary; an interim summary (written at the first occurrence of
            # each violation signature) still says what its monitors had seen by then
            if summ is not None:
                for v in summ.get("violations") or []:
                    violations.append((v["sig"], v["desc"], v.get("witness"), pname, sh))
                for k, v in (summ.get("viol_count") or {}).items():
                    viol_counts[k] = viol_counts.get(k, 0) + v
            head = ""
            m = re.search(r"^(panic: .*|fatal error: .*)$", logtxt, re.M)
            if m:
                head = m.group(1)[:200]
            if rc in (124, 137) or "SIGQUIT" in logtxt[:20000] and not head:
                # watchdog of the driver fired: deadlock only if goroutines are parked below ebu frames
                if re.search(r"goroutine \d+ (?:gp=\S+ m=\S+ (?:mp=\S+ )?)?\[(sync\.Mutex\.Lock|sync\.RWMutex\.\w+|semacquire|sync\.WaitGroup\.Wait|chan receive|sync\.Cond\.Wait)[^\]]*\]:\n(?:.+\n)*?.*github\.com/jilio/ebu", logtxt):
                    wpath = os.path.join(EVID, "replays", f"{pid}-{seed}-{pname}-{sh}-hang.log")
                    os.makedirs(os.path.dirname(wpath), exist_ok=True)
                    shutil.copy(log, wpath)
                    violations.append(("hang:blocked-under-ebu", f"child {pname}/{sh} made no progress until the watchdog fired; goroutines are parked below ebu frames", {"log": wpath}, pname, sh))
                else:
                    merged["inconclusive"]["watchdog"] = merged["inconclusive"].get("watchdog", 0) + 1
                    infra.append(f"child {pname}/{sh} timed out (rc={rc}) without a confirmed deadlock; log {log}")
            elif head and has_ebu_frame(crash_stack(logtxt, head), repo):
                wpath = os.path.join(EVID, "replays", f"{pid}-{seed}-{pname}-{sh}-crash.log")
                os.makedirs(os.path.dirname(wpath), exist_ok=True)
                open(wpath, "w").write(logtxt[-200000:])
                sig = "crash:" + re.sub(r"0x[0-9a-f]+|\d+", "N", head)[:100]
                violations.append((sig, f"child process died under the workload: {head}", {"log": wpath}, pname, sh))
            else:
                infra.append(f"child {pname}/{sh} ended (rc={rc}) without a summary and without an ebu frame in a panic: {head or 'see ' + log}")
            continue
        ps["evaluations"] += summ["evaluations"]
        merged["evaluations"] += summ["evaluations"]
        merged["distinct"].update(pname + "|" + d for d in (summ.get("distinct") or []))
        for s in summ.get("samples") or []:
            if len(merged["samples"]) < 6:
                merged["samples"].append({"part": pname, "case": s})
        for k, v in (summ.get("counters") or {}).items():
            kk = pname + "." + k
            if k.startswith("max_"):
                merged["counters"][kk] = max(merged["counters"].get(kk, 0), v)
            else:
                merged["counters"][kk] = merged["counters"].get(kk, 0) + v
        for k, v in (summ.get("sets") or {}).items():
            merged["sets"].setdefault(pname + "." + k, set()).update(v)
        for k, v in (summ.get("inconclusive") or {}).items():
            merged["inconclusive"][k] = merged["inconclusive"].get(k, 0) + v
        for n in summ.get("notes") or []:
            if n not in merged["notes"]:
                merged["notes"].append(n)
        if summ.get("exhaustive") is not None:
            exhaustive = summ["exhaustive"] if exhaustive is None else (exhaustive and summ["exhaustive"])
        for v in summ.get("violations") or []:
            violations.append((v["sig"], v["desc"], v.get("witness"), pname, sh))
        for k, v in (summ.get("viol_count") or {}).items():
            viol_counts[k] = viol_counts.get(k, 0) + v
        if rc != 0 and not summ.get("violations"):
            m = re.search(r"^(panic: .*|fatal error: .*)$", logtxt, re.M)
            if m and has_ebu_frame(logtxt[logtxt.find(m.group(1)):][:20000], repo):
                wpath = os.path.join(EVID, "replays", f"{pid}-{seed}-{pname}-{sh}-crash.log")
                os.makedirs(os.path.dirname(wpath), exist_ok=True)
                open(wpath, "w").write(logtxt[-200000:])
                violations.append(("crash:" + re.sub(r"0x[0-9a-f]+|\d+", "N", m.group(1))[:100], f"child process died: {m.group(1)[:200]}", {"log": wpath}, pname, sh))
            elif part.get("race") and "race detected during execution of test" in logtxt:
                pass  # the race reports themselves are parsed from the GORACE log files below
            else:
                fm = re.findall(r"^\s+\S+_test\.go:\d+: .*$", logtxt, re.M)
                infra.append(f"child {pname}/{sh} failed (rc={rc}) with no violation recorded: {(fm or ['see ' + log])[0][:300]}")

    # ---- race reports
    race_counts = None
    if any(p.get("race") for p in prop["parts"]):
        rpaths = [os.path.join(outdir, f) for f in os.listdir(outdir) if f.startswith("race-")]
        att, unatt, harn = parse_races(rpaths, repo)
        race_counts = {"attributed_to_ebu": len(att), "unattributed_third_party": len(unatt), "harness_only": len(harn)}
        for sig, blk in att.items():
            wpath = os.path.join(EVID, "replays", f"{pid}-{seed}-race-{hashlib.sha1(sig.encode()).hexdigest()[:8]}.txt")
            os.makedirs(os.path.dirname(wpath), exist_ok=True)
            open(wpath, "w").write(blk)
            violations.append(("race:" + sig[:160], "race detector report with an ebu frame: " + sig, {"report": wpath}, "race", 0))
        for sig, blk in harn.items():
            infra.append("race report with only harness frames (monitor bug): " + sig)
        if unatt:
            merged["notes"].append(f"{len(unatt)} race report(s) without ebu or harness frames (third-party), not decided: " + "; ".join(list(unatt)[:3]))

    # ---- known findings
    kf = json.load(open(os.path.join(VERIF, "known_findings.json")))
    known = [f for f in kf.get("findings", []) if f["property"] == pid]
    known_hit, new_viol = {}, []
    for v in violations:
        hit = None
        for f in known:
            s = f["signature"]
            if v[0] == s or (s.endswith("*") and v[0].startswith(s[:-1])):
                hit = f
                break
        if hit:
            known_hit.setdefault(hit["signature"], [hit, 0])
            known_hit[hit["signature"]][1] += 1
        else:
            new_viol.append(v)

    replays = []
    seen_sig = set()
    for (sig, desc, witness, pname, sh) in new_viol:
        if sig in seen_sig:
            continue
        seen_sig.add(sig)
        rp = os.path.join(EVID, "replays", f"{pid}-{seed}-{pname}-{hashlib.sha1(sig.encode()).hexdigest()[:8]}.json")
        os.makedirs(os.path.dirname(rp), exist_ok=True)
        nshards = next((p.get("shards", {}).get(tier, 1) for p in prop["parts"] if p["name"] == pname), 1)
        json.dump({"property": pid, "part": pname, "seed": seed, "tier": tier, "shard": sh, "shards": nshards, "sig": sig, "desc": desc, "witness": witness}, open(rp, "w"), indent=1)
        replays.append((sig, desc, rp))

    # ---- evidence
    for k in list(merged["sets"]):
        merged["counters"]["distinct." + k] = len(merged["sets"][k])
    cov = {
        "evaluations": merged["evaluations"],
        "distinct_nontrivial": len(merged["distinct"]),
        "rule": prop["rule"],
        "samples": merged["samples"],
        "parts": merged["parts"],
        "observed": merged["counters"],
        "inconclusive": merged["inconclusive"],
        "known_findings_hit": {k: v[1] for k, v in known_hit.items()},
        "violation_signatures": sorted(seen_sig),
    }
    if race_counts is not None:
        cov["race_reports"] = race_counts
    if exhaustive is not None:
        cov["exhaustive"] = bool(exhaustive)
    if merged["notes"]:
        cov["notes"] = merged["notes"]
    ev = {"property_id": pid, "tier": tier, "seed": seed, "level": prop["level"], "coverage": cov,
          "assumptions": prop.get("assumptions", []), "wall_s": round(time.time() - t_start, 2), "violations": len(new_viol)}
    if replay:
        # a replay re-executes one witness: it reports, but does not replace the evidence of a full run
        for sig, desc, rp in replays:
            print(f"VIOLATION property={pid} replay={rp}")
            print(f"  {sig}: {desc[:400]}")
        for m in infra:
            sys.stderr.write("INFRASTRUCTURE: " + m + "\n")
        print(f"{pid} replay of {replay}: {'violation reproduced' if new_viol else 'no violation on this tree'} (cases re-executed: {cov['evaluations']})")
        return 1 if new_viol else (2 if infra else 0)
    json.dump(ev, open(evid_path + ".tmp", "w"), indent=1, default=str)
    os.replace(evid_path + ".tmp", evid_path)

    # ---- verdict
    for sig in known_hit:
        tot = sum(v for k, v in viol_counts.items() if k == sig or (sig.endswith("*") and k.startswith(sig[:-1])))
        known_hit[sig][1] = max(known_hit[sig][1], tot)
    cov["known_findings_hit"] = {k: v[1] for k, v in known_hit.items()}
    json.dump(ev, open(evid_path + ".tmp", "w"), indent=1, default=str)
    os.replace(evid_path + ".tmp", evid_path)
    for sig, (f, n) in known_hit.items():
        print(f"KNOWN-FINDING: property={pid} {f['what']} [signature {sig}, seen {n}x]")
    for sig, desc, rp in replays:
        print(f"VIOLATION property={pid} replay={rp}")
        print(f"  {sig}: {desc[:400]}")
    for m in infra:
        sys.stderr.write("INFRASTRUCTURE: " + m + "\n")
    print(f"{pid} {tier} seed={seed}: evaluations={cov['evaluations']} distinct_nontrivial={cov['distinct_nontrivial']} "
          f"violations={len(new_viol)} known={sum(v[1] for v in known_hit.values())} inconclusive={sum(merged['inconclusive'].values())} wall={ev['wall_s']}s")
    if not os.environ.get("VERIF_KEEP") and not new_viol and not infra:
        shutil.rmtree(outdir, ignore_errors=True)
    if new_viol:
        return 1
    if infra:
        return 2
    if cov["evaluations"] == 0 or cov["distinct_nontrivial"] < 2:
        sys.stderr.write("INFRASTRUCTURE: the monitors observed nothing conclusive (no evaluations / <2 distinct non-trivial cases)\n")
        return 2
    return 0


if __name__ == "__main__":
    sys.exit(main())
