"""Per-property run configuration for the driver (what to build, how many child processes, limits)."""

ENGINE_ASSUME = [
    "the registry reference model (harness/internal/prog) states the property text; the zombie looseness of DESIGN 4.3 applies",
    "handler classes have pairwise distinct code pointers (asserted by a start-up self-test)",
]

HOOK_COMMITS = []
NOT_APPLICABLE = {}

PROPS = {
    "C01": {
        "level": "exploration",
        "level_text": "Held on K generated programs (K and the distinct non-trivial signatures are in the evidence): every handler invocation, Unsubscribe result and HasHandlers/HandlerCount answer of the real bus was compared online with a reference registry model executing the same program, including operations issued re-entrantly from inside handlers. Exploration, not proof: reach comes from program diversity (44 types > 32 shards, all option combinations, nesting depth 3).",
        "level_note": "Trusts the reference model (a ~150-line transcription of the property text) and the self-tested assumption that handler classes have distinct code pointers. Async order is not asserted; answers that depend on a fired-but-not-yet-retired Once handler accept either reading.",
        "technique": "runtime monitoring: lockstep reference-model monitor over generated programs",
        "design_ref": "DESIGN.md section 5 C01, sections 4.2-4.3",
        "rule": "PRNG-generated programs of Subscribe/SubscribeContext/Unsubscribe/Clear/ClearAll/Publish/PublishContext/HasHandlers/HandlerCount over 44 event types (23 of them in shared shards) with scripts executed re-entrantly inside handlers (depth<=3), run in lockstep against the registry model; distinct = multiset (capped at 3) of (op kind, re-entrancy depth, option combination) + shard sharing; non-trivial = the program executed >=1 re-entrant registry mutation during a delivery AND two subscribed types shared a routing shard",
        "assumptions": ENGINE_ASSUME,
        "parts": [
            {"name": "lockstep", "pkg": "c01", "run": "^TestC01$", "shards": {"quick": 4, "thorough": 16}, "timeout": {"quick": 300, "thorough": 1500}},
        ],
    },
}
