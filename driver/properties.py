"""Per-property run configuration for the driver (what to build, how many child processes, limits)."""

ENGINE_ASSUME = [
    "the registry reference model (harness/internal/prog) states the property text; the zombie looseness of DESIGN 4.3 applies",
    "handler classes have pairwise distinct code pointers (asserted by a start-up self-test)",
]

HOOK_COMMITS = ["cf83fa6"]
NOT_APPLICABLE = {}

PROPS = {
    "C01": {
        "level": "exploration",
        "level_text": "Held on K generated programs (K and the distinct non-trivial signatures are in the evidence): every handler invocation, Unsubscribe result and HasHandlers/HandlerCount answer of the real bus was compared online with a reference registry model executing the same program, including operations issued re-entrantly from inside handlers. Exploration, not proof: reach comes from program diversity (44 types > 32 shards, all option combinations, nesting depth 3).",
        "level_note": "Trusts the reference model (a ~150-line transcription of the property text) and the self-tested assumption that handler classes have distinct code pointers. Async order is not asserted; answers that depend on a fired-but-not-yet-retired Once handler accept either reading.",
        "technique": "runtime monitoring: lockstep reference-model monitor over generated programs",
        "design_ref": "DESIGN.md section 5 C01, sections 4.2-4.3",
        "rule": "PRNG-generated programs of Subscribe/SubscribeContext/Unsubscribe/Clear/ClearAll/Publish/PublishContext/HasHandlers/HandlerCount over 44 event types (23 of them in shared shards) with scripts executed re-entrantly inside handlers (depth<=3), run in lockstep against the registry model; distinct = multiset (capped at 3) of (op kind, re-entrancy depth, option combination) + shard sharing; non-trivial = the program executed >=1 re-entrant registry mutation during a delivery AND two subscribed types shared a routing shard",
        "assumptions": ENGINE_ASSUME,
        "parts": [
            {"name": "lockstep", "pkg": "c01", "run": "^TestC01$", "shards": {"quick": 4, "thorough": 16}, "timeout": {"quick": 300, "thorough": 1500}},
        ],
    },
    "C05": {
        "level": "exploration",
        "level_text": "Held on every arrangement of one and two handlers (kind x sync/async x option x six behaviours, enumerated completely, three publishes each) and on K generated programs with panicking handlers at arbitrary positions, nesting and repeated publishes: no panic escaped a publish, every other eligible handler still ran (registry model in lockstep), the panic handler was called exactly once per panicking invocation with the event, the handler's reflect.Type and the panic value, Once stayed retired, Sequential ran again, Wait returned (watchdog-guarded).",
        "level_note": "Trusts the registry model and the panic-value classifier; an asynchronous panic that escapes kills the child process, which the driver reports as a violation from the crash log. Wait-returns is bounded progress: a 2x20 s watchdog plus goroutine dumps decide deadlock vs inconclusive.",
        "technique": "runtime monitoring: lockstep reference-model monitor + panic-handler trace checker over enumerated and generated arrangements",
        "design_ref": "DESIGN.md section 5 C05",
        "rule": "exhaustive arrangements of <=2 handlers {plain,ctx-aware} x {sync,async} x {-,Once,Sequential,filter} x {return, panic(string), panic(error), panic(struct), nil-deref, panic(nil)} published 3x with and without a panic handler, plus PRNG programs with scripts and nested publishes; distinct = the arrangement (option/behaviour list + panic-handler flag); non-trivial = contains a panicking and a non-panicking handler and at least one of Sequential/Once/Async on a panicking one",
        "assumptions": ENGINE_ASSUME,
        "parts": [
            {"name": "panics", "pkg": "c05", "run": "^TestC05$", "shards": {"quick": 4, "thorough": 16}, "timeout": {"quick": 300, "thorough": 1500}},
        ],
    },
    "C08": {
        "level": "exploration",
        "level_text": "Held on an enumerated grid (handler lists of length 0-3 over sync/async x plain/context-aware, cancellation never / before the call / by the k-th handler, ended by cancel or by deadline, all 16 hook subsets, hooks by option / by setter / with observability and store) and on K generated programs with nested publishes: no handler ran under a finished context, no synchronous handler started after the cancel stamp, context-aware handlers saw the publish context's value and its cancellation, every configured hook ran exactly once per publish at the right place in the stamped trace with the right type and event.",
        "level_note": "Trusts the stamped trace (one mutex-protected logical clock written inside the callbacks) and the registry model. Async handlers after a mid-publish cancel are only held to at-most-once. Deadline expiry is produced by a harness context that reports DeadlineExceeded at a chosen logical point (no wall-clock).",
        "technique": "runtime monitoring: per-publish trace automaton over hook / handler / context stamps + lockstep registry model",
        "design_ref": "DESIGN.md section 5 C08",
        "rule": "enumerated (handler list, cancel position, cancel kind, hook subset, installation variant) scenarios, each publishing twice, plus PRNG programs; distinct = that tuple (or the executed-program signature for generated ones); non-trivial = a cancel position strictly inside the list, or >=2 hooks with >=1 handler, or (generated) a mid-publish cancel / nested publish occurred",
        "assumptions": ENGINE_ASSUME,
        "parts": [
            {"name": "hooks-ctx", "pkg": "c08", "run": "^TestC08$", "shards": {"quick": 4, "thorough": 16}, "timeout": {"quick": 300, "thorough": 1500}},
        ],
    },
    "C20": {
        "level": "exploration",
        "level_text": "Held on K generated workloads (sync/async/once/sequential/filtered/panicking handlers, pre- and mid-publish cancellation, nested publishes, failing and succeeding appends): with a recording Observability every start had exactly one complete that received the context the start returned, handler and persist contexts carried the publish token, counts matched the actual invocations / append attempts and error flags matched panics / failures; with the real OpenTelemetry implementation over the SDK span recorder and manual reader every started span ended once, handler/persist spans were children of their publish span with matching error status, and all five counters and both histograms equalled the true numbers.",
        "level_note": "Trusts the engine's own trace as ground truth (handler enter/exit stamps, store-wrapper append attempts) and the OTel SDK's in-memory recorder/reader. A span ended twice is not observable through the SDK (second End is a no-op) and is not claimed.",
        "technique": "runtime monitoring: token-matching trace checker on a recording Observability + span-tree / metric-sum checker on the OTel SDK test exporters",
        "design_ref": "DESIGN.md section 5 C20",
        "rule": "PRNG programs with observability enabled (three profiles; store with injected append failures in two); distinct = set of per-publish (normal, panicked, skipped, failed-persist) outcome classes + executed-program signature; non-trivial = some publish had (>=1 panic or skip) and >=1 normal handler, or a failed persist",
        "assumptions": ENGINE_ASSUME,
        "parts": [
            {"name": "recording", "pkg": "c20", "run": "^TestC20Recording$", "shards": {"quick": 4, "thorough": 16}, "timeout": {"quick": 300, "thorough": 1500}},
            {"name": "otel", "pkg": "c20", "run": "^TestC20OTel$", "shards": {"quick": 4, "thorough": 16}, "timeout": {"quick": 300, "thorough": 1500}},
        ],
    },
    "C02": {
        "level": "exploration",
        "level_text": "Held on K recorded concurrent histories (2-4 goroutines x 3-8 registry/publish operations on 2-3 types sharing a shard, noise at every user-code yield point, GOMAXPROCS 1/2/4/16, built with -race) and on a deterministic grid of gate scenarios (publisher parked at before-hook / filter i / OnHandlerStart i / body i / after-hook while one complete Subscribe / Unsubscribe j / Clear / ClearAll / Publish / HandlerCount runs): the three interval clauses of the statement and the quiescent clause (HandlerCount = registrations reached by a probe publish; must-survive within, certainly-removed outside) held on every history. Exploration of schedules, not all of them.",
        "level_note": "Real-time order comes only from one logical clock (A.ret < B.call); the oracle is exactly the statement, not linearizability. Windows without user code in them are reached only by stress + scheduler randomisation. The recorder's mutex adds happens-before edges, so the race detector's view of these runs is a bonus, not the C03 verdict.",
        "technique": "runtime monitoring: offline interval checker over histories recorded at the API boundary (stress + gated schedules), under the race detector",
        "design_ref": "DESIGN.md section 5 C02, sections 4.1, 4.6",
        "rule": "stress: PRNG plans, unique handler class per registration; gates: grid of (3-handler list over plain/once/async/filtered) x (park point, position) x (interposed operation); distinct = set of operation-kind pairs observed overlapping in logical time (+ goroutine count), or the gate scenario tuple; non-trivial = a registry mutation's [call,ret] overlapped a publish's [call,ret] (stress) / the gate was reached and the interposed operation ran inside the window (gates)",
        "assumptions": ["logical-clock stamps are taken at the API boundary and inside user callbacks only"],
        "parts": [
            {"name": "gates", "pkg": "c02", "run": "^TestC02Gates$", "shards": {"quick": 2, "thorough": 8}, "timeout": {"quick": 300, "thorough": 1500}},
            {"name": "stress", "pkg": "c02", "run": "^TestC02Stress$", "race": True, "shards": {"quick": 6, "thorough": 16}, "timeout": {"quick": 400, "thorough": 3000}},
        ],
    },
    "C04": {
        "level": "exploration",
        "level_text": "Sequential part: every ordering of eligible / filter-rejected / pre-cancelled / deadline-expired / cancelled-by-an-earlier-handler publishes up to length 4 (quick) or 5 (thorough) x sync/async x filter/none x plain/context-aware was run in lockstep with the registry model, HandlerCount and HasHandlers compared after every publish - enumerated completely. Concurrent part: K rounds of 2-16 publishers against 1-4 Once handlers (phase of only non-consuming publishes, then eligible ones released by a barrier with noise at filter/body, GOMAXPROCS 1/2/4/16, -race): zero calls and still counted after phase 1, exactly one call each and no longer counted after phase 2, plus the interval oracle on the recorded history.",
        "level_note": "A context cancelled concurrently with the dispatch of an async Once handler is ambiguous in the statement and only generated for the at-most-once clause. The window between the claim and the start of an async goroutine contains no user code and is reached only by stress.",
        "technique": "runtime monitoring: lockstep reference model over an exhaustively enumerated sequence space + invocation counters and interval checker under concurrent stress with the race detector",
        "design_ref": "DESIGN.md section 5 C04",
        "rule": "sequences: all words over {E,R,P,D,H} up to the tier's length x 8 handler variants; concurrent: PRNG (publishers, handlers, options); distinct = the word+variant, or (publishers, handlers, max publishes overlapping in logical time, GOMAXPROCS); non-trivial = a non-consuming publish precedes the first eligible one (sequences) / >=2 publishes overlapped on a Once registration (concurrent)",
        "assumptions": ENGINE_ASSUME,
        "parts": [
            {"name": "sequences", "pkg": "c04", "run": "^TestC04Sequences$", "shards": {"quick": 2, "thorough": 8}, "timeout": {"quick": 300, "thorough": 1500}},
            {"name": "concurrent", "pkg": "c04", "run": "^TestC04Concurrent$", "race": True, "shards": {"quick": 6, "thorough": 16}, "timeout": {"quick": 400, "thorough": 3000}},
        ],
    },
    "C07": {
        "level": "exploration",
        "level_text": "Held on K rounds of 1-8 concurrent publishers x 5-200 events against Sequential, Async+Sequential and context-aware Sequential handlers whose bodies yield inside the critical section (GOMAXPROCS 1/2/4/16, -race): enter/exit stamps of every Sequential registration alternated, an in-body counter never exceeded one, an unsynchronised canary lost no update (the race detector being a further overlap witness), every event was delivered exactly once, and for Async+Sequential the events of each publishing goroutine were processed in the order they were published.",
        "level_note": "Order is asserted only for events published one after another by the same goroutine with a live context, as the statement says. Schedules are sampled (noise + GOMAXPROCS + race-detector scheduler randomisation), not enumerated.",
        "technique": "runtime monitoring: online overlap assertion + offline order / exactly-once checker over recorded histories, under the race detector",
        "design_ref": "DESIGN.md section 5 C07",
        "rule": "PRNG (publishers, events per publisher, handler mix, noise level, GOMAXPROCS); distinct = (publishers, events/10, max dispatched-but-not-entered invocations capped at 8, GOMAXPROCS); non-trivial = at least two invocations were pending simultaneously",
        "assumptions": ["logical-clock stamps are taken inside the handler bodies"],
        "parts": [
            {"name": "sequential", "pkg": "c07", "run": "^TestC07$", "race": True, "shards": {"quick": 8, "thorough": 16}, "timeout": {"quick": 400, "thorough": 3000}},
        ],
    },
    "C06": {
        "level": "exploration",
        "level_text": "Wait: on K recorded workloads (1-3 publishers, async handlers that yield / sleep / publish further async work to depth 3, Wait called at PRNG-chosen points incl. immediately after Publish, GOMAXPROCS 1/2/4/16, -race) every async delivery owed to a live-context publish ran exactly once, and at every Wait return stamp every invocation in the transitive closure of the publishes that had returned before that Wait was called had exited. Shutdown: a complete grid of handler durations x nesting x context deadline / cancel instant x store kind run under virtual time (testing/synctest): return value, return instant, Close count and Close instant were exact.",
        "level_note": "Obligations come only from publishes whose return stamp precedes the Wait call stamp; schedules are sampled. Virtual time makes Shutdown outcomes exact; scenarios in which the context ends at the same virtual instant as the work accept either outcome.",
        "technique": "runtime monitoring: offline closure checker over recorded histories (race detector on) + exact-outcome assertions under virtual time",
        "design_ref": "DESIGN.md section 5 C06, section 4.9",
        "rule": "wait: PRNG (registry, nesting depth, publishers, wait points, GOMAXPROCS); shutdown: full grid d1 x d2 x nested x deadline x store x cancel kind; distinct = (GOMAXPROCS, nesting, publishers, owed-not-started / running classes) or the grid point; non-trivial = at least one owed invocation had not started when Wait was called / the grid point has a context that ends at a positive instant different from the work's end",
        "assumptions": ["logical-clock stamps are taken at the API boundary and inside handler bodies", "testing/synctest virtual time (Go 1.25) for the Shutdown grid"],
        "parts": [
            {"name": "wait", "pkg": "c06", "run": "^TestC06Wait$", "race": True, "shards": {"quick": 6, "thorough": 16}, "timeout": {"quick": 400, "thorough": 3000}},
            {"name": "shutdown", "pkg": "c06", "run": "^TestC06Shutdown$", "shards": {"quick": 2, "thorough": 4}, "timeout": {"quick": 300, "thorough": 900}},
        ],
    },
    "C03": {
        "level": "exploration",
        "level_text": "Race half: recorder-free runs (monitor code adds no synchronisation) of an all-API mix - 4-16 goroutines x hundreds of PRNG operations over publish (sync/async/once/sequential/filtered/panicking handlers, re-entrant publishes), subscribe, unsubscribe, clear, clear-all, has/count, Wait, Replay, ReplayWithUpcast, upcast registration and clearing, SubscribeWithReplay, direct store use and the state materializer - on memory, paged memory, SQLite (file, memory, batched) and durable-streams stores under the race detector with halt_on_error=0; every report is parsed, de-duplicated and attributed (ebu frame => violation). Deadlock half: the complete re-entrancy matrix (8 callback sites x 9 re-entrant calls x 4 handler options, minus the documented exception) and a progress watchdog whose firing is a deadlock only if two goroutine dumps show workload goroutines parked below ebu frames.",
        "level_note": "A clean run covers the pairs of accesses the workloads executed, not all. Configuration setters are applied before the goroutines start, as the statement allows. SQLite BUSY/LOCKED errors are not races or deadlocks and are ignored. Third-party-only race reports are listed, not decided.",
        "technique": "runtime monitoring: Go race detector over recorder-free stress workloads + deterministic re-entrancy matrix with goroutine-dump deadlock oracle",
        "design_ref": "DESIGN.md section 5 C03, sections 4.7-4.8",
        "rule": "mix: PRNG (store kind, goroutines, op sequence); matrix: enumerated completely; distinct = (store kind, goroutines, number of distinct API operations executed) / the matrix cell; non-trivial = >=2 goroutines executed >=8 different API operations concurrently / the re-entrant call mutates or publishes",
        "assumptions": ["race reports are attributed by stack frames: github.com/jilio/ebu or a path under the repository"],
        "parts": [
            {"name": "reentrancy", "pkg": "c03", "run": "^TestC03Reentrancy$", "shards": {"quick": 1, "thorough": 1}, "timeout": {"quick": 600, "thorough": 900}},
            {"name": "mix", "pkg": "c03", "run": "^TestC03Mix$", "race": True, "shards": {"quick": 6, "thorough": 16}, "timeout": {"quick": 600, "thorough": 3000}},
        ],
    },
    "C10": {
        "level": "exploration",
        "level_text": "Held (apart from the recorded findings) on K PRNG operation sequences per store configuration - memory, memory with the streamer hidden, SQLite on a file / in memory / with stream batch 1,2,3,5,1000, durable-streams against the reference server in-process with default and 400-byte chunks - run in lockstep with a reference log: every Append offset compared with its predecessor as strings, every Read / ReadStream result compared event by event (type, data bytes or JSON value, timestamp instant) with the reference slice for that resume point, every offset value ever handed out (append result, next, event offset) tracked with the position it denotes so that chains of reads with arbitrary limits and resume points must neither skip nor repeat, Save/LoadOffset over several ids, and a second store of the same kind run alongside for isolation.",
        "level_note": "Offsets are treated as opaque: only string comparison of consecutive Append results and position bookkeeping. Data equality is byte equality for memory/SQLite and JSON-value equality (numbers textual) for durable-streams, whose client re-encodes. Invalid UTF-8 type strings, OffsetNewest as a read origin, number literals the reference server rejects (1e400) and saving the empty offset are outside the generated domain. Durable-streams cases alternate between a strict mode (no limit-truncating reads, no resumption from event offsets) in which any deviation is a new violation, and an arbitrary mode in which deviations after a truncating read carry the recorded finding's signature.",
        "technique": "runtime monitoring: reference-model (append-only log with offset-position bookkeeping) run in lockstep with each bundled store",
        "design_ref": "DESIGN.md section 5 C10, section 4.4",
        "rule": "PRNG sequences of Append / Read(o,n) / chained reads / ReadStream / SaveOffset / LoadOffset over two stores of one kind; events with arbitrary valid-UTF-8 type strings, arbitrary JSON documents and timestamps in any zone; distinct = (store kind, chain-of-3-limits seen, event-offset resume seen, non-UTC zone seen, log length/10); non-trivial = a chain of >=3 reads with >=2 different limits, or a resume from an event offset, or a non-UTC timestamp",
        "assumptions": ["the reference durable-streams server (ahimsalabs memorystorage) stands in for a real server"],
        "parts": [
            {"name": "lockstep", "pkg": "c10", "run": "^TestC10$", "shards": {"quick": 4, "thorough": 16}, "timeout": {"quick": 400, "thorough": 3000}},
        ],
    },
    "C11": {
        "level": "fault_enumeration",
        "level_text": "Enumerated completely for the tier's bounds: store configuration {memory streaming, memory paged, SQLite unbatched, SQLite stream batch 1/2/3/5, durable-streams with default and 400-byte server chunks} x replay batch size {1,2,(3,5,)100,unset} x log length 0..6 (quick) / 0..12 (thorough) x every start offset x failure {none, callback error at event k, context cancelled inside the callback at event k, context cancelled before the call, store read / stream-open / stream-yield error at every index (wrapper), SQLite row-iteration error at every row of every batch query (database/sql driver wrapper through the verif hook)} for every k. Each replay: the callback sequence must be a gap-free, duplicate-free, in-order prefix of the reference suffix; nil only if complete; callback and injected store errors must surface; no append and no handler dispatch during replay.",
        "level_note": "A cancelled replay that nevertheless delivers everything and returns nil is accepted (it did deliver every event); what is refuted is nil after a proper prefix. Injected SQL errors fire only where a real row would have been returned. Start offsets are Append results (resumable on every store).",
        "technique": "runtime monitoring with fault injection: enumerated failure positions through store wrappers and a database/sql driver wrapper, offline prefix/verdict oracle per replay",
        "design_ref": "DESIGN.md section 5 C11, sections 3.8, 4.5",
        "rule": "full grid as described; distinct = (config, batch, length, start, failure kind, k, query); non-trivial = the failure position lies strictly inside a page/batch, or the suffix is longer than the batch size",
        "assumptions": ["faultsql wraps the real modernc driver and only alters Rows.Next at the chosen row"],
        "parts": [
            {"name": "replay", "pkg": "c11", "run": "^TestC11$", "shards": {"quick": 4, "thorough": 16}, "timeout": {"quick": 400, "thorough": 3000}},
        ],
    },
    "C13": {
        "level": "fault_enumeration",
        "level_text": "Enumerated completely for the tier's bound: every fail/succeed bit pattern of appends over runs of 1..6 (quick) / 1..9 (thorough) publishes - including failure on the first publish of a fresh bus and runs of consecutive failures - with an unencodable event of each of six kinds (chan / NaN in an interface-typed field of an otherwise encodable type, chan field, func field, failing MarshalJSON, cyclic pointer) at every position, error handler set by option / by setter / unset, 0 / 1 / 3 handlers (sync, async, context-aware+sequential). Per publish: no panic, every handler got the event, exactly one error-handler call with the event and its reflect.Type on failure and none on success, exactly one append attempt for encodable events and none otherwise, the underlying store unchanged by failures; finally the log equals the successful publishes in order with increasing offsets. Timeouts: a grid of store delay x persistence timeout x publish-context deadline x (store honours / ignores the context) x publish sequence under virtual time: a publish is reported failed exactly once iff its record never reaches the log, attempts = publishes, log order = publish order.",
        "level_note": "The store wrapper decides failures by append index and records what reached the real MemoryStore. Timeouts use testing/synctest virtual time; the bus does not itself enforce the timeout on a store that ignores its context, so the oracle relates reports to log contents rather than prescribing who times out.",
        "technique": "runtime monitoring with fault injection: enumerated append-failure patterns through a store wrapper + virtual-time timeout grid, per-publish assertions on handler / error-handler / store observations",
        "design_ref": "DESIGN.md section 5 C13",
        "rule": "all bit patterns x unencodable kind/position x configuration variant; timeout grid; distinct = (pattern, error-handler mode, handlers) / the grid point; non-trivial = a success after >=1 failure or >=2 consecutive failures / a timeout or deadline shorter than the store delay in a multi-publish sequence",
        "assumptions": ["testing/synctest virtual time (Go 1.25) for the timeout grid"],
        "parts": [
            {"name": "patterns", "pkg": "c13", "run": "^TestC13Patterns$", "shards": {"quick": 4, "thorough": 16}, "timeout": {"quick": 300, "thorough": 1500}},
            {"name": "timeouts", "pkg": "c13", "run": "^TestC13Timeouts$", "shards": {"quick": 2, "thorough": 4}, "timeout": {"quick": 300, "thorough": 900}},
        ],
    },
    "C09": {
        "level": "exploration",
        "level_text": "Options: every permutation of WithStore with every subset of up to 3 (quick: all 1-2-subsets and a seed-chosen fifth of the 3-subsets) / 4 (thorough, complete) of the other eleven bus options, plus WithStore applied after New and legacy hooks installed by setter: three publishes each, exactly one record per publish with the EventType name and the event's JSON, readable from inside a synchronous and an asynchronous handler of that publish, and the user's own hooks still run. Values: K generated values of eleven event shapes (nested structs with nil/empty/filled pointers, slices, maps, bytes, extreme ints and floats, unicode; pointer events; custom MarshalJSON; TypeNamer incl. value-dependent and pointer-receiver names; named string / map types): stored type = EventType(event), stored data = json.Marshal(event) as a JSON value, decoding yields the published value. Concurrency: rounds of 2-16 publishers on memory, paged memory, SQLite (file, memory) and durable-streams: exactly N records, id multiset exact, offsets strictly increasing in read order, every handler found its own record.",
        "level_note": "Strictly increasing is evaluated with the documented lexicographic order, so SQLite's unpadded offsets surface here under the same signature as in C10 (recorded finding). Durable-streams per-event offsets are synthetic (C10 finding) and are not compared here.",
        "technique": "runtime monitoring: store-content oracle from inside handlers and after publishes, over enumerated option permutations, generated values and concurrent publishers",
        "design_ref": "DESIGN.md section 5 C09",
        "rule": "options: enumerated permutations x installation variant; values: PRNG; concurrent: PRNG (store, publishers, events, GOMAXPROCS); distinct = the option permutation+variant / (shape, depth, size class, nil-empty-filled flags) / (store, publishers, events, GOMAXPROCS); non-trivial = a hook-setting option after WithStore or a late installation / value nesting depth >=2 / >=2 publishers",
        "assumptions": [],
        "parts": [
            {"name": "options", "pkg": "c09", "run": "^TestC09Options$", "shards": {"quick": 4, "thorough": 16}, "timeout": {"quick": 300, "thorough": 3000}},
            {"name": "values", "pkg": "c09", "run": "^TestC09Values$", "shards": {"quick": 2, "thorough": 8}, "timeout": {"quick": 300, "thorough": 1500}},
            {"name": "concurrent", "pkg": "c09", "run": "^TestC09Concurrent$", "race": True, "shards": {"quick": 5, "thorough": 15}, "timeout": {"quick": 400, "thorough": 3000}},
        ],
    },
    "C12": {
        "level": "fault_enumeration",
        "level_text": "For K PRNG histories of Publish (three event types), SubscribeWithReplay (three ids, two sharing a type) and Restart on memory (as both stores), memory with a separate subscription store (streaming and paged), SQLite (unbatched, batch 2) and durable-streams with a memory subscription store: the fault-free run, then for EVERY store operation k of that run (append, read, stream open, every yield, stream end, save, load): a crash after k (dead mode: later operations are no-ops, later callbacks did not happen; restart on the same durable state), a failure of k, and - for every k inside a running SubscribeWithReplay - a complete foreign Publish interleaved at k. Each run ends with a fault-free restart and drain. Oracle on one timeline of appends / deliveries / saves: no persisted event of the subscribed type is lost, exactly once and in log order without faults, first occurrences in log order, a redelivery only of an event whose position had not been saved successfully before, the saved offset never moves backwards.",
        "level_note": "Crash = the durable state a process death right after operation k leaves behind (the harness lets the call unwind, drops the bus and builds a new one on the same stores); torn writes inside one store operation are C14's subject. Events whose append failed are not part of the log. Concurrent live publishers other than the single interleaved Publish are not generated.",
        "technique": "runtime monitoring with fault injection: crash / failure / interleaving enumerated at every store operation through store wrappers, offline exactly-once / order / monotonic-offset checker over the recorded timeline",
        "design_ref": "DESIGN.md section 5 C12, section 4.5",
        "rule": "distinct = (store, history shape, fault kind, operation index); non-trivial = the history contains a restart, or the faulted operation is a save or an append, or it is an interleaving",
        "assumptions": ["store wrappers keep the optional-interface shape of the wrapped store, so the bus takes the same code paths"],
        "parts": [
            {"name": "resume", "pkg": "c12", "run": "^TestC12$", "shards": {"quick": 6, "thorough": 16}, "timeout": {"quick": 400, "thorough": 3000}},
        ],
    },
    "C14": {
        "level": "fault_enumeration",
        "level_text": "A child process built from /repo performs a seeded single-writer run of Append / SaveOffset (incl. a save that first fails under a dead context and is retried) and writes one acknowledgement line per returned call. Kill plans: SIGKILL after the k-th acknowledgement for PRNG k with a PRNG spin, over 1-4 kill / clean-close cycles on the same file; and strace-injected SIGKILL at the N-th pwrite64 / fsync / write / ftruncate of the child for a spread of N (quick) or every N until runs complete un-killed (thorough). After every kill or close the parent reopens the database with the store: every acknowledged append is there at its acknowledged offset, the log is ids 0..m-1 in order with m in {acked, acked+1}, offsets numerically increasing, content unchanged, LoadOffset = last acknowledged save (or the one in flight), schema_version holds one row, a second reopen changes nothing, a further append gets a larger offset.",
        "level_note": "Process kill only: power loss / torn sectors are not modelled (synchronous=NORMAL makes no promise there and the property does not ask). Offsets are compared numerically here (their lexicographic order is C10's finding). strace counts N per thread; if it cannot attach, that plan is recorded as inconclusive. A kill before the first acknowledgement is inconclusive.",
        "technique": "runtime monitoring with fault injection: real SIGKILLs of a writer process (by acknowledgement count and by strace syscall-indexed injection), offline comparison of the reopened database with the acknowledgement log",
        "design_ref": "DESIGN.md section 5 C14",
        "rule": "distinct = (plan, acknowledged-ops class or syscall+N, cycle); non-trivial = the kill landed after >=1 acknowledgement and before the run's end",
        "assumptions": ["the acknowledgement file is written with O_APPEND after the store call returned"],
        "aux_bins": {"sqlitechild": "cmd/sqlitechild"},
        "parts": [
            {"name": "kill", "pkg": "c14", "run": "^TestC14$", "shards": {"quick": 4, "thorough": 12}, "timeout": {"quick": 400, "thorough": 3000}},
            {"name": "strace", "pkg": "c14", "run": "^TestC14Strace$", "shards": {"quick": 4, "thorough": 12}, "timeout": {"quick": 400, "thorough": 3000}},
        ],
    },
    "C15": {
        "level": "exploration",
        "level_text": "The finite cross product was enumerated completely: 12 event-type shapes (plain struct, pointer to struct, TypeNamer on value receiver published by value / by pointer, TypeNamer on pointer receiver published by pointer / by value, state.ChangeMessage and state.ControlMessage by value and by pointer, named string with and without TypeNamer) x 7 API routes (persisted type name vs EventType, Replay with EventType comparison, SubscribeWithReplay replay phase and live phase, RegisterUpcast as source, as target, target chained into SubscribeWithReplay) x 3 stores (memory, paged memory, SQLite). Each cell compares observed deliveries / type names / data with the published events.",
        "level_note": "Exhaustive over the listed shapes and routes, which are the ones the statement names; an EventTypeName that depends on the value's content cannot be derived from a Go type and is outside the statement (its persisted name is covered by C09).",
        "technique": "runtime monitoring: direct observation oracle over an exhaustively enumerated shape x API x store matrix",
        "design_ref": "DESIGN.md section 5 C15",
        "rule": "distinct = (shape, API route, store); non-trivial = the shape's EventType name differs from its reflect name",
        "assumptions": [],
        "parts": [
            {"name": "matrix", "pkg": "c15", "run": "^TestC15$", "shards": {"quick": 1, "thorough": 1}, "timeout": {"quick": 300, "thorough": 600}},
        ],
    },
}
