#!/usr/bin/env python3
"""Regenerates MANIFEST.json from driver/properties.py (single source of truth for the checks)."""
import json, os, sys
sys.path.insert(0, os.path.dirname(os.path.abspath(__file__)))
from properties import PROPS, NOT_APPLICABLE, HOOK_COMMITS

VERIF = os.path.dirname(os.path.dirname(os.path.abspath(__file__)))
ids = [json.loads(l)["id"] for l in open(os.path.join(VERIF, "properties.jsonl"))]
checks = []
for pid in ids:
    if pid not in PROPS:
        continue
    p = PROPS[pid]
    checks.append({
        "property_id": pid,
        "quick_cmd": f"./check {pid} --tier quick",
        "thorough_cmd": f"./check {pid} --tier thorough",
        "evidence_file": f"/verif/evidence/{pid}.json",
        "replay_cmd_template": f"./check {pid} --replay {{path}}",
        "engine": "harness",
        "level_claimed": {"category": p["level"], "text": p["level_text"], "design_ref": p["design_ref"]},
        "level_note": p["level_note"],
        "technique": p["technique"],
    })
na = [{"property_id": pid, "reason": NOT_APPLICABLE.get(pid, "check not built yet in this round (runtime monitoring applies; see DESIGN.md section 5)")} for pid in ids if pid not in PROPS]
m = {
    "version": 1,
    "setup_cmd": "./setup.sh",
    "hooks": {
        "guard": "verif",
        "enable": "Go build tag: the driver builds the harness (which imports /repo through replace directives) with `go test -c -tags verif`; /repo's verif-tagged files are compiled only then",
        "baseline_off_cmd": "for m in . otel stores/durablestream stores/sqlite; do (cd /repo/$m && GOFLAGS=-mod=mod GOPROXY=off go test -json -vet=off -count=1 -timeout 25m ./...); done",
        "source_commits": HOOK_COMMITS,
        "add_only": True,
    },
    "engines": [{"name": "harness", "path": "/verif/harness", "serves_properties": [c["property_id"] for c in checks],
                 "kind_free_text": "Go test binaries (tag verif, -race where stated) that drive the real packages under /repo with generated, hostile and fault-injected workloads while monitors (lockstep reference models, offline history checkers, race detector) observe; driver in /verif/driver"}],
    "checks": checks,
    "not_applicable": na,
    "notes": "All checks: cwd=/verif, honour VERIF_SEED / VERIF_TIER, rebuild the harness against /repo's working tree on every run, exit 0/1/2 (2 = infrastructure error or nothing observed). Known findings: /verif/known_findings.json.",
}
json.dump(m, open(os.path.join(VERIF, "MANIFEST.json"), "w"), indent=1)
print("MANIFEST.json:", len(checks), "checks,", len(na), "not applicable")
